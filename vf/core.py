"""Shared harness: result collection, sharded bounded runs, evidence, replay files.

Vocabulary (DESIGN.md §1, §4):
  obligation  - one verification condition produced by E1 (pyvc) from the real source;
                verdicts: discharged | refuted | unknown.
  case        - one concrete or symbolic-valued execution of the real code against a
                spec oracle (E2 symrun / E3 enumrun); counted as *bounded*, never proved.
  violation   - refuted obligation (with replay) or failing case, keyed by a stable
                string so that known_findings.json can match the specific failure.
"""
from __future__ import annotations

import hashlib
import json
import os
import subprocess
import sys
import time
import traceback
from pathlib import Path

VERIF = Path(__file__).resolve().parent.parent
REPO = Path(os.environ.get("VERIF_REPO", "/repo")).resolve()


def jdefault(o):
    try:
        import numpy as np

        if isinstance(o, np.generic):
            return o.item()
        if isinstance(o, np.ndarray):
            return o.tolist()
    except Exception:
        pass
    if isinstance(o, (set, frozenset)):
        return sorted(o, key=repr)
    if isinstance(o, tuple):
        return list(o)
    return repr(o)


def jdump(o, **kw):
    return json.dumps(o, default=jdefault, **kw)


def stable_hash(o) -> str:
    return hashlib.sha256(jdump(o, sort_keys=True).encode()).hexdigest()[:16]


class Group:
    """A family of bounded cases.

    gen(tier, seed) -> iterable of JSON-able case inputs (cheap to enumerate);
    check(case) -> None if the contract held, else a failure dict/str.  A failure
      dict may carry 'key' (stable identifier of *what* failed, used for
      known-finding matching) and 'what'.
    nontrivial(case) -> bool; distinct cases are counted by stable hash.
    seed_fanout: run each case under that many different PYTHONHASHSEEDs.
    """

    def __init__(self, name, gen, check, nontrivial=None, seed_fanout=1, engine="E3", bound=""):
        self.name = name
        self.gen = gen
        self.check = check
        self.nontrivial = nontrivial or (lambda c: True)
        self.seed_fanout = seed_fanout
        self.engine = engine
        self.bound = bound


def in_repo_traceback(tb_text: str) -> bool:
    return str(REPO / "pgmpy") in tb_text or "/pgmpy/" in tb_text


def run_case(group: Group, case):
    """Returns None or failure dict {key, what, fault?}."""
    try:
        r = group.check(case)
    except Exception as e:  # noqa
        tb = traceback.format_exc()
        # exception escaping from the real code while the oracle expected an answer
        lines = [l for l in tb.splitlines() if l.strip().startswith("File ")]
        last = lines[-1] if lines else ""
        if "/pgmpy/" in last or in_repo_traceback("\n".join(lines[-6:])):
            return {
                "key": f"{group.name}:raised:{type(e).__name__}",
                "what": f"real code raised {type(e).__name__}: {e}",
                "traceback": tb[-2500:],
            }
        return {"fault": True, "key": f"{group.name}:checker-fault", "what": tb[-3000:]}
    if r is None or r is True:
        return None
    if isinstance(r, str):
        r = {"what": r}
    r.setdefault("key", f"{group.name}:contract")
    if not r["key"].startswith(group.name):
        r["key"] = f"{group.name}:{r['key']}"
    return r


def worker_main(prop: str, tier: str, seed: int, shard: int, of: int, only_group=None):
    """Executed in a subprocess (own PYTHONHASHSEED). Prints one JSON line."""
    import importlib

    sys.path.insert(0, str(REPO))
    mod = importlib.import_module(f"vf.props.{prop}")
    out = {"groups": {}, "shard": shard, "hashseed": os.environ.get("PYTHONHASHSEED")}
    t0 = time.time()
    # watchdog: a case in which the real code does not come back (e.g. a sampling loop that cannot terminate) is a failure with a
    # replayable input, not a hang of the check.  Cases take milliseconds to seconds; the limit is far above that even under load.
    import threading
    limit = float(os.environ.get("VERIF_CASE_TIMEOUT", "600" if tier == "quick" else "1800"))
    current = {"group": None, "case": None, "since": None, "st": None}

    def watchdog():
        while True:
            time.sleep(5)
            since = current["since"]
            if since is not None and time.time() - since > limit:
                g_, st_ = current["group"], current["st"]
                st_["failures"].append({"key": f"{g_.name}:no-result-within-{int(limit)}s", "group": g_.name, "case": current["case"],
                                        "what": f"the real code did not return within {int(limit)} s on this case (non-termination or extreme slowdown)"})
                st_["secs"] = time.time() - t0
                st_["distinct"] = sorted(st_["distinct"]) if isinstance(st_["distinct"], set) else st_["distinct"]
                out["groups"][g_.name] = st_
                out["wall"] = time.time() - t0
                sys.stdout.write("\n@@RESULT@@" + jdump(out) + "\n")
                sys.stdout.flush()
                os._exit(0)

    threading.Thread(target=watchdog, daemon=True).start()
    for g in mod.groups(tier):
        if only_group and g.name != only_group:
            continue
        st = {"evaluations": 0, "distinct": set(), "failures": [], "faults": [], "samples": [], "secs": 0.0,
              "engine": g.engine, "bound": g.bound}
        tg = time.time()
        fan = max(1, min(g.seed_fanout, of))
        for idx, case in enumerate(g.gen(tier, seed)):
            mine = any((idx + j) % of == shard for j in range(fan))
            if not mine:
                continue
            st["evaluations"] += 1
            if g.nontrivial(case):
                st["distinct"].add(stable_hash(case))
            if len(st["samples"]) < 2 and g.nontrivial(case):
                st["samples"].append(case)
            current.update(group=g, case=case, since=time.time(), st=st)
            f = run_case(g, case)
            current["since"] = None
            if f is not None:
                f["case"] = case
                f["group"] = g.name
                (st["faults"] if f.get("fault") else st["failures"]).append(f)
                if len(st["failures"]) > 40 or len(st["faults"]) > 5:
                    break
        st["secs"] = time.time() - tg
        st["distinct"] = sorted(st["distinct"])
        out["groups"][g.name] = st
    out["wall"] = time.time() - t0
    sys.stdout.write("\n@@RESULT@@" + jdump(out) + "\n")
    sys.stdout.flush()


def run_sharded(prop: str, tier: str, seed: int, nproc: int = None, only_group=None, timeout=None):
    """Spawn workers with distinct hash seeds; merge results."""
    nproc = nproc or min(16, os.cpu_count() or 4)
    procs = []
    for i in range(nproc):
        env = dict(os.environ)
        env["PYTHONHASHSEED"] = str((seed * 31 + i) % 4294967295)
        env["OMP_NUM_THREADS"] = "1"
        env["MKL_NUM_THREADS"] = "1"
        env["OPENBLAS_NUM_THREADS"] = "1"
        env["VERIF_WORKER"] = "1"
        cmd = [sys.executable, "-m", "vf.driver", "--worker", prop, "--tier", tier, "--seed", str(seed),
               "--shard", str(i), "--of", str(nproc)]
        if only_group:
            cmd += ["--group", only_group]
        procs.append(subprocess.Popen(cmd, stdout=subprocess.PIPE, stderr=subprocess.PIPE, env=env, cwd=str(VERIF), text=True))
    merged = {}
    faults = []
    for i, p in enumerate(procs):
        try:
            so, se = p.communicate(timeout=timeout)
        except subprocess.TimeoutExpired:
            p.kill()
            so, se = p.communicate()
            faults.append({"what": f"worker {i} timed out"})
            continue
        if "@@RESULT@@" not in so:
            faults.append({"what": f"worker {i} died rc={p.returncode}: {se[-3000:]}"})
            continue
        res = json.loads(so.split("@@RESULT@@", 1)[1].strip().splitlines()[0])
        for gname, st in res["groups"].items():
            m = merged.setdefault(gname, {"evaluations": 0, "distinct": set(), "failures": [], "faults": [], "samples": [],
                                          "secs": 0.0, "engine": st["engine"], "bound": st["bound"], "hashseeds": set()})
            m["evaluations"] += st["evaluations"]
            m["distinct"].update(st["distinct"])
            m["failures"] += st["failures"]
            m["faults"] += st["faults"]
            if len(m["samples"]) < 3:
                m["samples"] += st["samples"][:1]
            m["secs"] = max(m["secs"], st["secs"])
            m["hashseeds"].add(res["hashseed"])
    return merged, faults


class Report:
    """Collects everything a check run produced and writes evidence + verdict."""

    def __init__(self, prop, tier, seed, level):
        self.prop, self.tier, self.seed, self.level = prop, tier, seed, level
        self.t0 = time.time()
        self.obligations = []  # dicts: name, verdict, backend, secs, function
        self.functions = {}  # qualname -> {sha, obligations, discharged}
        self.bounded = {}
        self.violations = []  # dicts: key, what, replay payload
        self.candidates = []  # E1 counter-model candidates awaiting corroboration by a failing input
        self.faults = []
        self.undecided = []
        self.assumptions = []
        self.trusted = []
        self.notes = []

    # ---- E1
    def add_obligation(self, ob):
        self.obligations.append(ob)

    def add_violation(self, key, what, payload):
        self.violations.append({"key": key, "what": what, "payload": payload})

    # ---- finish
    def load_known(self):
        p = VERIF / "known_findings.json"
        if not p.exists():
            return []
        return [k for k in json.loads(p.read_text()).get("findings", []) if k.get("property") == self.prop and k.get("kind") == "known"]

    def finish(self, extra_cov=None, explanation=None):
        import re

        # E1 candidates (bounded-universe counter-models) count only when some bounded group failed in this run
        if self.candidates:
            if self.violations:
                witness = next((v for v in self.violations if v["payload"].get("group")), self.violations[0])
                for c in self.candidates:
                    c["payload"]["corroborated_by"] = witness["key"]
                    c["payload"]["no_failing_input"] = False
                    c["payload"].setdefault("group", witness["payload"].get("group"))
                    c["payload"].setdefault("case", witness["payload"].get("case"))
                    self.violations.append(c)
            else:
                for c in self.candidates:
                    self.undecided.append(c["what"] + " - not corroborated by any failing input of the bounded groups")
        known = self.load_known()
        new, listed = [], {}
        for v in self.violations:
            hit = None
            for k in known:
                if re.fullmatch(k["match"], v["key"]):
                    hit = k
                    break
            if hit:
                listed.setdefault(hit["id"], (hit, []))[1].append(v)
            else:
                new.append(v)
        for kid, (k, vs) in listed.items():
            print(f"KNOWN-FINDING: property={self.prop} {k['what']} [{kid}; {len(vs)} failing case(s) this run]")
        rdir = VERIF / "replays" / self.prop
        seen = set()
        for v in new:
            if v["key"] in seen:
                continue
            seen.add(v["key"])
            rdir.mkdir(parents=True, exist_ok=True)
            fn = rdir / (re.sub(r"[^A-Za-z0-9_.-]+", "_", v["key"])[:120] + ".json")
            fn.write_text(jdump({"property": self.prop, "key": v["key"], "what": v["what"], **v["payload"]}, indent=1))
            tail = " no-failing-input-found" if v["payload"].get("no_failing_input") else ""
            print(f"VIOLATION property={self.prop} replay={fn.relative_to(VERIF)} key={v['key']} :: {str(v['what'])[:300]}{tail}")
        n_ob = len(self.obligations)
        n_dis = sum(1 for o in self.obligations if o["verdict"] == "discharged")
        ev = sum(b["evaluations"] for b in self.bounded.values())
        dn = sum(len(b["distinct"]) for b in self.bounded.values())
        samples = []
        for o in self.obligations[:3]:
            samples.append({"obligation": o["name"], "verdict": o["verdict"], "backend": o.get("backend"), "smt_assertions": o.get("size")})
        for gname, b in self.bounded.items():
            for s in b["samples"][:1]:
                samples.append({"group": gname, "case": s})
        cov = {
            "obligations": n_ob,
            "discharged": n_dis,
            "checker_cmd": f"./check {self.prop} --tier {self.tier}",
            "trusted_base": sorted(set(self.trusted)),
            "functions_under_contract": self.functions,
            "obligation_list": [{k: o.get(k) for k in ("name", "verdict", "backend", "secs")} for o in self.obligations],
            "solver_seconds": round(sum(o.get("secs", 0) for o in self.obligations), 3),
            "bounded_groups": {
                g: {"engine": b["engine"], "bound": b["bound"], "evaluations": b["evaluations"], "distinct_nontrivial": len(b["distinct"]),
                    "failures": len(b["failures"]), "hashseeds": len(b.get("hashseeds", []))}
                for g, b in self.bounded.items()
            },
            "evaluations": ev + n_ob,
            "distinct_nontrivial": dn + n_ob,
            "rule": "E1: one evaluation per generated verification condition (all distinct by name). Bounded groups: cases are "
                    "enumerated by each group's generator; distinct = distinct stable hash of the case input; non-trivial per the group's "
                    "own predicate (at least one edge / shared variable / non-uniform table, see vf/props).",
            "samples": samples or [{"note": "no cases"}],
            "explanation": explanation or "",
            "undecided": self.undecided,
            "known_findings_hit": sorted(listed),
            "exhaustive": False,
        }
        if extra_cov:
            cov.update(extra_cov)
        evd = {
            "property_id": self.prop,
            "tier": self.tier,
            "seed": self.seed,
            "level": self.level,
            "coverage": cov,
            "assumptions": sorted(set(self.assumptions)),
            "wall_s": round(time.time() - self.t0, 2),
            "violations": len(new),
        }
        (VERIF / "evidence").mkdir(exist_ok=True)
        # partial development runs (--no-e1 / --no-bounded / --group) never overwrite the registered evidence file
        name = f"{self.prop}.json" if not getattr(self, "partial", False) else f"_partial_{self.prop}.json"
        (VERIF / "evidence" / name).write_text(jdump(evd, indent=1))
        if self.faults:
            for f in self.faults[:5]:
                print("CHECKER-FAULT:", str(f.get("what"))[:3000])
            return 3
        if new:
            return 1
        if n_ob + ev == 0:
            print("CHECKER-FAULT: zero obligations and zero cases")
            return 3
        if self.undecided:
            for u in self.undecided[:10]:
                print("UNDECIDED:", u)
            return 2
        print(f"OK property={self.prop} tier={self.tier} obligations={n_ob} discharged={n_dis} bounded_cases={ev} wall={evd['wall_s']}s")
        return 0
