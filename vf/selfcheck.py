"""./check --setup : environment is built by the shell wrapper; here we only verify imports."""
import sys


def setup():
    import z3, jsonschema, icontract, numpy, networkx, pandas  # noqa
    import pgmpy  # noqa

    print("setup ok: z3", z3.get_version_string(), "pgmpy from", pgmpy.__file__)
    return 0
