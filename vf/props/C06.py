"""C06 - parameter learning returns the closed-form estimates (DESIGN.md §6 C06)."""
from vf.bounded import c06 as B

LEVEL = "exploration"
EXPLANATION = ("Bounded groups (E3) run the real MaximumLikelihoodEstimator / BayesianEstimator / ExpectationMaximization, model.fit, DAG.fit and "
               "fit_update on enumerated tiny frames and seeded frames over all small DAGs and compare every CPD, read by named assignment, with "
               "exact Fraction closed forms on naive row counts; EM is monitored through a brute-force observed-data log-likelihood.")
ASSUMPTIONS = ["complete data (no NaN cells); string columns are given as object or categorical dtype (pandas' default str dtype is a separate case)",
               "float comparison with absolute tolerance 1e-9 on probabilities; EM monotonicity with relative tolerance 1e-9"]
TRUSTED = ["fractions.Fraction, math.log", "pandas DataFrame construction", "TabularCPD accessors variables / state_names / values"]


def groups(tier):
    return B.groups(tier)
