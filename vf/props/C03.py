"""C03 - MAP queries return a maximiser of the exact posterior with valid names (DESIGN.md section 6, C03)."""
from vf.bounded import c03 as B

LEVEL = "exploration"
EXPLANATION = ("Bounded groups (E3) run the real map_query (VariableElimination with every order option, BeliefPropagation, VariableElimination on "
               "a Markov network), BayesianNetwork.predict, DiscreteFactor.assignment and DiscreteFactor.maximize on enumerated / seeded inputs. "
               "Optimality is decided by evaluating the exact brute-force posterior (Fractions, no pgmpy) at the returned assignment and comparing "
               "with its maximum, so ties are free; decoding and maximisation are compared point-wise by state name.")
ASSUMPTIONS = ["node names are strings", "BeliefPropagation is exercised on connected models only (disconnected clique trees are rejected by the library)",
               "float argmax may pick an assignment whose exact posterior is within 1e-9 of the maximum"]
TRUSTED = ["vf/bounded/oracles.py joint_prob (brute force by named assignment)"]


def groups(tier):
    return B.groups(tier)
