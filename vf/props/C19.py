"""C19 - conditional-independence tests compute the statistic they document (DESIGN.md section 6, C19)."""
from vf.bounded import c19 as B

LEVEL = "exploration"
EXPLANATION = ("Bounded groups (E3) run the real pgmpy.estimators.CITests.power_divergence / chi_square / g_sq / log_likelihood / "
               "modified_log_likelihood / pearsonr on seeded data frames and compare statistic, dof, p-value and verdict with an own "
               "implementation (tables counted from the raw rows, expected frequencies, Yates correction for 2x2, Cressie-Read family, "
               "pooling over strata; exact-Fraction least squares WITH intercept for the partial correlation). Only the chi-square and "
               "Student-t survival functions are taken from scipy.stats.")
ASSUMPTIONS = ["scipy.stats.chi2.sf / t.sf are correct (used for the p-value only)",
               "scipy conventions are part of the documented test: Yates' continuity correction for tables with one degree of freedom; a "
               "stratum in which X or Y takes a single value contributes statistic 0 and dof 0",
               "lambda < 0 with an empty cell: statistic infinite (lambda <= -1) or undefined in scipy (-1 < lambda < 0); excluded from the "
               "numeric comparison",
               "floats compared with 1e-9 relative (statistic) / 1e-7 relative + 1e-10 absolute (p-value)"]
TRUSTED = ["vf/bounded/c19.py table_stat/oracle_test/residuals/pearson_exact as the definition of the documented tests"]


def groups(tier):
    return B.groups(tier)
