"""C20 - linear-Gaussian models agree with multivariate-normal algebra (DESIGN.md section 6, C20)."""
from vf.bounded import c20 as B

LEVEL = "exploration"
EXPLANATION = ("Bounded groups (E3) run the real LinearGaussianBayesianNetwork.to_joint_gaussian / predict / fit / simulate and "
               "GaussianDistribution / CanonicalDistribution marginalize / reduce / conversion / product on enumerated DAGs with small "
               "rational parameters and compare with exact Fraction linear algebra written without pgmpy or numpy (joint covariance by "
               "two independent derivations, Schur-complement conditioning, normal-equation least squares, canonical-form identities).")
ASSUMPTIONS = ["to_joint_gaussian rounds to 8 decimals: entries are compared with absolute tolerance 2e-8, conditional moments with 1e-7",
               "the order of the arrays returned by to_joint_gaussian is networkx.topological_sort(model), the order used by predict and simulate",
               "fit: the residual-variance convention of the code, RSS/(n-1) for root and non-root nodes, is accepted as 'residual variance' "
               "(it is the sample variance of the zero-mean residuals; not the ML estimate RSS/n that method='mle' suggests, and not the "
               "unbiased RSS/(n-k-1))",
               "simulate is checked statistically only through per-column mean (8 standard errors) and variance (25%)"]
TRUSTED = ["vf/bounded/c20.py exact Fraction linear algebra (inverse, determinant, Schur complement)"]


def groups(tier):
    return B.groups(tier)
