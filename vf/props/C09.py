"""C09 - writing a model to BIF / XMLBIF / UAI / NET and reading it back returns the same model (DESIGN.md §6 C09)."""
from vf.bounded import c09 as B

LEVEL = "exploration"
EXPLANATION = ("Bounded groups (E3) run the real writer -> reader round trip (string=, path=, BayesianNetwork.save/load on files in a "
               "temporary directory that is removed) and compare the model read back with the plain-JSON spec the model was built from: "
               "variables, edges, state names as strings (positional var_i / 0..k-1 for UAI), every named assignment of every CPD or factor "
               "(1e-12 for BIF/XMLBIF/UAI, 5e-5 for NET), writer leaves the model untouched. Attribution helpers: hand-written files -> reader, "
               "writer text -> mini parsers written from the format definitions. Input classes of confirmed defects sit in their own small groups "
               "with dedicated keys (see each group's bound).")
ASSUMPTIONS = ["names are identifiers [A-Za-z_][A-Za-z0-9_]*; cardinalities are single digits except in the large-table group",
               "UAI positional names: variable i is the i-th variable in (cardinality, name) order (the writer's documented indexing)",
               "Markov networks: every edge is covered by a factor scope (UAI cannot express an edge without a factor)"]
TRUSTED = ["vf.bounded.c09 spec builder and comparison code (plain Python)", "xml.etree / re for the independent mini parsers"]


def groups(tier):
    return B.groups(tier)
