"""C12 - constraint-based discovery is exact given exact independence information (DESIGN.md §6 C12)."""
from vf.bounded import c12 as B

LEVEL = "exploration"
EXPLANATION = ("Bounded groups (E3): the real PC estimator (all variants, both oracle hooks, all return types), PC.skeleton_to_pdag and "
               "PDAG.to_dag run on exhaustively enumerated ground-truth DAGs / PDAGs; expected skeleton, separating sets, CPDAG and "
               "equivalence class come from a trail-enumerating d-separation oracle and brute-force enumeration of orientations.")
ASSUMPTIONS = ["PC(independencies=...) without data can only learn about variables mentioned in some assertion; ground truths whose list "
               "does not mention every node are exercised with data (column names) + independencies instead"]
TRUSTED = ["vf.bounded.oracles path-based d-separation (validated against E1-proved active_trail_nodes in C08)"]


def groups(tier):
    return B.groups(tier)
