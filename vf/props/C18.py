"""C18 - independence reasoning is sound: I-equivalence, semi-graphoid closure, numeric independence, I-maps (DESIGN.md section 6, C18)."""
from vf.bounded import c18 as B

LEVEL = "exploration"
EXPLANATION = ("Bounded groups (E3) run the real DAG.is_iequivalent/get_immoralities, Independencies.closure/entails/is_equivalent, "
               "IndependenceAssertion.__eq__/__hash__, JointProbabilityDistribution.check_independence/get_independencies/"
               "marginal_distribution/conditional_distribution/minimal_imap/is_imap and BayesianNetwork.is_imap against oracles written "
               "without pgmpy: skeleton + v-structures (self-checked against equality of all d-separation statements), an own "
               "semi-graphoid saturation, and exact Fraction arithmetic on explicit joint tables.")
ASSUMPTIONS = ["variable names are strings (check_independence requires str for random-variable conditioning; get_immoralities sorts names)",
               "numeric independence verdicts are demanded only when the largest exact violation is 0 or > 1e-3 relative (pgmpy compares "
               "float factors with allclose rtol 1e-5 / atol 1e-8)",
               "conditioning on zero-probability value assignments is excluded",
               "events of an assertion are pairwise disjoint"]
TRUSTED = ["vf/bounded/oracles.py (trail-based d-connection, skeleton, v-structures, CPD-product joint)",
           "vf/bounded/c18.py saturate() as the definition of semi-graphoid derivability"]


def groups(tier):
    return B.groups(tier)
