"""Which functions are under contract (E1) for which property.  Used by the driver; the bounded
groups live in vf/bounded/cNN.py and are wired by vf/props/CNN.py."""

E1 = {
    "C01": (["contracts.c01"], ["BaseEliminationOrder.get_elimination_order", "VariableElimination._get_elimination_order",
                                 "Inference._prune_bayesian_model"]),
    "C02": (["contracts.c01"], ["Inference._prune_bayesian_model"]),
    "C03": (["contracts.c01"], ["Inference._prune_bayesian_model"]),
    "C05": (["contracts.c05"], ["BayesianNetwork.check_model"]),
    "C08": (["contracts.c08"], ["DAG._get_ancestors_of", "DAG.active_trail_nodes", "DAG.is_dconnected", "DAG.get_markov_blanket",
                                 "BayesianNetwork.get_markov_blanket", "DAG.moralize", "DAG.get_ancestral_graph", "DAG.local_independencies", "DAG.minimal_dseparator",
                                 "DAG.get_independencies"]),
    "C09": (["contracts.c09"], ["XMLBIFReader.get_edges", "BIFReader.get_edges", "NETReader.get_edges"]),
    "C10": (["contracts.c10"], ["StructureScore.score"]),
    "C11": (["contracts.c11"], ["HillClimbSearch._legal_operations", "HillClimbSearch.estimate"]),
    "C12": (["contracts.c12"], ["PDAG.to_dag"]),
    "C13": (["contracts.c13"], ["DAG.do", "CausalInference.is_valid_backdoor_adjustment_set", "CausalInference.get_all_backdoor_adjustment_sets",
                                 "CausalInference.is_valid_frontdoor_adjustment_set", "CausalInference.get_all_frontdoor_adjustment_sets"]),
    "C14": (["contracts.c14"], ["BayesianNetwork.to_markov_model", "UndirectedGraph.is_clique", "FactorGraph.to_markov_model"]),
    "C15": (["contracts.c15"], ["BayesianNetwork.add_edge", "BayesianNetwork.remove_node", "BayesianNetwork.copy", "MarkovNetwork.add_edge",
                                 "DynamicBayesianNetwork.add_edge", "DAG.add_edges_from", "BayesianNetwork.get_cpds", "BayesianNetwork.add_cpds", "BayesianNetwork.remove_cpds", "MarkovNetwork.add_factors", "BayesianNetwork.remove_nodes_from", "ClusterGraph.add_edge", "JunctionTree.add_edge", "FactorGraph.add_edge",
                                 # wrapper lemmas: the networkx shortcut the library model takes for these methods is their exact effect
                                 "DAG.add_node", "DAG.add_nodes_from", "DAG.add_edge", "UndirectedGraph.add_node", "UndirectedGraph.add_nodes_from",
                                 "UndirectedGraph.add_edge", "UndirectedGraph.add_edges_from"]),
    "C17": (["contracts.c17"], ["DynamicBayesianNetwork.get_inter_edges", "DynamicBayesianNetwork.get_intra_edges",
                                 "DynamicBayesianNetwork.get_slice_nodes", "DynamicBayesianNetwork.get_interface_nodes"]),
    "C18": (["contracts.c18"], ["Independencies.closure.<locals>.sg1", "Independencies.closure.<locals>.sg2",
                                 "Independencies.closure.<locals>.sg3", "IndependenceAssertion.__eq__",
                                 "IndependenceAssertion.__hash__", "DAG.get_immoralities",
                                 "DAG.is_iequivalent.<locals>.v_structures", "DAG.is_iequivalent",
                                 "Independencies.contains", "Independencies.entails", "Independencies.is_equivalent"]),
}

E1_TRUSTED = ["z3 as the deciding solver", "vf/pyvc symbolic semantics of the Python subset (DESIGN §1, §5)",
              "library contracts in vf/pyvc/lib.py (networkx graph operations, itertools, sorted, hash, len)"]
E1_ASSUMPTIONS = ["partial correctness only (termination not proved)",
                  "hashable names are abstract atoms; set/dict iteration order is arbitrary; lists are abstracted to their membership",
                  "networkx representation invariant E(u,v) => u,v are nodes (assumed for graph parameters)"]

# frame obligations (vf/pyvc/frames.py) per property: predicate on the task name
FRAMES = {
    "C04": lambda name: not name.startswith("TabularCPD."),
    "C05": lambda name: name.startswith("TabularCPD."),
    "C16": lambda name: True,
}
