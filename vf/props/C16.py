"""C16 - queries are pure, repeatable and representation-independent (DESIGN.md §6 C16)."""
from vf.bounded import c16 as B

LEVEL = "exploration"
EXPLANATION = ("Bounded (E3): (a) deep order-sensitive snapshots of model / CPDs / data / arguments around every public inference, sampling, "
               "scoring, estimation, structure-search, writer, conversion and inplace=False factor call; (b) engine with a question history vs a "
               "fresh engine for every sequence over a question pool incl. virtual evidence; (c) metamorphic relabelling (variables, states, state "
               "order, insertion order) against the exact Fraction oracle under several PYTHONHASHSEEDs, numpy vs torch backend.")
ASSUMPTIONS = ["calls that raise are not required to leave their arguments unchanged (the statement does not quantify over failing calls); a raise is reported on its own",
               "torch backend compared within 1e-5 (floating point), numpy within 1e-8 of the exact oracle"]
TRUSTED = ["vf/bounded/oracles.py brute-force joint (Fractions)", "vf/bounded/c16.py snapshot code"]


def groups(tier):
    return B.groups(tier)
