"""C13 - interventions follow the truncated factorisation (DESIGN.md section 6, C13)."""
from vf.bounded import c13 as B

LEVEL = "exploration"
EXPLANATION = ("Bounded groups (E3) run the real DAG.do / BayesianNetwork.do, CausalInference.query, the back-door / front-door / adjustment "
               "validity tests and enumerators, and simulate(do=) on enumerated models. Oracles: truncated factorisation by brute force with "
               "Fractions; criteria evaluated literally on the list of simple trails.")
ASSUMPTIONS = ["node names are strings (CausalInference rejects other names)",
               "strictly positive CPDs for query checks (the adjustment formula conditions on every (x, z) combination)",
               "floating point answers are compared with absolute tolerance 1e-8 to exact rationals"]
TRUSTED = ["vf/bounded/oracles.py simple_trails/trail_active/cpd_value", "vf/bounded/c13.py trunc_posterior and path criteria"]


def groups(tier):
    return B.groups(tier)
