"""C04 - factor algebra is pointwise, order-independent and side-effect free (DESIGN.md §6 C04)."""
from vf.bounded import c04 as B

LEVEL = "exploration"
EXPLANATION = ("Bounded groups (E3) run the real DiscreteFactor / factors.base code on tables of dyadic rationals (exact in float "
               "arithmetic) and compare every result with a named-assignment oracle (frozenset of (variable, state) -> Fraction) "
               "computed from the textbook definition: scope as a set, cardinalities, state names and both name<->number maps of every "
               "variable, values for every named assignment; operand snapshots before/after every out-of-place call and after "
               "mutating the result; in-place calls change self only; __eq__ across axis and state-list orders.")
ASSUMPTIONS = ["numpy backend, default float dtype", "variable names are strings; inner state lists are never mutated by callers "
               "(copies share them by design)", "operands that share a variable agree on its state list (as in the statement)"]
TRUSTED = ["numpy float arithmetic is exact on dyadic rationals with small numerators"]


def groups(tier):
    return B.groups(tier)
