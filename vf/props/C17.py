"""C17 - dynamic-network inference equals inference on the unrolled network (DESIGN.md §6 C17)."""
from vf.bounded import c17 as B

LEVEL = "exploration"
EXPLANATION = ("Bounded groups (E3): DBNInference.query / backward_inference (smoothing) and forward_inference (filtering) on enumerated "
               "two-slice templates are compared with exact-rational posteriors of the network unrolled by an independent unroller "
               "(own Fraction variable elimination, cross-checked by full enumeration on small instances); "
               "initialize_initial_state and get_constant_bn are compared with the template CPD by CPD, by named assignment.")
ASSUMPTIONS = ["forward_inference is read as filtering: the marginal of (X,t) given the evidence of slices 0..t",
               "float comparison with absolute tolerance 1e-8 on probabilities against exact Fractions"]
TRUSTED = []


def groups(tier):
    return B.groups(tier)
