"""C07 - samplers draw from the law they claim, reproducibly (DESIGN.md §6 C07)."""
from vf.bounded import c07 as B

LEVEL = "exploration"
EXPLANATION = ("Bounded (E3), deterministic. The RNG sinks of pgmpy/sampling/Sampling.py (sample_discrete, sample_discrete_maps; inside "
               "mathext: np.random.choice) are replaced in the checker process by recording stubs that enumerate the states of positive "
               "weight; the verdict is the call-site precondition 'the weights handed over for row k are the conditional the sampler claims' "
               "(forward / likelihood-weighted / rejection / simulate / Gibbs chain), compared by state name with exact Fraction oracles "
               "computed from the plain model spec. pre_compute_reduce_maps/_reduce_marg and the Gibbs kernels are compared entry by entry "
               "with the brute-force conditional. With the real RNG only deterministic facts are checked (seed reproducibility, declared "
               "state names, impossible rows, row counts, latent columns, simulate structure). No statistical test produces a verdict.")
ASSUMPTIONS = ["RNG sink contract: sample_discrete / sample_discrete_maps / np.random.choice draw row k from the weight vector handed over for row k "
               "and never return a state of weight 0 (numpy's documented behaviour; mathext's own row bookkeeping is checked in group mathext)",
               "numpy backend (config.BACKEND == 'numpy'); torch backend not exercised"]
TRUSTED = ["numpy.random.choice / numpy.random.seed", "pandas DataFrame column assignment"]


def groups(tier):
    return B.groups(tier)
