"""C11 - score-based structure search honours its contract (DESIGN.md §6 C11)."""
from vf.bounded import c11 as B

LEVEL = "exploration"
EXPLANATION = ("Bounded groups (E3): the real HillClimbSearch / ExhaustiveSearch / TreeSearch estimators on seeded discrete data sets; constraints, "
               "acyclicity, score monotonicity and local optimality are re-checked with an independent move generator, global optimality against "
               "an own enumeration of all DAGs, Chow-Liu/TAN against brute force over all spanning trees. Scores are the scorer's local_score "
               "treated as an uninterpreted decomposable function (its value is C10's subject).")
ASSUMPTIONS = ["epsilon >= 0; start graph and fixed edges satisfy the black list (a start graph containing a black-listed edge is outside the contract)",
               "tree search: pairwise weights strictly positive (quantifier of the property); other data sets are skipped per weight function"]
TRUSTED = ["sklearn adjusted/normalized mutual information as the weight definition (plain mutual information is recomputed independently)"]


def groups(tier):
    return B.groups(tier)
