"""C01 - exact VE posterior = conditional of the CPD-product joint (DESIGN.md section 6, C01)."""
from vf.bounded import c01 as B

LEVEL = "exploration"
EXPLANATION = ("Bounded groups (E3) run the real VariableElimination.query, BayesianNetwork.predict_probability and get_state_probability on "
               "enumerated / seeded models and compare every named entry of the answer with the brute-force conditional of the product of "
               "CPD entries (exact Fractions, written without pgmpy); each case is repeated under several process hash seeds.")
ASSUMPTIONS = ["node names are strings (virtual evidence and predict_probability concatenate them with str)",
               "floating point answers are compared with absolute tolerance 1e-9 to exact rationals"]
TRUSTED = ["vf/bounded/oracles.py joint_prob/marginal (brute force by named assignment)"]


def groups(tier):
    return B.groups(tier)
