"""C14 - model conversions preserve the distribution and produce valid targets (DESIGN.md section 6, C14)."""
from vf.bounded import c14 as B

LEVEL = "exploration"
EXPLANATION = ("Bounded groups (E3) run the real conversions (BayesianNetwork.to_markov_model / to_junction_tree, MarkovNetwork.to_factor_graph / "
               "triangulate / to_junction_tree / get_partition_function, FactorGraph.to_markov_model / to_junction_tree) on enumerated models and "
               "compare the product of all target factors with the product of all source factors at every named assignment (exact integer / "
               "Fraction tables), plus structural oracles written without pgmpy/networkx algorithms: moral graph, chordality by perfect "
               "elimination ordering, maximal cliques by enumeration, tree / cover / running-intersection by BFS.")
ASSUMPTIONS = ["node names are strings; state names are ints / strings", "floating point products compared with relative tolerance 1e-9 to exact values"]
TRUSTED = ["vf/bounded/c14.py source_table / is_chordal / maximal_cliques / check_junction_tree"]


def groups(tier):
    return B.groups(tier)
