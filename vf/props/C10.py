"""C10 - structure scores equal their published definitions (DESIGN.md §6 C10)."""
from vf.bounded import c10 as B

LEVEL = "exploration"
EXPLANATION = ("Bounded groups (E3) run the real K2/BDeu/BDs/BIC/AIC scorers, ScoreCache and the structure_score wrapper on enumerated tiny "
               "frames and seeded sparse frames and compare with closed forms evaluated by an independent oracle (naive row counting into the "
               "full r x q table, math.lgamma/log); Markov equivalence is decided by the oracle (skeleton + v-structures).")
ASSUMPTIONS = ["complete data (no NaN cells); string columns are given as object or categorical dtype",
               "float comparison with relative tolerance 1e-9"]
TRUSTED = ["math.lgamma / math.log", "pandas DataFrame construction"]


def groups(tier):
    return B.groups(tier)
