"""C15 - models stay structurally consistent under any edit history (DESIGN.md §6 C15)."""
from vf.bounded import c15 as B

LEVEL = "exploration"
EXPLANATION = ("Bounded model-based exploration (E3): every short operation history (and seeded long ones) is executed on the real "
               "BayesianNetwork / DAG / DynamicBayesianNetwork / MarkovNetwork / JunctionTree classes; after every step the object is "
               "compared with plain-python expectations (acyclicity, CPD scopes, frame condition for rejected operations, CPD validity "
               "after remove_node/do, separation of copies by deep named-assignment snapshots).")
ASSUMPTIONS = ["multi-element calls (add_edges_from, add_nodes_from, remove_nodes_from, add_cpds with several CPDs) are read as a sequence of "
               "single operations: a failing element leaves the earlier ones applied",
               "any exception counts as a rejection of the operation"]
TRUSTED = ["vf/bounded/c15.py snapshot/oracle code (plain python)"]


def groups(tier):
    return B.groups(tier)
