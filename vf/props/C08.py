"""C08 - d-separation answers match the path-based definition (DESIGN.md §6 C08)."""
from vf.bounded import c08 as B

LEVEL = "proof"
E1_FUNCTIONS = ["DAG._get_ancestors_of", "DAG.active_trail_nodes"]
TRUSTED = ["z3 4/5 as the deciding solver", "vf/pyvc symbolic semantics of the Python subset (DESIGN §1, §5)",
           "lemma L4: local Reach relation == path-based definition (validated by the bounded group active_trails)"]
ASSUMPTIONS = ["partial correctness only (termination of the worklist loops is not proved)",
               "hashable names are abstract atoms; set/dict iteration order is arbitrary",
               "networkx graph representation invariant E(u,v) => u,v are nodes (assumed for parameters)"]
EXPLANATION = ("E1: verification conditions generated from the real source of the listed functions against sidecar contracts "
               "(contracts/c08.py), discharged by z3 for graphs of any size. Bounded groups (E3) run the real API against a "
               "trail-enumerating oracle; they are the replay path and the stand-in for functions not under contract.")


def groups(tier):
    return B.groups(tier)
