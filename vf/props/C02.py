"""C02 - junction-tree belief propagation is exact and calibrated (DESIGN.md §6 C02)."""
from vf.bounded import c02 as B

LEVEL = "exploration"
EXPLANATION = ("Bounded groups (E3): the real BeliefPropagation API (calibrate, max_calibrate, query) on enumerated Bayesian networks, "
               "Markov networks, factor graphs and junction trees is compared by named assignment with exact-rational brute-force "
               "(max-)marginals and posteriors of the product of all factors; every case runs under several PYTHONHASHSEEDs because "
               "clique order, spanning tree and factor-to-clique assignment depend on set iteration order.")
ASSUMPTIONS = ["float comparison with relative tolerance 1e-8 against exact Fractions",
               "calibration after the two passes (textbook theorem) is only tested on the bounded model families, not proved"]
TRUSTED = []


def groups(tier):
    return B.groups(tier)
