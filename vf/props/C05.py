"""C05 - CPD tables keep their column meaning; validated models are normalised (DESIGN.md §6 C05)."""
from vf.bounded import c05 as B

LEVEL = "exploration"
EXPLANATION = ("Bounded groups (E3) run the real TabularCPD / DiscreteFactor.is_valid_cpd / BayesianNetwork.check_model code. Oracle: "
               "P(child | parents) as a map from named assignments to Fractions built from the 2-D table with the row-major column "
               "index of the declared evidence list; every transformation is compared by name together with the state names and "
               "name<->number maps of every variable. Reading fixed for marginalize/reduce: sum-out / slice, then renormalise each "
               "column. Validation: accept/reject boundary of the column-sum test (|sum-1| <= 0.01 + 1e-5) and single-fault models.")
ASSUMPTIONS = ["numpy backend, default float dtype", "no CPD column sums to zero (normalisation would divide by zero)",
               "new_order is passed to reorder_parents as a list (as documented)"]
TRUSTED = ["numpy float arithmetic is exact on dyadic rationals with small numerators"]


def groups(tier):
    return B.groups(tier)
