"""C01 bounded groups (E3): real VariableElimination.query / predict_probability / get_state_probability
against the brute-force conditional of the CPD-product joint (exact Fractions, no pgmpy on the oracle side).

A case is one fully specified model (+ a plan seed); the check sweeps (query, evidence) pairs, evidence
assignments, elimination-order options, joint modes and virtual-evidence lists on it.  Everything the check
samples is drawn from `O.mk_rng(case["qseed"])`, so a case replays exactly from its JSON.
"""
from __future__ import annotations

import itertools
from fractions import Fraction

from vf.core import Group
from vf.bounded import oracles as O

HEURISTICS = ("MinFill", "MinNeighbors", "MinWeight", "WeightedMinFill")
STYLES = ("int", "str", "mixed", "perm")
TOL = 1e-9


# ----------------------------------------------------------------------------- oracle (independent of pgmpy)
class Joint:
    """full joint table of a BN spec, built entry by entry with O.joint_prob (product of CPD entries by name)."""

    def __init__(self, spec):
        self.spec = spec
        self.nodes = list(spec["nodes"])
        self.states = spec["states"]
        self.rows = []
        for a in O.all_assignments(spec, self.nodes):
            p = O.joint_prob(spec, a)
            if p:
                self.rows.append((a, p))

    def marginal(self, query, evidence=None, weights=None):
        """unnormalised sum_{rest} P(query, rest, evidence) * prod_v weights[v][state of v]."""
        evidence = evidence or {}
        out = {tuple(c): Fraction(0) for c in itertools.product(*[self.states[v] for v in query])}
        for a, p in self.rows:
            if any(a[v] != s for v, s in evidence.items()):
                continue
            if weights:
                for v, w in weights.items():
                    p = p * w[self.states[v].index(a[v])]
            out[tuple(a[v] for v in query)] += p
        return out

    def posterior(self, query, evidence=None, weights=None):
        m = self.marginal(query, evidence, weights)
        z = sum(m.values())
        if z == 0:
            return None
        return {k: x / z for k, x in m.items()}


def _same_name(a, b):
    """state names are equal *and* of the same kind (0 == False == 0.0 must not pass as the same label)."""
    if isinstance(a, str) or isinstance(b, str):
        return isinstance(a, str) and isinstance(b, str) and a == b
    return not isinstance(a, bool) and not isinstance(b, bool) and a == b


def _names_equal(got, want):
    return len(got) == len(want) and all(_same_name(g, w) for g, w in zip(got, want))


# ----------------------------------------------------------------------------- case generation
def _column(rng, card, mode):
    if mode == "det" and rng.random() < 0.6:
        k = rng.randrange(card)
        return [Fraction(int(i == k)) for i in range(card)]
    return O.random_column(rng, card, zeros=(mode != "pos"))


def make_spec(rng, nodes, edges, cards, style, mode):
    """BN spec with shuffled parent order, `mode` in pos|zeros|det (exact zeros / deterministic columns)."""
    nodes = list(nodes)
    styles = {v: (style if style != "rot" else STYLES[(i + len(edges)) % len(STYLES)]) for i, v in enumerate(nodes)}
    states = {v: O.state_names(v, cards[v], styles[v]) for v in nodes}
    cpd = {}
    for v in nodes:
        ps = O.parents_of(edges, v)
        rng.shuffle(ps)
        ncol = 1
        for p in ps:
            ncol *= cards[p]
        cols = [_column(rng, cards[v], mode) for _ in range(ncol)]
        cpd[v] = {"parents": ps, "table": [[cols[j][i] for j in range(ncol)] for i in range(cards[v])]}
    order = nodes[:]
    rng.shuffle(order)  # node insertion order of the model differs from the naming order
    return {"nodes": order, "edges": [list(e) for e in edges], "states": states, "cpd": cpd}


def _rand_cards(rng, nodes):
    while True:
        c = {v: rng.choice((1, 2, 2, 3, 3)) for v in nodes}
        if len(nodes) == 1 or len(set(c.values())) > 1 or rng.random() < 0.2:
            return c


def _case(rng, nodes, edges, cards, style, mode, level):
    spec = make_spec(rng, nodes, edges, cards, style, mode)
    qseed = rng.randrange(10 ** 9)
    # every third model declares one (interior, if any) node latent: latent flags must not change any posterior
    latents = []
    if qseed % 3 == 0 and len(nodes) >= 2:
        inner = [v for v in nodes if any(e[0] == v for e in edges)] or list(nodes)
        latents = [inner[qseed % len(inner)]]
    return {"spec": O.spec_to_json(spec), "qseed": qseed, "level": level, "style": style, "mode": mode, "latents": latents}


def gen_models(tier, seed, salt="c01", n_random=None, full_sizes=None):
    """all DAGs on <= 3 (thorough: 4) nodes x cardinality / state-name / zero-pattern variants + seeded random DAGs."""
    quick = tier == "quick"
    rng = O.mk_rng(seed, salt)
    modes = ("pos", "zeros", "det")
    k = seed
    for n in (full_sizes or ((1, 2, 3) if quick else (1, 2, 3, 4))):
        names = O.node_names(n, "long" if n % 2 else "x")
        for edges in O.all_dags(n, names):
            if n <= 3 and not quick:
                cardvecs = [dict(zip(names, c)) for c in itertools.product((1, 2, 3), repeat=n)]
            elif n <= 3:
                cardvecs = [_rand_cards(rng, names) for _ in range(3)]
            else:
                cardvecs = [_rand_cards(rng, names)]
            for cards in cardvecs:
                k += 1
                style = (STYLES + ("rot",))[k % 5]
                yield _case(rng, names, edges, cards, style, modes[(k // 5 + k) % 3], "full" if n <= 3 else "sampled")
    # integer node labels 0..n-1 on every DAG with 3 nodes (label 0 is falsy: `if not node` style tests must not be used on labels)
    for edges in O.all_dags(3, O.node_names(3, "int")):
        k += 1
        if quick and k % 3:
            continue
        yield _case(rng, O.node_names(3, "int"), edges, _rand_cards(rng, O.node_names(3, "int")), "str", "pos", "full")
    # "twin sensor" models: two (or three) children of one cause with IDENTICAL CPDs - observing them in the same state
    # yields identical reduced factors, which set-based bookkeeping must still count once each
    for t in range(4 if quick else 24):
        k_twins = 2 + (t % 2)
        names = ["cause"] + [f"sensor{i}" for i in range(k_twins)] + (["other"] if t % 3 == 0 else [])
        edges = [["cause", f"sensor{i}"] for i in range(k_twins)] + ([["cause", "other"]] if t % 3 == 0 else [])
        cards = {v: (2 if (t // 2) % 2 == 0 else 3) for v in names}
        case = _case(rng, names, edges, cards, ("int", "str")[t % 2], "pos", "full")
        spec = case["spec"]
        for i in range(1, k_twins):
            spec["cpd"][f"sensor{i}"] = {"parents": ["cause"], "table": [list(r) for r in spec["cpd"]["sensor0"]["table"]]}
            spec["states"][f"sensor{i}"] = [str(x).replace("sensor0", f"sensor{i}") if isinstance(x, str) else x for x in spec["states"]["sensor0"]]
        spec["cpd"]["sensor0"]["parents"] = ["cause"]
        case["latents"] = []
        yield case
    # "twin relay" models: cause -> relay_i -> sensor_i with identical CPDs per branch: with both sensors observed in the same state the
    # two elimination messages over {cause} are content-equal, whatever order eliminates the relays
    for t in range(2 if quick else 12):
        names = ["cause", "relay0", "relay1", "sensor0", "sensor1"] + (["other"] if t % 2 else [])
        edges = [["cause", "relay0"], ["cause", "relay1"], ["relay0", "sensor0"], ["relay1", "sensor1"]] + ([["cause", "other"]] if t % 2 else [])
        cards = {v: (2 if (t // 2) % 2 == 0 else 3) for v in names}
        case = _case(rng, names, edges, cards, "int", "pos", "full")
        spec = case["spec"]
        for a, b, par in (("relay0", "relay1", "cause"), ("sensor0", "sensor1", "relay1")):
            spec["cpd"][b] = {"parents": [par], "table": [list(r) for r in spec["cpd"][a]["table"]]}
            spec["states"][b] = list(spec["states"][a])
        case["latents"] = []
        yield case
    nr = n_random if n_random is not None else (24 if quick else 240)
    for i in range(nr):
        n = (4, 5, 5, 6)[i % 4] if quick else (5, 5, 6, 6)[i % 4]
        names = O.node_names(n, ("long", "x", "int", "x")[i % 4])   # "int": labels 0..n-1 (0 is a falsy label)
        edges = O.random_dag(rng, n, rng.choice((0.3, 0.5, 0.7)), names)
        yield _case(rng, names, edges, _rand_cards(rng, names), (STYLES + ("rot",))[i % 5], modes[i % 3], "sampled")


def nontrivial(case):
    return len(case["spec"]["edges"]) >= 1


# ----------------------------------------------------------------------------- query plans
def qe_pairs(nodes, level, rng, max_pairs=60):
    """disjoint (query, evidence-variable) pairs with non-empty query; complete for `full` cases."""
    nodes = list(nodes)
    out = []
    big = len(nodes) >= 5
    for r in range(1, len(nodes) + 1):
        if big and r > 2:
            break
        for qi, Q in enumerate(itertools.combinations(nodes, r)):
            Q = list(Q)
            if (qi + r) % 2:
                Q.reverse()
            rest = [v for v in nodes if v not in Q]
            for s in range(0, len(rest) + 1):
                if big and s > 2:
                    break
                for E in itertools.combinations(rest, s):
                    out.append((Q, list(E)))
    if level != "full" and len(out) > max_pairs:
        out = rng.sample(out, max_pairs)
    return out


def evidence_assignments(J, E, level, rng, cap=2):
    """all assignments of E with P(e) > 0 (full) or up to `cap` sampled ones."""
    if not E:
        return [{}]
    m = J.marginal(E)
    pos = [dict(zip(E, k)) for k, p in m.items() if p > 0]
    if level != "full" and len(pos) > cap:
        pos = rng.sample(pos, cap)
    return pos


def order_options(nodes, Q, E, level, rng):
    """[(label, elimination_order, joint)]"""
    rest = [v for v in nodes if v not in Q and v not in E]
    perms = list(itertools.permutations(rest)) if len(rest) <= 3 else [tuple(rng.sample(rest, len(rest))) for _ in range(2)]
    if level != "full" and len(perms) > 2:
        perms = rng.sample(perms, 2)
    opts = [("greedy", "greedy"), ("none", None)] + [("heuristic", h) for h in HEURISTICS] + [("explicit", list(p)) for p in perms]
    out = []
    for i, (lab, o) in enumerate(opts):
        if level == "full" or lab == "greedy":
            out += [(lab, o, True), (lab, o, False)]
        else:
            out.append((lab, o, bool((i + len(Q)) % 2)))
    return out


def virtual_lists(spec, rng, level):
    """virtual-evidence lists on <= 2 variables: [[(var, [w_state...]), ...], ...] with weights in [0, 1]."""
    nodes = list(spec["nodes"])

    def w(v):
        card = len(spec["states"][v])
        while True:
            ws = [Fraction(rng.randint(0, 6), 6) for _ in range(card)]
            if any(ws):
                return ws

    singles = [[(v, w(v))] for v in nodes]
    pairs = [[(a, w(a)), (b, w(b))] for a, b in itertools.combinations(nodes, 2)]
    if level != "full":
        singles = rng.sample(singles, min(2, len(singles)))
        pairs = rng.sample(pairs, min(1, len(pairs)))
    elif len(pairs) > 2:
        pairs = rng.sample(pairs, 2)
    rng.shuffle(pairs)
    return singles + [list(reversed(p)) if i % 2 else p for i, p in enumerate(pairs)]


def make_virtual(spec, vlist):
    from pgmpy.factors.discrete import TabularCPD

    return [TabularCPD(v, len(ws), [[float(x)] for x in ws], state_names={v: list(spec["states"][v])}) for v, ws in vlist]


# ----------------------------------------------------------------------------- result checks
def check_factor(phi, Q, spec, post, ctx):
    """`phi` must be a factor over exactly Q carrying the model's state names with phi(a) = post[a] for every named a."""
    from pgmpy.factors.discrete import DiscreteFactor

    if not isinstance(phi, DiscreteFactor):
        return {"key": f"query:type:{ctx[0]}", "what": f"{ctx[1]}: returned {type(phi).__name__}"}
    if sorted(phi.variables) != sorted(Q):
        return {"key": f"query:scope:{ctx[0]}", "what": f"{ctx[1]}: result scope {phi.variables}, requested {Q}"}
    for v in phi.variables:
        if not _names_equal(list(phi.state_names[v]), list(spec["states"][v])):
            return {"key": f"query:state_names:{ctx[0]}", "what": f"{ctx[1]}: state names of {v} are {phi.state_names[v]}, model has {spec['states'][v]}"}
    if tuple(int(c) for c in phi.cardinality) != tuple(len(spec["states"][v]) for v in phi.variables) or \
            tuple(phi.values.shape) != tuple(len(spec["states"][v]) for v in phi.variables):
        return {"key": f"query:shape:{ctx[0]}", "what": f"{ctx[1]}: cardinality {phi.cardinality} / shape {phi.values.shape}"}
    for key, p in post.items():
        a = dict(zip(Q, key))
        got = O.factor_value(phi, a)
        if not abs(got - float(p)) <= TOL:
            return {"key": f"query:value:{ctx[0]}", "what": f"{ctx[1]}: P({a}) = {got!r}, brute force gives {p} = {float(p)!r}"}
    return None


def run_query(model, spec, J, Q, ev, order, joint, lab, vlist=None, engine=None):
    from pgmpy.inference import VariableElimination

    weights = {}
    for v, ws in (vlist or []):
        weights[v] = [a * b for a, b in zip(weights.get(v, [1] * len(ws)), ws)]
    post = J.posterior(Q, ev, weights or None)
    if post is None:
        return "skip"
    ctx_key = lab + (":virtual" if vlist else "")
    desc = f"query({Q}, evidence={ev}, virtual={[(v, [str(x) for x in ws]) for v, ws in (vlist or [])]}, elimination_order={order!r}, joint={joint})"
    eng = engine if engine is not None else VariableElimination(model)  # fresh engine per query unless the caller shares one
    res = eng.query(list(Q), evidence=dict(ev) or None, virtual_evidence=make_virtual(spec, vlist) if vlist else None,
                    elimination_order=order, joint=joint, show_progress=False)
    if joint:
        return check_factor(res, Q, spec, post, (ctx_key + ":joint", desc))
    if not isinstance(res, dict) or sorted(res) != sorted(Q):
        return {"key": f"query:keys:{ctx_key}:perVariable", "what": f"{desc}: result keys {list(res) if isinstance(res, dict) else type(res)}"}
    for v in Q:
        i = Q.index(v)
        pv = {}
        for key, p in post.items():
            pv[(key[i],)] = pv.get((key[i],), 0) + p
        f = check_factor(res[v], [v], spec, pv, (ctx_key + ":perVariable", desc + f"[{v}]"))
        if f:
            return f
    return None


def check_query(case):
    spec = O.spec_from_json(case["spec"])
    rng = O.mk_rng(case["qseed"], "plan")
    level = case["level"]
    J = Joint(spec)
    nodes = list(spec["nodes"])
    model = O.make_bn(spec, latents=case.get("latents", []))
    pairs = qe_pairs(nodes, level, rng)
    # oracle self-check: the fast table agrees with the shared reference oracle
    Q0, E0 = pairs[len(pairs) // 2]
    e0 = evidence_assignments(J, E0, "sampled", O.mk_rng(case["qseed"], "self"), 1)
    if e0:
        assert J.marginal(Q0, e0[0]) == O.marginal(spec, Q0, e0[0]), "fast oracle disagrees with O.marginal"
    for Q, E in pairs:
        for ev in evidence_assignments(J, E, level, rng):
            for lab, order, joint in order_options(nodes, Q, E, level, rng):
                f = run_query(model, spec, J, Q, ev, order, joint, lab)
                if f and f != "skip":
                    return f
        # the guard of explicit orders: a query / evidence variable inside the order is rejected
        if level == "full" and len(nodes) >= 2:
            from pgmpy.inference import VariableElimination

            bad = [v for v in nodes if v not in Q and v not in E] + [Q[0]]
            ev = (evidence_assignments(J, E, "sampled", rng, 1) or [None])[0]
            if ev is not None:
                try:
                    VariableElimination(model).query(list(Q), evidence=dict(ev) or None, elimination_order=bad, show_progress=False)
                    return {"key": "query:explicit-order:query-variable-accepted",
                            "what": f"query({Q}, evidence={ev}, elimination_order={bad}) did not raise ValueError"}
                except ValueError:
                    pass
    # one long-lived engine: the answer to a question must not depend on the questions asked before - in particular not on an earlier
    # question over the same variables with the roles of query and evidence exchanged
    from pgmpy.inference import VariableElimination

    shared = VariableElimination(model)
    for Q, E in pairs[:12]:
        if len(E) != 1 or len(Q) != 1:
            continue
        for (q, e) in ((Q, E), (E, Q)):
            for ev in evidence_assignments(J, list(e), "sampled", rng, 1):
                f = run_query(model, spec, J, list(q), ev, "greedy", True, "shared-engine", engine=shared)
                if f and f != "skip":
                    f["key"] = f["key"].replace("query:", "query:shared-engine:", 1) if "shared-engine" not in f["key"] else f["key"]
                    return f
    return None


def check_virtual(case):
    spec = O.spec_from_json(case["spec"])
    rng = O.mk_rng(case["qseed"], "virtual")
    level = case["level"]
    J = Joint(spec)
    nodes = list(spec["nodes"])
    model = O.make_bn(spec, latents=case.get("latents", []))
    pairs = qe_pairs(nodes, level, rng, max_pairs=24)
    k = 0
    for vlist in virtual_lists(spec, rng, level):
        for Q, E in pairs:
            evs = evidence_assignments(J, E, "sampled", rng, 1)
            for ev in evs:
                opts = order_options(nodes, Q, E, "full", rng)
                k += 1
                chosen = [opts[0], opts[1]] + [opts[2 + (k % (len(opts) - 2))]] if len(opts) > 2 else opts
                for lab, order, joint in chosen:
                    f = run_query(model, spec, J, Q, ev, order, joint, lab, vlist)
                    if f and f != "skip":
                        return f
    return None


def make_frame(spec, columns, rows, index=None):
    """DataFrame of state names; columns holding any str state are object columns, pure int columns stay int64."""
    import pandas as pd

    cols = {}
    for v in columns:
        vals = [r[v] for r in rows]
        cols[v] = pd.Series(vals, index=index, dtype=object if any(isinstance(s, str) for s in spec["states"][v]) else "int64")
    return pd.DataFrame(cols, index=index, columns=list(columns))


def check_bn_api(case):
    """BayesianNetwork.predict_probability and get_state_probability."""
    import pandas as pd

    spec = O.spec_from_json(case["spec"])
    rng = O.mk_rng(case["qseed"], "bnapi")
    level = case["level"]
    J = Joint(spec)
    nodes = list(spec["nodes"])
    model = O.make_bn(spec, latents=case.get("latents", []))
    subsets = [list(c) for r in range(0, len(nodes) + 1) for c in itertools.combinations(nodes, r)]
    if level != "full":
        subsets = [s for s in subsets if len(s) <= 2 or len(s) == len(nodes)]
        subsets = rng.sample(subsets, min(len(subsets), 12))
    for S in subsets:
        m = J.marginal(S)
        items = list(m.items())
        if level != "full" and len(items) > 6:
            items = rng.sample(items, 6)
        for key, p in items:
            st = dict(zip(S, key))
            got = model.get_state_probability(dict(st))
            if not abs(float(got) - float(p)) <= TOL:
                return {"key": "get_state_probability:value", "what": f"get_state_probability({st}) = {got!r}, brute force gives {p} = {float(p)!r}"}
    for D in subsets:
        if not D or len(D) == len(nodes):
            continue
        rows = [dict(zip(D, k)) for k, p in J.marginal(D).items() if p > 0]
        if len(rows) > 5:
            rows = rng.sample(rows, 5)
        rows = rows + rows[:1]  # a duplicate row
        data = make_frame(spec, D, rows, [f"r{i}" for i in range(len(rows))] if len(D) % 2 else None)
        got = model.predict_probability(data)
        missing = [v for v in nodes if v not in D]
        want_cols = {f"{v}_{s}" for v in missing for s in spec["states"][v]}
        if set(got.columns) != want_cols or len(got) != len(rows) or list(got.index) != list(data.index):
            return {"key": "predict_probability:layout", "what": f"data columns {D}: got columns {sorted(got.columns)} index {list(got.index)}; expected columns {sorted(want_cols)}"}
        for i, r in enumerate(rows):
            for v in missing:
                pv = J.posterior([v], r)
                for (s,), p in pv.items():
                    g = got.iloc[i][f"{v}_{s}"]
                    if not abs(float(g) - float(p)) <= TOL:
                        return {"key": "predict_probability:value", "what": f"row {r}: P({v}={s!r}) = {g!r}, brute force gives {p} = {float(p)!r}"}
    return None


def groups(tier):
    quick = tier == "quick"
    fan = 4 if quick else 6
    dags = "all DAGs <= 3 nodes" if quick else "all DAGs <= 4 nodes"
    variants = ("3 random cardinality vectors from {1,2,3} per DAG" if quick else
                "every cardinality vector from {1,2,3}^n for n <= 3, one random vector per 4-node DAG")
    rnd = (f"{4 if quick else 24} twin-sensor and {2 if quick else 12} twin-relay models (identical CPDs per branch, enumerated in full), "
           f"{24 if quick else 240} seeded random DAGs on {'4-6' if quick else '5-6'} nodes")
    common = (f"{dags} ({variants}), {rnd}; state names int/str/mixed/reversed-int/per-node rotation; CPD columns positive, with exact zeros, "
              f"deterministic; shuffled parent and node orders; {fan} hash seeds per case")
    return [
        Group("ve_query", gen_models, check_query, nontrivial, seed_fanout=fan, engine="E3",
              bound=common + "; models <= 3 nodes: every disjoint (query, evidence) pair, every evidence assignment with P(e) > 0, "
                             "elimination_order in {greedy, None, 4 heuristics, every explicit permutation} x joint in {True, False}; larger models: "
                             "<= 60 sampled pairs (|Q|,|E| <= 2 from 5 nodes on), <= 2 evidence assignments, 2 sampled permutations, joint alternating; "
                             "fresh engine per query; evidence with P(e) = 0 skipped"),
        Group("ve_virtual", gen_models, check_virtual, nontrivial, seed_fanout=fan, engine="E3",
              bound=common + "; virtual-evidence lists (one-variable TabularCPDs with the model's state names, weights k/6 incl. 0) on every single "
                             "variable and <= 2 pairs (sampled models: 2 singles + 1 pair), virtual variables may coincide with query or evidence "
                             "variables; every (<= 24 sampled) (query, evidence) pair with one evidence assignment; greedy x both joint modes + one rotating "
                             "other order; fresh engine per query"),
        Group("bn_api", gen_models, check_bn_api, nontrivial, seed_fanout=fan, engine="E3",
              bound=common + "; get_state_probability for every node subset and assignment (sampled models: <= 12 subsets, <= 6 assignments); "
                             "predict_probability for every non-empty proper column subset, <= 5 rows with P(row) > 0 plus a duplicate row, "
                             "default and string indexes"),
    ]
