"""C16 bounded groups (E3): purity, repeatability and representation independence of queries.

 (a) purity_*      one model + one data frame per case; every public inference / sampling / scoring / estimation /
                   structure-search / export / conversion / factor call of a *family* is executed between two deep,
                   order-sensitive snapshots of everything that was passed in (model: node order, edge order, latents,
                   ORDER of model.cpds, every CPD's variables/cardinality/state names/values; data frame; factors;
                   argument containers).
 (b) history_*     an engine that has answered a sequence of questions must answer every question of the pool like a
                   fresh engine on the same model (all sequences of length <= 2 (3) over a pool incl. virtual evidence).
 (c) repr_*        metamorphic: a bijectively renamed / state-renamed / state-permuted / differently inserted model
                   must give the answers of the exact brute-force oracle (vf.bounded.oracles, Fractions) up to the
                   relabelling; run under several PYTHONHASHSEEDs (seed_fanout); numpy vs torch backend.

Oracles never call a pgmpy algorithm.  A check collects every failure of its case and returns the first one whose key is
not a confirmed defect (KNOWN), so that a known defect cannot hide a new one.
"""
from __future__ import annotations

import itertools
import os
import tempfile
from fractions import Fraction

from vf.core import Group
from vf.bounded import oracles as O

TOL = 1e-9

# confirmed defects of the unchanged tree (see report); a case returns one of these only if nothing else failed
KNOWN = {
    "HillClimbSearch.estimate:mutates-start_dag",
    "UAIWriter:reorders-model-cpds",
    "XMLBIFWriter:reorders-model-cpds",
    "engine-history:virtual_evidence",
    # BayesianNetwork.remove_cpds resolves only str/int node names -> remove_node (used by the MinFill... elimination orders) fails for tuple names
    "VariableElimination.query(MinFill):rename_tuple:raised:ValueError", "VariableElimination.query(MinFill):all:raised:ValueError",
    "VariableElimination.map_query:rename_tuple:raised:ValueError", "VariableElimination.map_query:all:raised:ValueError",
    "UAIWriter.__str__:not-repeatable",
    "XMLBIFWriter.__str__:not-repeatable",
}


def _pick(fails, rot=0):
    for f in fails:
        if f["key"] not in KNOWN:
            return f
    keys = sorted({f["key"] for f in fails})
    if not keys:
        return None
    k = keys[rot % len(keys)]  # several confirmed defects in one case: rotate so that each of them is reported by some case
    return [f for f in fails if f["key"] == k][0]


def _call(fn, *a, **kw):
    try:
        return True, fn(*a, **kw)
    except Exception as e:  # noqa
        return False, e


# ----------------------------------------------------------------------------- deep snapshots
def deep(o):
    """order-sensitive deep value of anything that can be handed to pgmpy."""
    import networkx as nx
    import numpy as np
    import pandas as pd
    from pgmpy.factors.discrete import DiscreteFactor

    if isinstance(o, DiscreteFactor):
        vals = o.values
        if not isinstance(vals, np.ndarray):
            vals = np.asarray(vals.detach().cpu().numpy() if hasattr(vals, "detach") else vals)
        return ("factor", type(o).__name__, repr(getattr(o, "variable", None)), [repr(v) for v in o.variables], [int(c) for c in o.cardinality],
                [(repr(k), [repr(s) for s in v]) for k, v in o.state_names.items()], vals.shape, vals.flatten().tolist())
    if isinstance(o, nx.Graph):
        fl = getattr(o, "cpds", None)
        if fl is None:
            fl = getattr(o, "factors", None)
        nodes = [deep(n) if isinstance(n, DiscreteFactor) else repr(n) for n in o.nodes()]
        return {"type": type(o).__name__, "nodes": nodes,
                "edges": [tuple(deep(x) if isinstance(x, DiscreteFactor) else repr(x) for x in e) for e in o.edges()],
                "latents": sorted(map(repr, getattr(o, "latents", []) or [])),
                "cpds": [deep(f) for f in fl] if fl is not None else None}
    if isinstance(o, pd.DataFrame):
        return ("df", [repr(c) for c in o.columns], [repr(i) for i in o.index], [str(t) for t in o.dtypes], [[repr(x) for x in row] for row in o.values.tolist()])
    if isinstance(o, np.ndarray):
        return ("nd", o.shape, str(o.dtype), o.flatten().tolist())
    if isinstance(o, dict):
        return ("dict", [(repr(k), deep(v)) for k, v in o.items()])
    if isinstance(o, (list, tuple)):
        return (type(o).__name__, [deep(x) for x in o])
    if isinstance(o, (set, frozenset)):
        return ("set", sorted(repr(x) for x in o))
    return repr(o)


def what_changed(a, b):
    """classify the difference of two deep() values of the same object."""
    if a == b:
        return None
    if isinstance(a, dict) and isinstance(b, dict) and "cpds" in a:
        if a["cpds"] != b["cpds"] and a["cpds"] is not None and b["cpds"] is not None and sorted(map(repr, a["cpds"])) == sorted(map(repr, b["cpds"])) \
                and all(a[k] == b[k] for k in ("nodes", "edges", "latents", "type")):
            return "reorders-model-cpds"
        for k in ("type", "nodes", "edges", "latents", "cpds"):
            if a[k] != b[k]:
                if k in ("nodes", "edges") and sorted(map(repr, a[k])) == sorted(map(repr, b[k])):
                    return f"reorders-{k}"
                return f"mutates-{k}"
    return "mutates"


class Watch:
    """snapshots of named objects around calls."""

    def __init__(self, **objs):
        self.objs = dict(objs)
        self.fails = []
        self.snap = {k: deep(v) for k, v in self.objs.items()}
        self.ncalls = 0

    def add(self, **objs):
        for k, v in objs.items():
            self.objs[k] = v
            self.snap[k] = deep(v)

    def call(self, name, fn, *a, **kw):
        """run fn; report if any watched object changed (and re-baseline so that later calls are judged on their own)."""
        self.ncalls += 1
        ok, val = _call(fn, *a, **kw)
        if not ok:
            self.fails.append({"key": f"{name}:raised:{type(val).__name__}", "what": f"{name} raised {val!r}"})
        for k, v in self.objs.items():
            now = deep(v)
            ch = what_changed(self.snap[k], now)
            if ch:
                cls = name.split(".")[0].split("(")[0]
                key = f"{cls}:{ch}" if ch == "reorders-model-cpds" else f"{name}:mutates-{k}"
                self.fails.append({"key": key, "what": f"{name} changed the caller's `{k}` ({ch}): before {str(self.snap[k])[:400]} after {str(now)[:400]}"})
                self.snap[k] = now
        return val if ok else None


# ----------------------------------------------------------------------------- specs, data
def gen_specs(seed, salt, count, nmin=3, nmax=5, zeros=False, style="str"):
    rng = O.mk_rng(seed, salt)
    for k in range(count):
        n = rng.randint(nmin, nmax)
        names = O.node_names(n, "long" if k % 2 else "x")
        edges = O.random_dag(rng, n, rng.choice((0.4, 0.6, 0.8)), names)
        edges = _connect(names, edges)
        spec = O.random_bn_spec(rng, names, edges, style=style, zeros=zeros)
        yield O.spec_to_json(spec)


def _connect(names, edges):
    """add edges (consistent with the existing order) until the skeleton is connected: BeliefPropagation rejects
    disconnected models ('No sepset found'), which is not this property's concern."""
    edges = [list(e) for e in edges]
    order = O.topo_order(names, [tuple(e) for e in edges])
    comp = {v: v for v in names}

    def find(x):
        while comp[x] != x:
            x = comp[x]
        return x

    for a, b in edges:
        comp[find(a)] = find(b)
    for i in range(1, len(order)):
        if find(order[i]) != find(order[0]):
            edges.append([order[0], order[i]] if order.index(order[0]) < order.index(order[i]) else [order[i], order[0]])
            comp[find(order[i])] = find(order[0])
    return edges


def sample_rows(spec, n, rng):
    order = O.topo_order(spec["nodes"], [tuple(e) for e in spec["edges"]])
    rows = []
    for _ in range(n):
        a = {}
        for v in order:
            c = spec["cpd"][v]
            j = O.col_index(spec, c["parents"], a)
            r, acc = rng.random(), 0.0
            pick = spec["states"][v][-1]
            for i, s in enumerate(spec["states"][v]):
                acc += float(c["table"][i][j])
                if r < acc:
                    pick = s
                    break
            a[v] = pick
        rows.append(a)
    return rows


def make_df(spec, n, rng):
    import pandas as pd

    rows = sample_rows(spec, n, rng)
    # make sure every state occurs at least once (estimators derive state names from the data)
    for v in spec["nodes"]:
        for s in spec["states"][v]:
            r = dict(rows[rng.randrange(len(rows))])
            r[v] = s
            rows.append(r)
    return pd.DataFrame(rows, columns=list(spec["nodes"]), dtype=object)  # pandas 3 would infer `str`, which preprocess_data rejects


def build_bn(spec, rng=None, latents=()):
    """BayesianNetwork from a spec; with rng: nodes, edges and CPDs inserted in shuffled order (CPD list deliberately unsorted)."""
    from pgmpy.models import BayesianNetwork

    nodes, edges, cpdorder = list(spec["nodes"]), [tuple(e) for e in spec["edges"]], list(spec["nodes"])
    if rng is not None:
        rng.shuffle(nodes)
        rng.shuffle(edges)
        rng.shuffle(cpdorder)
    else:
        cpdorder = sorted(cpdorder, key=repr, reverse=True)
    m = BayesianNetwork(latents=set(latents)) if latents else BayesianNetwork()
    if rng is not None and rng.random() < 0.5:
        m.add_edges_from(edges)
        m.add_nodes_from(nodes)
    else:
        m.add_nodes_from(nodes)
        m.add_edges_from(edges)
    for v in cpdorder:
        m.add_cpds(O.make_cpd(spec, v))
    return m


def fdict(phi):
    """factor -> {frozenset((var, state)) : value} by named assignment."""
    import numpy as np

    vals = phi.values
    if not isinstance(vals, np.ndarray):
        vals = np.asarray(vals.detach().cpu().numpy() if hasattr(vals, "detach") else vals)
    out = {}
    for idx in itertools.product(*[range(int(c)) for c in phi.cardinality]):
        out[frozenset((v, phi.state_names[v][i]) for v, i in zip(phi.variables, idx))] = float(vals[idx])
    return out


def same_fdict(a, b, tol=TOL):
    return set(a) == set(b) and all(O.close(a[k], b[k], tol) for k in a)


# ----------------------------------------------------------------------------- (a) purity
FAMILIES = ("ve", "bp", "causal", "sampling", "predict", "scores", "estimators", "hillclimb", "writer_bif", "writer_xmlbif", "writer_uai",
            "writer_net", "conversions", "factor_ops")


def gen_purity(family):
    def gen(tier, seed):
        cnt = {"quick": 10, "thorough": 40}[tier]
        if family in ("hillclimb", "estimators", "sampling", "predict"):
            cnt = {"quick": 6, "thorough": 20}[tier]
        for i, js in enumerate(gen_specs(seed, "c16pur" + family, cnt, 3, 5 if family not in ("hillclimb",) else 4)):
            yield {"family": family, "spec": js, "dseed": seed * 1000 + i}
    return gen


def _qe(spec, rng, nq=1, ne=1):
    nodes = list(spec["nodes"])
    rng.shuffle(nodes)
    q = nodes[:nq]
    ev = {v: rng.choice(spec["states"][v]) for v in nodes[nq:nq + ne]}
    return q, ev


def _possible_evidence(spec, ev):
    return sum(O.marginal(spec, [], ev).values()) > 0


def check_purity(case):
    import numpy as np
    import pandas as pd
    from pgmpy.base import DAG
    from pgmpy.factors.discrete import DiscreteFactor, TabularCPD
    from pgmpy.factors import factor_product, factor_divide
    from pgmpy.models import BayesianNetwork

    fam = case["family"]
    spec = O.spec_from_json(case["spec"])
    rng = O.mk_rng(case["dseed"], "purity", fam)
    latent = [spec["nodes"][-1]] if fam in ("ve", "sampling") and len(spec["nodes"]) > 3 else []
    m = build_bn(spec, None, latents=latent)
    W = Watch(model=m)
    nodes = list(spec["nodes"])
    q, ev = _qe(spec, rng, 1, 1)
    while not _possible_evidence(spec, ev):
        q, ev = _qe(spec, rng, 1, 1)
    q2 = [v for v in nodes if v not in ev][:2]
    vev_var = [v for v in nodes if v not in q][0]
    vev = TabularCPD(vev_var, len(spec["states"][vev_var]), [[0.2 + 0.5 * i / len(spec["states"][vev_var])] for i in range(len(spec["states"][vev_var]))],
                     state_names={vev_var: list(spec["states"][vev_var])})

    if fam == "ve":
        from pgmpy.inference import VariableElimination

        W.add(evidence=ev, variables=q, vev=[vev])
        ve = W.call("VariableElimination.__init__", VariableElimination, m)
        W.call("VariableElimination.query", ve.query, q, show_progress=False)
        W.call("VariableElimination.query", ve.query, q, evidence=ev, show_progress=False)
        W.call("VariableElimination.query", ve.query, q2, evidence=ev, joint=False, show_progress=False)
        for eo in ("MinFill", "MinNeighbors", "MinWeight", "WeightedMinFill"):
            W.call("VariableElimination.query", ve.query, q2, evidence=ev, elimination_order=eo, show_progress=False)
        W.call("VariableElimination.map_query", ve.map_query, q, evidence=ev, show_progress=False)
        W.call("VariableElimination.map_query", ve.map_query, show_progress=False)
        W.call("VariableElimination.max_marginal", ve.max_marginal, q, evidence=ev, show_progress=False)
        W.call("VariableElimination.induced_graph", ve.induced_graph, list(nodes))
        W.call("VariableElimination.induced_width", ve.induced_width, list(nodes))
        if all(isinstance(v, str) for v in nodes):
            W.call("VariableElimination.query(virtual_evidence)", ve.query, q, virtual_evidence=[vev], show_progress=False)
            W.call("VariableElimination.map_query(virtual_evidence)", ve.map_query, q, virtual_evidence=[vev], show_progress=False)
    elif fam == "bp":
        from pgmpy.inference import BeliefPropagation

        W.add(evidence=ev, variables=q, vev=[vev])
        bp = W.call("BeliefPropagation.__init__", BeliefPropagation, m)
        W.call("BeliefPropagation.calibrate", bp.calibrate)
        W.call("BeliefPropagation.get_clique_beliefs", bp.get_clique_beliefs)
        W.call("BeliefPropagation.get_sepset_beliefs", bp.get_sepset_beliefs)
        W.call("BeliefPropagation.max_calibrate", bp.max_calibrate)
        W.call("BeliefPropagation.query", bp.query, q, show_progress=False)
        W.call("BeliefPropagation.query", bp.query, q2, evidence=ev, show_progress=False)
        W.call("BeliefPropagation.query", bp.query, q2, evidence=ev, joint=False, show_progress=False)
        W.call("BeliefPropagation.map_query", bp.map_query, q, evidence=ev, show_progress=False)
        W.call("BeliefPropagation.map_query", bp.map_query, show_progress=False)
        W.call("BeliefPropagation.query(virtual_evidence)", bp.query, q, virtual_evidence=[vev], show_progress=False)
        jt = m.to_junction_tree()
        W.add(junction_tree=jt)
        bp2 = W.call("BeliefPropagation.__init__(JunctionTree)", BeliefPropagation, jt)
        W.call("BeliefPropagation(JunctionTree).calibrate", bp2.calibrate)
        W.call("BeliefPropagation(JunctionTree).query", bp2.query, q, show_progress=False)
    elif fam == "causal":
        from pgmpy.inference import CausalInference

        x, y = spec["edges"][0]
        do = {x: spec["states"][x][0]}
        rest = [v for v in nodes if v not in (x, y)]
        ev2 = {rest[0]: spec["states"][rest[0]][-1]} if rest else {}
        W.add(do=do, evidence=ev2)
        ci = W.call("CausalInference.__init__", CausalInference, m)
        W.call("CausalInference.query", ci.query, [y], do=do, show_progress=False)
        if ev2 and _possible_evidence(spec, {**ev2}):
            W.call("CausalInference.query", ci.query, [y], do=do, evidence=ev2, show_progress=False)
        W.call("CausalInference.query(bp)", ci.query, [y], do=do, inference_algo="bp", show_progress=False)
        W.call("CausalInference.query", ci.query, [y], show_progress=False)
        W.call("CausalInference.get_all_backdoor_adjustment_sets", ci.get_all_backdoor_adjustment_sets, x, y)
        W.call("CausalInference.get_minimal_adjustment_set", ci.get_minimal_adjustment_set, x, y)
        W.call("CausalInference.get_all_frontdoor_adjustment_sets", ci.get_all_frontdoor_adjustment_sets, x, y)
        W.call("CausalInference.is_valid_backdoor_adjustment_set", ci.is_valid_backdoor_adjustment_set, x, y, [])
        W.call("CausalInference.get_proper_backdoor_graph", ci.get_proper_backdoor_graph, [x], [y])
    elif fam == "sampling":
        from pgmpy.factors.discrete import State
        from pgmpy.sampling import BayesianModelSampling, GibbsSampling

        evl = [State(k, v) for k, v in ev.items()]
        W.add(evidence=evl, vev=[vev])
        bs = W.call("BayesianModelSampling.__init__", BayesianModelSampling, m)
        W.call("BayesianModelSampling.forward_sample", bs.forward_sample, size=25, seed=3, show_progress=False, n_jobs=1)
        W.call("BayesianModelSampling.forward_sample", bs.forward_sample, size=5, include_latents=True, seed=3, show_progress=False, n_jobs=1)
        W.call("BayesianModelSampling.rejection_sample", bs.rejection_sample, evidence=evl, size=8, seed=4, show_progress=False)
        W.call("BayesianModelSampling.likelihood_weighted_sample", bs.likelihood_weighted_sample, evidence=evl, size=8, seed=5, show_progress=False, n_jobs=1)
        W.call("BayesianNetwork.simulate", m.simulate, n_samples=10, seed=6, show_progress=False)
        W.call("BayesianNetwork.simulate(evidence)", m.simulate, n_samples=6, evidence=ev, seed=6, show_progress=False)
        root = [v for v in nodes if v not in ev and v not in latent]
        dd = {root[0]: spec["states"][root[0]][0]}
        W.add(do=dd)
        W.call("BayesianNetwork.simulate(do)", m.simulate, n_samples=6, do=dd, seed=6, show_progress=False)
        W.call("BayesianNetwork.simulate(virtual_evidence)", m.simulate, n_samples=6, virtual_evidence=[vev], seed=6, show_progress=False)
        W.call("GibbsSampling.sample", lambda: GibbsSampling(m).sample(size=5, seed=7))
    elif fam == "predict":
        df = make_df(spec, 12, rng)
        tgt = nodes[-1]
        part = df.drop(columns=[tgt])
        W.add(data=part, states={nodes[0]: spec["states"][nodes[0]][0]})
        W.call("BayesianNetwork.predict", m.predict, part, n_jobs=1)
        W.call("BayesianNetwork.predict_probability", m.predict_probability, part)
        W.call("BayesianNetwork.get_state_probability", m.get_state_probability, W.objs["states"])
        W.call("BayesianNetwork.get_markov_blanket", m.get_markov_blanket, nodes[0])
        W.call("BayesianNetwork.get_independencies", m.get_independencies)
        W.call("BayesianNetwork.local_independencies", m.local_independencies, nodes)
        W.call("BayesianNetwork.get_cardinality", m.get_cardinality)
        W.call("BayesianNetwork.states", lambda: m.states)
        W.call("BayesianNetwork.get_factorized_product", m.get_factorized_product)
        W.call("BayesianNetwork.check_model", m.check_model)
        W.call("BayesianNetwork.is_iequivalent", m.is_iequivalent, build_bn(spec, rng))
        W.call("BayesianNetwork.get_immoralities", m.get_immoralities)
        W.call("BayesianNetwork.active_trail_nodes", m.active_trail_nodes, nodes[0], observed=nodes[1])
    elif fam == "scores":
        from pgmpy.estimators import AICScore, BDeuScore, BDsScore, BicScore, K2Score

        df = make_df(spec, 40, rng)
        W.add(data=df)
        for S in (K2Score, BDeuScore, BDsScore, BicScore, AICScore):
            sc = W.call(f"{S.__name__}.__init__", S, df)
            if sc is None:
                continue
            W.call(f"{S.__name__}.score", sc.score, m)
            for v in nodes:
                ps = list(spec["cpd"][v]["parents"])
                W.add(parents=ps)
                W.call(f"{S.__name__}.local_score", sc.local_score, v, ps)
            W.call(f"{S.__name__}.state_counts", sc.state_counts, nodes[-1], list(spec["cpd"][nodes[-1]]["parents"]))
            W.call(f"{S.__name__}.structure_prior", sc.structure_prior, m)
    elif fam == "estimators":
        from pgmpy.estimators import BayesianEstimator, MaximumLikelihoodEstimator

        df = make_df(spec, 40, rng)
        ms = BayesianNetwork()
        ms.add_nodes_from(nodes)
        ms.add_edges_from([tuple(e) for e in spec["edges"]])
        W.add(data=df, structure=ms)
        mle = W.call("MaximumLikelihoodEstimator.__init__", MaximumLikelihoodEstimator, ms, df)
        W.call("MaximumLikelihoodEstimator.get_parameters", mle.get_parameters, n_jobs=1)
        W.call("MaximumLikelihoodEstimator.estimate_cpd", mle.estimate_cpd, nodes[-1])
        be = W.call("BayesianEstimator.__init__", BayesianEstimator, ms, df)
        W.call("BayesianEstimator.get_parameters(BDeu)", be.get_parameters, prior_type="BDeu", equivalent_sample_size=5, n_jobs=1)
        W.call("BayesianEstimator.get_parameters(K2)", be.get_parameters, prior_type="K2", n_jobs=1)
        v = nodes[-1]
        cpd = O.make_cpd(spec, v)
        pc = np.ones((len(spec["states"][v]), int(np.prod([len(spec["states"][p]) for p in sorted(spec["cpd"][v]["parents"])] or [1]))))
        W.add(pseudo_counts=pc)
        W.call("BayesianEstimator.estimate_cpd(dirichlet)", be.estimate_cpd, v, prior_type="dirichlet", pseudo_counts=pc)
        # estimators given the full model (with CPDs) must not touch its CPDs either
        W.call("MaximumLikelihoodEstimator(model with CPDs).get_parameters", lambda: MaximumLikelihoodEstimator(m, df).get_parameters(n_jobs=1))
        W.call("BayesianEstimator(model with CPDs).get_parameters", lambda: BayesianEstimator(m, df).get_parameters(n_jobs=1))
    elif fam == "hillclimb":
        from pgmpy.estimators import BicScore, HillClimbSearch

        df = make_df(spec, 60, rng)
        start = DAG()
        start.add_nodes_from(nodes)
        e0 = tuple(spec["edges"][0])
        fixed = {e0}
        black = [tuple(reversed(e0))]
        W.add(data=df, start_dag=start, fixed_edges=fixed, black_list=black)
        hc = W.call("HillClimbSearch.__init__", HillClimbSearch, df)
        W.call("HillClimbSearch.estimate", hc.estimate, scoring_method="k2", start_dag=start, max_iter=4, show_progress=False)
        start2 = DAG()
        start2.add_nodes_from(nodes)
        W.add(start_dag=start2)
        W.call("HillClimbSearch.estimate", hc.estimate, scoring_method=BicScore(df), start_dag=start2, fixed_edges=fixed, black_list=black, max_iter=3, show_progress=False)
        W.call("HillClimbSearch.estimate(start_dag=None)", hc.estimate, scoring_method="bdeu", max_iter=3, show_progress=False)
    elif fam.startswith("writer_"):
        from pgmpy.readwrite import BIFWriter, NETWriter, UAIWriter, XMLBIFWriter

        cls = {"writer_bif": BIFWriter, "writer_xmlbif": XMLBIFWriter, "writer_uai": UAIWriter, "writer_net": NETWriter}[fam]
        nm = cls.__name__
        w = W.call(f"{nm}.__init__", cls, m)
        if w is not None:
            s1 = W.call(f"{nm}.__str__", lambda: str(w) if fam != "writer_xmlbif" else w.__str__())
            # the same question twice: two consecutive str() calls.  (The get_* methods of XMLBIFWriter are the
            # construction helpers that __init__ already ran; calling them again appends to the writer's own tree by
            # design, so they are exercised below only for purity of the *model*, after the repeatability comparison.)
            s2 = W.call(f"{nm}.__str__", lambda: str(w) if fam != "writer_xmlbif" else w.__str__())
            for meth in [x for x in dir(cls) if x.startswith("get_")]:
                W.call(f"{nm}.{meth}", getattr(w, meth))
            if s1 is not None and s2 is not None and s1 != s2:
                W.fails.append({"key": f"{nm}.__str__:not-repeatable", "what": f"two str() calls on one writer differ:\n{str(s1)[:300]}\n---\n{str(s2)[:300]}"})
            wm = [x for x in dir(cls) if x.startswith("write_")][0]
            fd, path = tempfile.mkstemp(suffix=".txt")
            os.close(fd)
            try:
                W.call(f"{nm}.{wm}", getattr(w, wm), path)
            finally:
                os.unlink(path)
    elif fam == "conversions":
        W.call("BayesianNetwork.to_markov_model", m.to_markov_model)
        W.call("BayesianNetwork.to_junction_tree", m.to_junction_tree)
        W.call("BayesianNetwork.moralize", m.moralize)
        W.call("BayesianNetwork.do", m.do, [spec["edges"][0][1]])
        W.call("BayesianNetwork.get_ancestral_graph", m.get_ancestral_graph, [nodes[0]])
        W.call("BayesianNetwork.get_random_cpds", m.get_random_cpds, n_states={v: len(spec["states"][v]) for v in nodes})
        W.call("BayesianNetwork.copy", m.copy)
        W.call("BayesianNetwork.to_daft/graphviz-free: to_directed", m.to_directed)
        mn = m.to_markov_model()
        W.add(markov=mn)
        W.call("MarkovNetwork.to_junction_tree", mn.to_junction_tree)
        W.call("MarkovNetwork.to_factor_graph", mn.to_factor_graph)
        W.call("MarkovNetwork.triangulate", mn.triangulate, inplace=False)
        W.call("MarkovNetwork.get_partition_function", mn.get_partition_function)
        W.call("MarkovNetwork.get_local_independencies", mn.get_local_independencies)
        W.call("MarkovNetwork.to_bayesian_model", mn.to_bayesian_model)
        W.call("MarkovNetwork.markov_blanket", mn.markov_blanket, nodes[0])
        W.call("MarkovNetwork.check_model", mn.check_model)
        W.call("MarkovNetwork.copy", mn.copy)
        from pgmpy.models import FactorGraph

        fg = FactorGraph()  # built by hand (factor objects as factor nodes), cf. DESIGN #9 for to_factor_graph's own output
        fg.add_nodes_from(nodes)
        for phi in [f.copy() for f in mn.factors]:
            fg.add_factors(phi)
            fg.add_node(phi)
            fg.add_edges_from([(v, phi) for v in phi.variables])
        W.add(factor_graph=fg)
        W.call("FactorGraph.to_markov_model", fg.to_markov_model)
        W.call("FactorGraph.to_junction_tree", fg.to_junction_tree)
        W.call("FactorGraph.get_partition_function", fg.get_partition_function)
        W.call("FactorGraph.check_model", fg.check_model)
        jt = m.to_junction_tree()
        W.add(junction_tree=jt)
        W.call("JunctionTree.check_model", jt.check_model)
        W.call("JunctionTree.copy", jt.copy)
        W.call("JunctionTree.get_partition_function", jt.get_partition_function)
        from pgmpy.inference import VariableElimination

        W.call("VariableElimination(MarkovNetwork).query", lambda: VariableElimination(mn).query(q, show_progress=False))
        W.call("VariableElimination(JunctionTree).query", lambda: VariableElimination(jt).query(q, show_progress=False))
    elif fam == "factor_ops":
        cp = {v: O.make_cpd(spec, v) for v in nodes}
        ph = {v: cp[v].to_factor() for v in nodes}
        child = spec["edges"][0][1]
        par = spec["edges"][0][0]
        a, b = ph[child], ph[par]
        red = [(par, spec["states"][par][-1])]
        mv = [par]
        dv = a.marginalize([child], inplace=False).sum(0.5, inplace=False)  # divisor over the parents of `child`, no zeros
        W = Watch(a=a, b=b, divisor=dv, cpd=cp[child], cpd_parent=cp[par], reduce_list=red, marg_list=mv, all_cpds=list(cp.values()))
        W.call("DiscreteFactor.marginalize(inplace=False)", a.marginalize, mv, inplace=False)
        W.call("DiscreteFactor.maximize(inplace=False)", a.maximize, mv, inplace=False)
        W.call("DiscreteFactor.reduce(inplace=False)", a.reduce, red, inplace=False)
        W.call("DiscreteFactor.normalize(inplace=False)", a.normalize, inplace=False)
        W.call("DiscreteFactor.product(inplace=False)", a.product, b, inplace=False)
        W.call("DiscreteFactor.product(scalar, inplace=False)", a.product, 2.5, inplace=False)
        W.call("DiscreteFactor.divide(inplace=False)", a.divide, dv, inplace=False)
        W.call("DiscreteFactor.sum(inplace=False)", a.sum, b, inplace=False)
        # the argument has the wider scope / the same scope in another axis order (the alignment code must work on a private copy)
        W.call("DiscreteFactor.sum(wider operand, inplace=False)", b.sum, a, inplace=False)
        W.call("DiscreteFactor.product(wider operand, inplace=False)", b.product, a, inplace=False)
        W.call("DiscreteFactor.__add__(wider operand)", lambda: b + a)
        if len(a.variables) >= 2:
            import numpy as np
            from pgmpy.factors.discrete import DiscreteFactor

            rv = list(reversed(a.variables))
            rev = DiscreteFactor(rv, [a.get_cardinality([v])[v] for v in rv], np.transpose(np.asarray(a.values)) + 0.25, state_names={v: list(a.state_names[v]) for v in rv})
            W.add(rev=rev)
            W.call("DiscreteFactor.sum(same scope, other axis order, inplace=False)", a.sum, rev, inplace=False)
            W.call("DiscreteFactor.product(same scope, other axis order, inplace=False)", a.product, rev, inplace=False)
            W.call("DiscreteFactor.divide(same scope, other axis order, inplace=False)", a.divide, rev, inplace=False)
            W.call("factor_divide(same scope, other axis order)", factor_divide, a, rev)
        W.call("DiscreteFactor.__mul__", lambda: a * b)
        W.call("DiscreteFactor.__rmul__", lambda: b * a)
        W.call("DiscreteFactor.__truediv__", lambda: a / dv)
        W.call("DiscreteFactor.__add__", lambda: a + b)
        W.call("DiscreteFactor.__eq__", lambda: a == b)
        W.call("DiscreteFactor.__eq__", lambda: a == a.copy())
        W.call("DiscreteFactor.__hash__", lambda: hash(a))
        W.call("DiscreteFactor.__str__", lambda: str(a))
        W.call("DiscreteFactor.copy", a.copy)
        W.call("DiscreteFactor.scope", a.scope)
        W.call("DiscreteFactor.get_cardinality", a.get_cardinality, [par])
        W.call("DiscreteFactor.get_value", lambda: a.get_value(**{str(k): v for k, v in {child: spec["states"][child][0], **{p: spec["states"][p][0] for p in a.variables[1:]}}.items()}))
        W.call("DiscreteFactor.assignment", a.assignment, [0, 1])
        W.call("DiscreteFactor.identity_factor", a.identity_factor)
        W.call("DiscreteFactor.sample", a.normalize(inplace=False).sample, 4) if hasattr(a, "sample") else None
        W.call("factor_product", factor_product, a, b, *[ph[v] for v in nodes[:3]])
        W.call("factor_divide", factor_divide, a, dv)
        c = cp[child]
        W.call("TabularCPD.marginalize(inplace=False)", c.marginalize, mv, inplace=False)
        W.call("TabularCPD.reduce(inplace=False)", c.reduce, red, inplace=False)
        W.call("TabularCPD.normalize(inplace=False)", c.normalize, inplace=False)
        neword = list(reversed(c.variables[1:]))
        W.add(new_order=neword)
        W.call("TabularCPD.reorder_parents(inplace=False)", c.reorder_parents, neword, inplace=False)
        W.call("TabularCPD.to_factor", c.to_factor)
        W.call("TabularCPD.get_values", c.get_values)
        W.call("TabularCPD.get_evidence", c.get_evidence)
        W.call("TabularCPD.copy", c.copy)
        W.call("TabularCPD.__str__", lambda: str(c))
        W.call("TabularCPD.to_dataframe", c.to_dataframe) if hasattr(c, "to_dataframe") else None
        W.call("TabularCPD.is_valid_cpd", c.is_valid_cpd)
    else:
        raise ValueError(fam)
    if W.ncalls == 0:
        raise RuntimeError("no call executed")
    return _pick(W.fails, case["dseed"])


# ----------------------------------------------------------------------------- (b) history independence of engines
def _pool(spec, kind):
    """pool of questions for one model (plain data only; turned into calls by _ask)."""
    nodes = list(spec["nodes"])
    x, y = spec["edges"][0]
    last = nodes[-1]
    first = nodes[0]
    s = lambda v, i: spec["states"][v][i % len(spec["states"][v])]
    ev1 = {first: s(first, 0)} if first != last else {}
    if not _possible_evidence(spec, ev1):
        ev1 = {first: s(first, 1)}
    other = [v for v in nodes if v not in (last, first)]
    if kind in ("ve", "bp"):
        pool = [
            ("query", {"variables": [last]}),
            ("query", {"variables": [last], "evidence": ev1}),
            ("query", {"variables": [y, x] if kind == "ve" else [x, y], "evidence": {}}),
            ("query", {"variables": [last], "virtual": [[first, 0.3]]}),
            ("query", {"variables": [first], "virtual": [[last, 0.8]], "evidence": ({other[0]: s(other[0], 1)} if other and _possible_evidence(spec, {other[0]: s(other[0], 1)}) else {})}),
            ("map_query", {"variables": [last], "evidence": ev1}),
            ("map_query", {"variables": None}),
        ]
        if kind == "ve":
            pool.append(("max_marginal", {"variables": None}))
            pool.append(("query", {"variables": [last], "evidence": ev1, "elimination_order": "MinFill"}))
        else:
            pool.append(("calibrate", {}))
        return pool
    if kind == "ci":
        do = {x: s(x, 0)}
        rest = [v for v in nodes if v not in (x, y)]
        ev = {rest[0]: s(rest[0], 0)} if rest and _possible_evidence(spec, {rest[0]: s(rest[0], 0)}) else {}
        return [
            ("ciquery", {"variables": [y], "do": do}),
            ("ciquery", {"variables": [y], "do": do, "evidence": ev}),
            ("ciquery", {"variables": [y]}),
            ("ciquery", {"variables": [y], "do": {x: s(x, 1)}, "inference_algo": "bp"}),
            ("ciquery", {"variables": [x], "evidence": {y: s(y, 0)} if _possible_evidence(spec, {y: s(y, 0)}) else {}}),
            ("ciquery", {"variables": [last] if last not in do else [first], "do": do if last not in do else {}}),
        ]
    if kind == "sampling":
        return [
            ("forward", {"size": 12, "seed": 11}),
            ("forward", {"size": 12, "seed": 12}),
            ("rejection", {"evidence": ev1, "size": 6, "seed": 13}),
            ("weighted", {"evidence": ev1, "size": 6, "seed": 14}),
            ("forward", {"size": 5, "seed": 11, "include_latents": True}),
        ]
    raise ValueError(kind)


def _ask(engine, spec, qq):
    """ask one question; returns a comparable, named answer."""
    from pgmpy.factors.discrete import State, TabularCPD

    name, a = qq
    kw = {}
    if a.get("evidence"):
        kw["evidence"] = dict(a["evidence"])
    if a.get("virtual"):
        kw["virtual_evidence"] = [TabularCPD(v, len(spec["states"][v]), [[p * (1 + i) / (1 + len(spec["states"][v]))] for i in range(len(spec["states"][v]))],
                                             state_names={v: list(spec["states"][v])}) for v, p in a["virtual"]]
    if a.get("elimination_order"):
        kw["elimination_order"] = a["elimination_order"]
    if name == "query":
        r = engine.query(list(a["variables"]), show_progress=False, **kw)
        return ("factor", fdict(r))
    if name == "map_query":
        r = engine.map_query(None if a["variables"] is None else list(a["variables"]), show_progress=False, **kw)
        return ("assignment", dict(r))
    if name == "max_marginal":
        return ("number", float(engine.max_marginal(a["variables"], show_progress=False, **kw)))
    if name == "calibrate":
        engine.calibrate()
        return ("beliefs", sorted((repr(sorted(map(repr, k))), sorted((repr(sorted(map(repr, kk))), round(v, 9)) for kk, v in fdict(phi).items())) for k, phi in engine.get_clique_beliefs().items()))
    if name == "ciquery":
        kw2 = {k: a[k] for k in ("do", "evidence", "inference_algo") if a.get(k)}
        r = engine.query(list(a["variables"]), show_progress=False, **kw2)
        return ("factor", fdict(r))
    if name == "forward":
        df = engine.forward_sample(size=a["size"], seed=a["seed"], include_latents=a.get("include_latents", False), show_progress=False, n_jobs=1)
        return ("frame", (list(df.columns), df.values.tolist()))
    if name == "rejection":
        df = engine.rejection_sample(evidence=[State(k, v) for k, v in a["evidence"].items()], size=a["size"], seed=a["seed"], show_progress=False)
        return ("frame", (list(df.columns), df.values.tolist()))
    if name == "weighted":
        df = engine.likelihood_weighted_sample(evidence=[State(k, v) for k, v in a["evidence"].items()], size=a["size"], seed=a["seed"], show_progress=False, n_jobs=1)
        return ("frame", (sorted(map(str, df.columns)), [[repr(x) for x in df[c].tolist()] for c in sorted(df.columns, key=str)]))
    raise ValueError(name)


def _same_answer(spec, qq, a, b):
    """equality of two answers to the same question (MAP: both must be maximisers of the same oracle posterior)."""
    if a[0] != b[0]:
        return False, "different kind of answer"
    if a[0] == "factor":
        return same_fdict(a[1], b[1]), ""
    if a[0] == "number":
        return O.close(a[1], b[1], TOL), ""
    if a[0] == "assignment":
        if set(a[1]) != set(b[1]):
            return False, f"different variable sets {sorted(map(str, a[1]))} vs {sorted(map(str, b[1]))}"
        if a[1] == b[1]:
            return True, ""
        # ties: compare the oracle probability of both assignments
        ev = dict(qq[1].get("evidence") or {})
        if qq[1].get("virtual"):
            return False, "different assignments"
        vs = list(a[1])
        post = O.posterior(spec, vs, ev)
        pa, pb = post[tuple(a[1][v] for v in vs)], post[tuple(b[1][v] for v in vs)]
        return pa == pb, f"assignments of different probability {pa} vs {pb}"
    return a[1] == b[1], ""


def gen_history(kind):
    def gen(tier, seed):
        cnt = {"quick": 6, "thorough": 25}[tier]
        if kind in ("bp", "ci"):
            cnt = {"quick": 4, "thorough": 12}[tier]
        for i, js in enumerate(gen_specs(seed, "c16hist" + kind, cnt, 3, 4)):
            npool = len(_pool(O.spec_from_json(js), kind))
            for first in range(npool):
                yield {"engine": kind, "spec": js, "first": first, "depth": 3 if (tier != "quick" or kind == "ve") else 2, "oseed": seed + i}
    return gen


def _mk_engine(kind, spec, oseed):
    from pgmpy.inference import BeliefPropagation, CausalInference, VariableElimination
    from pgmpy.sampling import BayesianModelSampling

    m = build_bn(spec, O.mk_rng(oseed, "hist-order"), latents=[spec["nodes"][0]] if kind == "sampling" else ())
    return {"ve": VariableElimination, "bp": BeliefPropagation, "ci": CausalInference, "sampling": BayesianModelSampling}[kind](m), m


def check_history(case):
    kind = case["engine"]
    spec = O.spec_from_json(case["spec"])
    pool = _pool(spec, kind)
    fresh = {}
    for i, qq in enumerate(pool):
        e, _ = _mk_engine(kind, spec, case["oseed"])
        fresh[i] = _ask(e, spec, qq)
        e2, _ = _mk_engine(kind, spec, case["oseed"])
        again = _ask(e2, spec, qq)
        if not _same_answer(spec, qq, fresh[i], again)[0]:
            return {"key": "fresh-engines-disagree", "what": f"{kind}: two fresh engines answer {qq} differently: {fresh[i]} vs {again}"}
    fails = []
    depth = case["depth"]
    mids = [()] + [(j,) for j in range(len(pool))]
    if depth >= 3:
        mids += [(j, k) for j in range(len(pool)) for k in range(len(pool))]
    for mid in mids:
        hist = (case["first"],) + mid
        e, m = _mk_engine(kind, spec, case["oseed"])
        snap = deep(m)
        for h in hist:
            _ask(e, spec, pool[h])
        if deep(m) != snap:
            fails.append({"key": f"{kind}:history-mutates-model", "what": f"{kind}: the model changed after the questions {[pool[h] for h in hist]}"})
        asked = [pool[h] for h in hist]
        # finals without virtual evidence first: they are judged with `hist` as their only history
        for i, qq in sorted(enumerate(pool), key=lambda t: bool(t[1][1].get("virtual"))):
            got = _ask(e, spec, qq)
            ok, why = _same_answer(spec, qq, got, fresh[i])
            virt = any(x[1].get("virtual") for x in asked)
            asked.append(qq)
            if not ok:
                # the very same question asked again
                key = "engine-history:virtual_evidence" if virt else ("engine-history:same-question-twice" if all(h == i for h in hist) else "engine-history:answer-differs")
                fails.append({"key": key, "what": f"{kind}: after the questions {asked[:-1]} the question {qq} is answered {got}; a fresh engine answers {fresh[i]} {why}"})
                break
    if not pool[case["first"]][1].get("virtual"):
        # the confirmed virtual-evidence defect is reported by the cases whose first question carries virtual evidence only
        fails = [f for f in fails if f["key"] not in KNOWN]
    return _pick(fails)


# ----------------------------------------------------------------------------- (c) representation independence
TRANSFORMS = ("identity", "rename_tuple", "rename_int", "rename_states", "permute_states", "insertion", "all")


def transform_spec(spec, kind, rng):
    """(new spec, var map, state maps): a bijective relabelling; tables are rebuilt entry by entry from O.cpd_value."""
    nodes = list(spec["nodes"])
    vm = {v: v for v in nodes}
    sm = {v: {s: s for s in spec["states"][v]} for v in nodes}
    sorder = {v: list(spec["states"][v]) for v in nodes}
    porder = {v: list(spec["cpd"][v]["parents"]) for v in nodes}
    norder = list(nodes)
    if kind in ("rename_tuple", "all"):
        vm = {v: ("v", i, v) for i, v in enumerate(nodes)}
    if kind == "rename_int":
        ids = list(range(10, 10 + len(nodes)))
        rng.shuffle(ids)
        vm = {v: ids[i] for i, v in enumerate(nodes)}
    if kind in ("rename_states", "all"):
        for j, v in enumerate(nodes):
            if j % 3 == 0:
                sm[v] = {s: i * 7 % len(spec["states"][v]) + 100 for i, s in enumerate(spec["states"][v])}
                if len(set(sm[v].values())) != len(sm[v]):
                    sm[v] = {s: 100 + i for i, s in enumerate(spec["states"][v])}
            elif j % 3 == 1:
                sm[v] = {s: f"st<{i}>" for i, s in enumerate(spec["states"][v])}
            else:
                sm[v] = {s: (i if i % 2 else f"m{i}") for i, s in enumerate(spec["states"][v])}
    if kind in ("permute_states", "all"):
        for v in nodes:
            rng.shuffle(sorder[v])
    if kind in ("insertion", "all", "permute_states"):
        for v in nodes:
            rng.shuffle(porder[v])
        rng.shuffle(norder)
    new = {"nodes": [vm[v] for v in norder], "edges": [[vm[a], vm[b]] for a, b in spec["edges"]],
           "states": {vm[v]: [sm[v][s] for s in sorder[v]] for v in nodes}, "cpd": {}}
    for v in nodes:
        ps = porder[v]
        cols = list(itertools.product(*[sorder[p] for p in ps]))
        table = []
        for s in sorder[v]:
            table.append([O.cpd_value(spec, v, {v: s, **dict(zip(ps, combo))}) for combo in cols])
        new["cpd"][vm[v]] = {"parents": [vm[p] for p in ps], "table": table}
    return new, vm, sm


def gen_repr(tier, seed):
    cnt = {"quick": 5, "thorough": 12}[tier]
    for i, js in enumerate(gen_specs(seed, "c16repr", cnt, 3, 4, zeros=False)):
        for t in TRANSFORMS:
            yield {"spec": js, "transform": t, "tseed": seed * 100 + i}


def _tr_assign(assign, vm, sm):
    return {vm[v]: sm[v][s] for v, s in assign.items()}


def check_repr(case):
    from pgmpy.factors import factor_product
    from pgmpy.inference import BeliefPropagation, VariableElimination

    spec = O.spec_from_json(case["spec"])
    rng = O.mk_rng(case["tseed"], "repr", case["transform"])
    new, vm, sm = transform_spec(spec, case["transform"], rng)
    m = build_bn(new, rng if case["transform"] in ("insertion", "all") else None)
    nodes = list(spec["nodes"])
    t = case["transform"]
    fails = []
    qrng = O.mk_rng(case["tseed"], "repr-queries")
    plans = []
    for k in range(5):
        q, ev = _qe(spec, qrng, 1 + k % 2, k % 3 if len(nodes) > 3 else k % 2)
        if _possible_evidence(spec, ev):
            plans.append((q, ev))

    def expect(q, ev):
        post = O.posterior(spec, q, ev)
        return {frozenset((vm[v], sm[v][s]) for v, s in zip(q, key)): float(p) for key, p in post.items()}

    ve = VariableElimination(m)
    bp = BeliefPropagation(m)
    for q, ev in plans:
        want = expect(q, ev)
        tq, tev = [vm[v] for v in q], _tr_assign(ev, vm, sm)
        for nm, eng in (("VariableElimination.query", ve), ("BeliefPropagation.query", bp)):
            ok, r = _call(eng.query, list(tq), evidence=dict(tev), show_progress=False)
            if not ok:
                fails.append({"key": f"{nm}:{t}:raised:{type(r).__name__}", "what": f"{nm}({tq}, {tev}) on the relabelled model raised {r!r}"})
                continue
            got = fdict(r)
            if not same_fdict(got, want, 1e-8):
                fails.append({"key": f"{nm}:{t}:answer", "what": f"{nm}({tq}|{tev}) = {got}; oracle (relabelled) {want}"})
        ok, r = _call(ve.query, list(tq), evidence=dict(tev), elimination_order="MinFill", show_progress=False)
        if ok and not same_fdict(fdict(r), want, 1e-8):
            fails.append({"key": f"VariableElimination.query(MinFill):{t}:answer", "what": f"({tq}|{tev}) = {fdict(r)}; oracle {want}"})
        if not ok:
            fails.append({"key": f"VariableElimination.query(MinFill):{t}:raised:{type(r).__name__}", "what": f"({tq}|{tev}) raised {r!r}"})
        # MAP: probability of the returned assignment must be the oracle maximum
        for nm, eng in (("VariableElimination.map_query", ve), ("BeliefPropagation.map_query", bp)):
            ok, r = _call(eng.map_query, list(tq), evidence=dict(tev), show_progress=False)
            if not ok:
                fails.append({"key": f"{nm}:{t}:raised:{type(r).__name__}", "what": f"{nm}({tq}, {tev}) raised {r!r}"})
                continue
            k = frozenset(r.items())
            if k not in want or not O.close(want[k], max(want.values()), 1e-8):
                fails.append({"key": f"{nm}:{t}:answer", "what": f"{nm}({tq}|{tev}) = {r} with oracle probability {want.get(k)}; maximum is {max(want.values())}"})
    # probability of a partial assignment
    for q, ev in plans[:3]:
        full = {**ev, **{v: spec["states"][v][0] for v in q}}
        want = float(sum(O.marginal(spec, [], full).values()))
        ok, r = _call(m.get_state_probability, _tr_assign(full, vm, sm))
        if not ok:
            fails.append({"key": f"get_state_probability:{t}:raised:{type(r).__name__}", "what": f"{_tr_assign(full, vm, sm)} raised {r!r}"})
        elif not O.close(r, want, 1e-8):
            fails.append({"key": f"get_state_probability:{t}:answer", "what": f"{_tr_assign(full, vm, sm)} -> {r}; oracle {want}"})
    # factor algebra: product of all CPDs, marginalised onto one variable = oracle marginal; axis order is arbitrary
    facs = [c.to_factor() for c in m.cpds]
    ok, prod = _call(factor_product, *facs)
    if not ok:
        fails.append({"key": f"factor_product:{t}:raised:{type(prod).__name__}", "what": f"{prod!r}"})
    else:
        a, b = facs[0], facs[-1]
        ok2, ab = _call(lambda: a * b)
        ok3, ba = _call(lambda: b * a)
        if ok2 and ok3 and not same_fdict(fdict(ab), fdict(ba)):
            fails.append({"key": f"DiscreteFactor.product:{t}:not-commutative", "what": "a*b and b*a differ by named assignment"})
        for v in nodes[:2]:
            rest = [vm[u] for u in nodes if u != v]
            ok4, mg = _call(prod.marginalize, rest, inplace=False)
            want = expect([v], {})
            if not ok4:
                fails.append({"key": f"DiscreteFactor.marginalize:{t}:raised:{type(mg).__name__}", "what": f"{mg!r}"})
            elif not same_fdict(fdict(mg), want, 1e-8):
                fails.append({"key": f"DiscreteFactor.marginalize:{t}:answer", "what": f"marginal of {vm[v]}: {fdict(mg)} oracle {want}"})
            ev = {nodes[-1]: spec["states"][nodes[-1]][-1]}
            if v != nodes[-1] and _possible_evidence(spec, ev):
                ok5, rd = _call(lambda: prod.reduce([(vm[nodes[-1]], sm[nodes[-1]][ev[nodes[-1]]])], inplace=False).marginalize([u for u in rest if u != vm[nodes[-1]]], inplace=False).normalize(inplace=False))
                want = expect([v], ev)
                if not ok5:
                    fails.append({"key": f"DiscreteFactor.reduce:{t}:raised:{type(rd).__name__}", "what": f"{rd!r}"})
                elif not same_fdict(fdict(rd), want, 1e-8):
                    fails.append({"key": f"DiscreteFactor.reduce:{t}:answer", "what": f"P({vm[v]}|{ev}) {fdict(rd)} oracle {want}"})
    return _pick(fails, case["tseed"])


# ----------------------------------------------------------------------------- backend numpy vs torch
def torch_usable():
    try:
        import torch  # noqa

        return True
    except Exception:
        return False


def gen_backend(tier, seed):
    cnt = {"quick": 3, "thorough": 10}[tier]
    for i, js in enumerate(gen_specs(seed, "c16backend", cnt, 3, 4)):
        yield {"spec": js, "bseed": seed * 10 + i}


def check_backend(case):
    from pgmpy import config

    if not torch_usable():
        return None
    spec = O.spec_from_json(case["spec"])
    nodes = list(spec["nodes"])
    rng = O.mk_rng(case["bseed"], "backend")
    plans = []
    for k in range(4):
        q, ev = _qe(spec, rng, 1 + k % 2, k % 2)
        if _possible_evidence(spec, ev):
            plans.append((q, ev))

    def answers():
        from pgmpy.factors import factor_product
        from pgmpy.inference import VariableElimination

        m = build_bn(spec)
        out = {}
        ve = VariableElimination(m)
        for i, (q, ev) in enumerate(plans):
            out[f"VariableElimination.query#{i}"] = fdict(ve.query(list(q), evidence=dict(ev), show_progress=False))
            out[f"VariableElimination.query(MinFill)#{i}"] = fdict(ve.query(list(q), evidence=dict(ev), elimination_order="MinFill", show_progress=False))
        facs = [c.to_factor() for c in m.cpds]
        prod = factor_product(*facs)
        out["factor_product"] = fdict(prod)
        out["marginalize"] = fdict(prod.marginalize([nodes[0]], inplace=False))
        out["maximize"] = fdict(prod.maximize([nodes[0]], inplace=False))
        out["reduce"] = fdict(prod.reduce([(nodes[0], spec["states"][nodes[0]][-1])], inplace=False))
        out["normalize"] = fdict(facs[0].product(facs[-1], inplace=False).normalize(inplace=False))
        out["divide"] = fdict(prod.divide(facs[0].sum(0.5, inplace=False), inplace=False))
        out["sum"] = fdict(facs[0].sum(facs[-1], inplace=False))
        return out

    ref = answers()
    # numpy answers against the oracle (self-contained)
    for i, (q, ev) in enumerate(plans):
        post = O.posterior(spec, q, ev)
        want = {frozenset(zip(q, k)): float(p) for k, p in post.items()}
        if not same_fdict(ref[f"VariableElimination.query#{i}"], want, 1e-8):
            return {"key": "backend:numpy:answer", "what": f"numpy VE({q}|{ev}) {ref[f'VariableElimination.query#{i}']} oracle {want}"}
    fails = []
    try:
        config.set_backend("torch")
        ok, got = _call(answers)
    finally:
        config.set_backend("numpy")
    if config.get_backend() != "numpy":
        raise RuntimeError("backend not restored")
    if not ok:
        return {"key": f"backend:torch:raised:{type(got).__name__}", "what": f"{got!r}"}
    for k in ref:
        if not same_fdict(ref[k], got[k], 1e-5):
            fails.append({"key": f"backend:torch:{k.split('#')[0]}:answer", "what": f"{k}: numpy {ref[k]} torch {got[k]}"})
    # and back: numpy after torch gives the numpy answers again
    again = answers()
    for k in ref:
        if not same_fdict(ref[k], again[k], TOL):
            fails.append({"key": "backend:switch-not-reversible", "what": f"{k}: before {ref[k]} after switching back {again[k]}"})
    return _pick(fails)


# ----------------------------------------------------------------------------- virtual evidence listed in another state order
def gen_vstate(tier, seed):
    rng = O.mk_rng(seed, "c16-vstate")
    for k in range(16 if tier == "quick" else 80):
        n = rng.choice((2, 3))
        names = O.node_names(n, ("long", "x")[k % 2])
        # connected (BeliefPropagation refuses models whose clique tree is disconnected): a chain plus, for 3 nodes, sometimes the chord
        edges = [[names[i], names[i + 1]] for i in range(n - 1)] + ([[names[0], names[2]]] if n == 3 and rng.random() < 0.5 else [])
        cards = {v: rng.choice((2, 3, 3)) for v in names}
        spec = O.random_bn_spec(rng, names, edges, cards, ("str", "int")[k % 2], zeros=False)
        v = rng.choice(names)
        perm = list(range(cards[v]))
        while perm == sorted(perm):
            rng.shuffle(perm)
        yield {"spec": O.spec_to_json(spec), "var": v, "perm": perm, "lik": [str(Fraction(rng.randint(1, 9), 10)) for _ in range(cards[v])],
               "query": rng.choice([x for x in names if x != v])}


def check_vstate(case):
    """a virtual-evidence table that lists the variable's states in another order (with its own state_names) is the same evidence:
    it must give the same posterior as the model-order listing, or be refused with ValueError - never a silently different answer"""
    from pgmpy.factors.discrete import TabularCPD
    from pgmpy.inference import BeliefPropagation, VariableElimination

    import logging
    logging.getLogger("pgmpy").setLevel(logging.ERROR)
    spec = O.spec_from_json(case["spec"])
    v, q, perm = case["var"], case["query"], case["perm"]
    st = spec["states"][v]
    lik = [Fraction(x) for x in case["lik"]]           # likelihood of state i (model order)
    nodes = spec["nodes"]
    post = {}
    for a in O.all_assignments(spec, nodes):
        w = O.joint_prob(spec, a) * lik[st.index(a[v])]
        post[a[q]] = post.get(a[q], 0) + w
    tot = sum(post.values())
    m = O.make_bn(spec)
    for eng_cls in (VariableElimination, BeliefPropagation):
        for order in (list(range(len(st))), perm):
            ve = TabularCPD(v, len(st), [[float(lik[i])] for i in order], state_names={v: [st[i] for i in order]})
            try:
                res = eng_cls(m).query([q], virtual_evidence=[ve], show_progress=False)
            except ValueError:
                if order == perm:
                    continue      # refused: acceptable
                raise
            for i, sname in enumerate(res.state_names[q]):
                got, want = float(res.values[i]), float(post[sname] / tot)
                if abs(got - want) > 1e-9:
                    return {"key": f"virtual-evidence:state-order:{eng_cls.__name__}", "what": f"{eng_cls.__name__}.query([{q!r}], virtual evidence on {v!r} listed as "
                            f"{[st[i] for i in order]}): P({q}={sname!r}) = {got}, expected {want}"}
    return None


def groups(tier):
    gs = []
    for fam in FAMILIES:
        gs.append(Group(f"purity_{fam}", gen_purity(fam), check_purity, lambda c: True, engine="E3",
                        bound=f"family {fam}: 10/6 (40/20) seeded models on 3-5 nodes (multi-character names, cards 2-3, unsorted CPD list, unsorted parent "
                              "orders) + a sampled data frame; deep order-sensitive snapshot of every object passed in before/after each public call"))
    for kind in ("ve", "bp", "ci", "sampling"):
        gs.append(Group(f"history_{kind}", gen_history(kind), check_history, lambda c: True, engine="E3",
                        bound=f"engine {kind}: 6/4 (25/12) seeded models; every sequence of <= 2 (VE and thorough: 3) questions over the pool (6-9 questions incl. "
                              "virtual evidence, different evidence, MAP over all variables, max_marginal / calibrate), then every pool question, vs a fresh engine"))
    gs.append(Group("repr", gen_repr, check_repr, lambda c: True, seed_fanout=8 if tier == "quick" else 16, engine="E3",
                    bound="5 (12) seeded models x 7 relabellings (tuple / int variable names, int/str/mixed state names, permuted state lists, shuffled "
                          "node/edge/CPD/parent insertion orders, all together), 5 (query, evidence) plans each: VE/BP query, VE(MinFill), MAP value, "
                          "get_state_probability, factor product/marginalize/reduce vs exact Fraction oracle; each case under 8 (16) PYTHONHASHSEEDs"))
    gs.append(Group("virtual_state_order", gen_vstate, check_vstate, lambda c: True, engine="E3",
                    bound="16 (80) seeded 2-3 node networks: virtual evidence on one variable listed in model order and in a permuted state order "
                          "(own state_names), VariableElimination and BeliefPropagation: same posterior or ValueError"))
    gs.append(Group("backend", gen_backend, check_backend, lambda c: True, engine="E3",
                    bound=("numpy vs torch backend: 3 (10) models, VE queries (greedy, MinFill) and factor product/marginalize/maximize/reduce/normalize/divide/sum "
                           "within 1e-5; numpy backend restored in a finally block") if torch_usable() else "SKIPPED: torch is not importable"))
    return gs
