"""Spec functions written independently of pgmpy (pure python / Fractions / itertools).

Everything here is the *oracle* side of the bounded groups (E2/E3): it must never import
pgmpy algorithms to compute an expected answer.  `make_bn` etc. only *construct* pgmpy
objects from plain specs.

BN spec (JSON-able):
  {"nodes": [...], "edges": [[u,v],...], "states": {node: [state,...]},
   "cpd": {node: {"parents": [...], "table": [[p(state_i | parent config j) ...] ...]}}}
  columns j enumerate parent configurations in row-major order of "parents" (last parent fastest).
"""
from __future__ import annotations

import itertools
import random
from fractions import Fraction


# ----------------------------------------------------------------------------- graphs
def node_names(n, style="x"):
    if style == "x":
        return [f"x{i}" for i in range(n)]
    if style == "long":
        return ["alpha", "beta", "gamma", "delta", "epsilon", "zeta"][:n]
    if style == "int":
        return list(range(n))
    raise ValueError(style)


def is_acyclic(nodes, edges):
    indeg = {v: 0 for v in nodes}
    ch = {v: [] for v in nodes}
    for u, v in edges:
        indeg[v] += 1
        ch[u].append(v)
    stack = [v for v in nodes if indeg[v] == 0]
    seen = 0
    while stack:
        u = stack.pop()
        seen += 1
        for w in ch[u]:
            indeg[w] -= 1
            if indeg[w] == 0:
                stack.append(w)
    return seen == len(nodes)


def all_dags(n, names=None):
    """every labelled DAG on n nodes (1, 3, 25, 543, 29281 for n = 1..5) as edge lists."""
    names = names or node_names(n)
    pairs = list(itertools.combinations(range(n), 2))
    for orient in itertools.product((0, 1, 2), repeat=len(pairs)):
        edges = []
        for (i, j), o in zip(pairs, orient):
            if o == 1:
                edges.append((names[i], names[j]))
            elif o == 2:
                edges.append((names[j], names[i]))
        if is_acyclic(names, edges):
            yield [list(e) for e in edges]


def random_dag(rng, n, p=0.4, names=None):
    names = names or node_names(n)
    order = names[:]
    rng.shuffle(order)
    return [[order[i], order[j]] for i in range(n) for j in range(i + 1, n) if rng.random() < p]


def parents_of(edges, v):
    return [u for u, w in edges if w == v]


def children_of(edges, v):
    return [w for u, w in edges if u == v]


def ancestors_or_self(edges, S):
    res = set(S)
    stack = list(S)
    while stack:
        v = stack.pop()
        for u in parents_of(edges, v):
            if u not in res:
                res.add(u)
                stack.append(u)
    return res


def descendants_or_self(edges, S):
    res = set(S)
    stack = list(S)
    while stack:
        v = stack.pop()
        for u in children_of(edges, v):
            if u not in res:
                res.add(u)
                stack.append(u)
    return res


def topo_order(nodes, edges):
    nodes = list(nodes)
    indeg = {v: 0 for v in nodes}
    for u, v in edges:
        indeg[v] += 1
    out = []
    avail = [v for v in nodes if indeg[v] == 0]
    while avail:
        u = avail.pop(0)
        out.append(u)
        for a, b in edges:
            if a == u:
                indeg[b] -= 1
                if indeg[b] == 0:
                    avail.append(b)
    return out


def simple_trails(nodes, edges, x, y):
    """all simple paths x..y in the skeleton."""
    adj = {v: set() for v in nodes}
    for u, v in edges:
        adj[u].add(v)
        adj[v].add(u)
    out = []

    def rec(path):
        last = path[-1]
        if last == y:
            out.append(list(path))
            return
        for w in adj[last]:
            if w not in path:
                path.append(w)
                rec(path)
                path.pop()

    rec([x])
    return out


def trail_active(edges, trail, Z):
    """definition from the property statement: every non-collider on the trail is unobserved and
    every collider has an observed descendant-or-self."""
    E = {tuple(e) for e in edges}
    for i in range(1, len(trail) - 1):
        a, b, c = trail[i - 1], trail[i], trail[i + 1]
        collider = (a, b) in E and (c, b) in E
        if collider:
            if not (descendants_or_self(edges, [b]) & set(Z)):
                return False
        else:
            if b in Z:
                return False
    return True


def dconnected(nodes, edges, x, y, Z):
    """path-based d-connection (x, y not in Z)."""
    if x == y:
        return True
    return any(trail_active(edges, t, Z) for t in simple_trails(nodes, edges, x, y))


def dconnected_set(nodes, edges, x, Z):
    return {y for y in nodes if y not in Z and dconnected(nodes, edges, x, y, Z)}


def skeleton(edges):
    return {frozenset(e) for e in edges}


def vstructures(edges):
    E = {tuple(e) for e in edges}
    sk = skeleton(edges)
    out = set()
    nodes = {v for e in edges for v in e}
    for c in nodes:
        ps = parents_of(edges, c)
        for a, b in itertools.combinations(sorted(ps, key=repr), 2):
            if frozenset((a, b)) not in sk:
                out.add((frozenset((a, b)), c))
    return out


# ----------------------------------------------------------------------------- discrete BN specs
STATE_STYLES = ("int", "str", "mixed")


def state_names(node, card, style):
    if style == "int":
        return list(range(card))
    if style == "str":
        return [f"{node}_s{k}" for k in range(card)]
    if style == "mixed":
        return [(k if k % 2 == 0 else f"s{k}") for k in range(card)]
    if style == "perm":
        return list(reversed(range(card)))
    raise ValueError(style)


def random_column(rng, card, zeros=False, exact=True):
    """a probability column as Fractions (exact) with optional zero entries."""
    while True:
        w = [rng.randint(0 if zeros else 1, 6) for _ in range(card)]
        if sum(w) > 0:
            break
    tot = sum(w)
    return [Fraction(x, tot) for x in w]


def random_bn_spec(rng, nodes, edges, cards=None, style="str", zeros=False, parent_shuffle=True):
    cards = cards or {v: rng.choice((2, 2, 3)) for v in nodes}
    states = {str(v) if False else v: state_names(v, cards[v], style) for v in nodes}
    cpd = {}
    for v in nodes:
        ps = parents_of(edges, v)
        if parent_shuffle:
            rng.shuffle(ps)
        ncol = 1
        for p in ps:
            ncol *= cards[p]
        cols = [random_column(rng, cards[v], zeros) for _ in range(ncol)]
        table = [[cols[j][i] for j in range(ncol)] for i in range(cards[v])]
        cpd[v] = {"parents": ps, "table": table}
    return {"nodes": list(nodes), "edges": [list(e) for e in edges], "states": states, "cpd": cpd}


def spec_to_json(spec):
    """Fractions -> 'a/b' strings so that the case is JSON-able and exactly replayable."""
    out = dict(spec)
    out["cpd"] = {v: {"parents": c["parents"], "table": [[str(x) for x in row] for row in c["table"]]} for v, c in spec["cpd"].items()}
    return out


def spec_from_json(js):
    out = dict(js)
    out["cpd"] = {v: {"parents": c["parents"], "table": [[Fraction(x) for x in row] for row in c["table"]]} for v, c in js["cpd"].items()}
    return out


def col_index(spec, parents, assignment):
    """row-major column index of the parent configuration in `assignment` (node -> state name)."""
    j = 0
    for p in parents:
        st = spec["states"][p]
        j = j * len(st) + st.index(assignment[p])
    return j


def cpd_value(spec, v, assignment):
    c = spec["cpd"][v]
    return c["table"][spec["states"][v].index(assignment[v])][col_index(spec, c["parents"], assignment)]


def joint_prob(spec, assignment):
    p = Fraction(1)
    for v in spec["nodes"]:
        p *= cpd_value(spec, v, assignment)
    return p


def all_assignments(spec, variables):
    variables = list(variables)
    for combo in itertools.product(*[spec["states"][v] for v in variables]):
        yield dict(zip(variables, combo))


def marginal(spec, query, evidence=None, weight=None):
    """unnormalised P(query, evidence) as dict tuple(states of query) -> Fraction, by brute force.
    weight(assignment) -> extra multiplicative factor (virtual evidence)."""
    evidence = evidence or {}
    rest = [v for v in spec["nodes"] if v not in query and v not in evidence]
    out = {}
    for qa in all_assignments(spec, query):
        tot = Fraction(0)
        for ra in all_assignments(spec, rest):
            a = {**qa, **ra, **evidence}
            p = joint_prob(spec, a)
            if weight is not None:
                p *= weight(a)
            tot += p
        out[tuple(qa[v] for v in query)] = tot
    return out


def posterior(spec, query, evidence=None, weight=None):
    m = marginal(spec, query, evidence, weight)
    z = sum(m.values())
    if z == 0:
        return None
    return {k: v / z for k, v in m.items()}


# ----------------------------------------------------------------------------- building pgmpy objects from specs
def make_cpd(spec, v, dtype=float):
    from pgmpy.factors.discrete import TabularCPD

    c = spec["cpd"][v]
    ps = c["parents"]
    sn = {v: list(spec["states"][v])}
    for p in ps:
        sn[p] = list(spec["states"][p])
    return TabularCPD(v, len(spec["states"][v]), [[dtype(x) for x in row] for row in c["table"]],
                      evidence=ps or None, evidence_card=[len(spec["states"][p]) for p in ps] or None, state_names=sn)


def make_bn(spec, latents=(), cls=None):
    from pgmpy.models import BayesianNetwork

    cls = cls or BayesianNetwork
    m = cls([tuple(e) for e in spec["edges"]], latents=set(latents)) if latents else cls([tuple(e) for e in spec["edges"]])
    m.add_nodes_from(spec["nodes"])
    m.add_cpds(*[make_cpd(spec, v) for v in spec["nodes"]])
    return m


def factor_value(phi, assignment):
    """value of a DiscreteFactor at a *named* assignment (uses only public accessors)."""
    idx = tuple(phi.state_names[v].index(assignment[v]) for v in phi.variables)
    return float(phi.values[idx])


def close(a, b, tol=1e-9):
    return abs(float(a) - float(b)) <= tol * max(1.0, abs(float(a)), abs(float(b)))


def mk_rng(seed, *salt):
    return random.Random(f"{seed}:{':'.join(map(str, salt))}")
