"""C17 bounded groups (E3): DynamicBayesianNetwork / DBNInference vs. an independently unrolled network.

Template spec (JSON-able), a two-slice temporal Bayesian network:
  {"vars": [[name, [state,...]],...],
   "intra": [[u,v],...]            edges (u,t)->(v,t), the same in every slice
   "inter": [[u,v],...]            edges (u,t-1)->(v,t)
   "cpd0": {v: {"parents": [[u,0],...], "table": [['a/b',...],...]}}     slice 0 (prior network)
   "cpd1": {v: {"parents": [[u,dt],...], "table": ...}}                   slice t>=1; dt=0: previous slice, dt=1: same slice
   "named": bool                   state names passed to pgmpy (else the default 0..k-1 are used and "vars" lists range(k))
   "explicit": bool                slice-1 CPDs of variables without inter-slice parents are passed explicitly
                                   (else they are left to initialize_initial_state)
   "edge_order", "cpd_order"       insertion orders (adversarial bookkeeping)}
columns of "table" enumerate parent configurations row-major in the order of "parents" (last fastest).

The oracle side unrolls the template itself (nodes (v,t), slice 0 from cpd0, slice t>=1 from cpd1) and computes
exact posteriors with a small Fraction-valued variable elimination (cross-checked against full enumeration of the
joint whenever the joint has <= 4000 entries).  No pgmpy algorithm is used for expected values.
"""
from __future__ import annotations

import itertools
import math
from fractions import Fraction

from vf.core import Group
from vf.bounded import oracles as O

TOL = 1e-8


# ----------------------------------------------------------------------------- spec side
def tpl_states(tpl):
    return {v: list(s) for v, s in tpl["vars"]}


def _cpd_factor(var_node, parent_nodes, states_of, table):
    """(scope, dict) from a CPD table; scope = [var]+parents (node keys), states_of(node) -> list."""
    scope = [var_node] + list(parent_nodes)
    tab = {}
    pstates = [states_of(p) for p in parent_nodes]
    cols = list(itertools.product(*pstates))
    vs = states_of(var_node)
    assert len(table) == len(vs) and all(len(r) == len(cols) for r in table), "malformed CPD table in the case"
    for i, s in enumerate(vs):
        for j, c in enumerate(cols):
            tab[(s,) + tuple(c)] = Fraction(table[i][j])
    return scope, tab


def unroll(tpl, T):
    """factors of the network unrolled over slices 0..T; nodes are (name, t) tuples."""
    st = tpl_states(tpl)
    so = lambda node: st[node[0]]  # noqa
    facs = []
    for t in range(T + 1):
        for v, _ in tpl["vars"]:
            if t == 0:
                c = tpl["cpd0"][v]
                ps = [(u, 0) for u, _z in c["parents"]]
            else:
                c = tpl["cpd1"][v]
                ps = [(u, t - 1 + dt) for u, dt in c["parents"]]
            facs.append(_cpd_factor((v, t), ps, so, c["table"]))
    return facs


def _mult(f1, f2, states_of):
    s1, t1 = f1
    s2, t2 = f2
    scope = list(s1) + [v for v in s2 if v not in s1]
    i1 = [scope.index(v) for v in s1]
    i2 = [scope.index(v) for v in s2]
    out = {}
    for combo in itertools.product(*[states_of(v) for v in scope]):
        a = t1[tuple(combo[i] for i in i1)]
        out[combo] = a * t2[tuple(combo[i] for i in i2)] if a != 0 else Fraction(0)
    return scope, out


def _sumout(f, var):
    s, t = f
    k = s.index(var)
    scope = s[:k] + s[k + 1:]
    out = {}
    for key, x in t.items():
        kk = key[:k] + key[k + 1:]
        out[kk] = out.get(kk, Fraction(0)) + x
    return scope, out


def _reduce(f, ev):
    s, t = f
    hit = [(i, ev[v]) for i, v in enumerate(s) if v in ev]
    if not hit:
        return f
    keep = [i for i, v in enumerate(s) if v not in ev]
    out = {}
    for key, x in t.items():
        if all(key[i] == val for i, val in hit):
            out[tuple(key[i] for i in keep)] = x
    return [s[i] for i in keep], out


def ve_marginal(facs, states_of, query, evidence):
    """unnormalised P(query, evidence) by variable elimination over Fractions; query: list of nodes."""
    fs = [_reduce(f, evidence) for f in facs]
    allv = {v for s, _ in fs for v in s}
    elim = [v for v in allv if v not in query]
    while elim:
        # greedy: smallest resulting scope
        def cost(v):
            sc = set()
            for s, _ in fs:
                if v in s:
                    sc |= set(s)
            return len(sc)

        v = min(sorted(elim, key=repr), key=cost)
        elim.remove(v)
        touching = [f for f in fs if v in f[0]]
        fs = [f for f in fs if v not in f[0]]
        prod = touching[0]
        for f in touching[1:]:
            prod = _mult(prod, f, states_of)
        fs.append(_sumout(prod, v))
    prod = ([], {(): Fraction(1)})
    for f in fs:
        prod = _mult(prod, f, states_of)
    s, t = prod
    idx = [s.index(v) for v in query]
    return {tuple(k[i] for i in idx): x for k, x in t.items()}


def brute_marginal(facs, states_of, query, evidence):
    allv = sorted({v for s, _ in facs for v in s}, key=repr)
    out = {}
    for combo in itertools.product(*[states_of(v) for v in allv]):
        a = dict(zip(allv, combo))
        if any(a[v] != s for v, s in evidence.items()):
            continue
        p = Fraction(1)
        for s, t in facs:
            p *= t[tuple(a[v] for v in s)]
            if p == 0:
                break
        k = tuple(a[v] for v in query)
        out[k] = out.get(k, Fraction(0)) + p
    return out


def spec_posterior(tpl, T, query, evidence):
    """exact P(query | evidence) in the network unrolled to slice T (None if the evidence has probability 0)."""
    st = tpl_states(tpl)
    so = lambda node: st[node[0]]  # noqa
    facs = unroll(tpl, T)
    m = ve_marginal(facs, so, list(query), dict(evidence))
    size = 1
    for v, s in tpl["vars"]:
        size *= len(s) ** (T + 1)
    if size <= 4000:
        b = brute_marginal(facs, so, list(query), dict(evidence))
        for k in itertools.product(*[so(v) for v in query]):
            assert m.get(k, Fraction(0)) == b.get(k, Fraction(0)), "oracle self-check: elimination != enumeration"
    z = sum(m.values())
    if z == 0:
        return None
    return {k: x / z for k, x in m.items()}


# ----------------------------------------------------------------------------- pgmpy side
def _tabular(node, parents, tpl, table):
    from pgmpy.factors.discrete import TabularCPD

    st = tpl_states(tpl)
    kw = {}
    if tpl["named"]:
        kw["state_names"] = {n: list(st[n[0]]) for n in [node] + parents}
    vals = [[float(Fraction(x)) for x in row] for row in table]
    return TabularCPD(node, len(st[node[0]]), vals, evidence=parents or None,
                      evidence_card=[len(st[p[0]]) for p in parents] or None, **kw)


def needs_copy(tpl):
    """variables whose slice-1 CPD is left to initialize_initial_state."""
    if tpl["explicit"]:
        return []
    tgt = {v for _, v in tpl["inter"]}
    return [v for v, _ in tpl["vars"] if v not in tgt]


def build_dbn(tpl, complete=True):
    """-> (dbn, failure or None). The DBN gets all slice-0 CPDs and the slice-1 CPDs per 'explicit'."""
    from pgmpy.models import DynamicBayesianNetwork as DBN

    dbn = DBN()
    dbn.add_nodes_from([v for v, _ in tpl["vars"]])
    for kind, u, v in tpl["edge_order"]:
        dbn.add_edge((u, 0), (v, 0 if kind == "intra" else 1))
    have = {tuple(n) for n in dbn.nodes()}
    missing = [(v, s) for v, _ in tpl["vars"] for s in (0, 1) if (v, s) not in have]
    if missing:
        return dbn, {"key": "add_edge:missing-slice-node", "what": f"after adding nodes {[v for v, _ in tpl['vars']]} and edges {tpl['edge_order']} the network has no node {missing} "
                     "(a variable that is only the source of inter-slice edges exists in slice 0 only), so the template cannot be given its CPDs"}
    skip = set(needs_copy(tpl))
    cpds = []
    for v, sl in tpl["cpd_order"]:
        if sl == 0:
            c = tpl["cpd0"][v]
            cpds.append(_tabular((v, 0), [(u, 0) for u, _z in c["parents"]], tpl, c["table"]))
        elif v not in skip:
            c = tpl["cpd1"][v]
            cpds.append(_tabular((v, 1), [(u, dt) for u, dt in c["parents"]], tpl, c["table"]))
    dbn.add_cpds(*cpds)
    if not complete:
        return dbn, None
    return dbn, run_initialize(dbn, tpl)


def _input_class_init(tpl):
    """which documented-suspect input class of initialize_initial_state the template falls in."""
    st = tpl_states(tpl)
    cls = []
    for v in needs_copy(tpl):
        if not tpl["cpd0"][v]["parents"] and len(st[v]) != 2:
            cls.append("root-card-not-2")
    return cls


def run_initialize(dbn, tpl):
    """call initialize_initial_state and compare every CPD of the model with the template by named assignment."""
    given = {(c.variable[0], c.variable[1]): [x[0] for x in c.variables[1:]] for c in dbn.cpds}
    try:
        dbn.initialize_initial_state()
    except Exception as e:  # noqa
        cls = _input_class_init(tpl)
        tag = (cls[0] + ":") if cls else ""
        return {"key": f"initialize_initial_state:{tag}raised:{type(e).__name__}",
                "what": f"initialize_initial_state() raised {type(e).__name__}: {str(e)[:300]} (variables left to it: {needs_copy(tpl)})"}
    soft = None
    for v, _ in tpl["vars"]:
        for sl in (0, 1):
            cpd = None
            for c in dbn.cpds:
                if tuple(c.variable) == (v, sl):
                    if cpd is not None:
                        return {"key": "initialize_initial_state:duplicate-cpd", "what": f"two CPDs for {(v, sl)}"}
                    cpd = c
            if cpd is None:
                return {"key": "initialize_initial_state:missing-cpd", "what": f"no CPD for {(v, sl)} after initialize_initial_state()"}
            c = tpl["cpd0"][v] if sl == 0 else tpl["cpd1"][v]
            parents = [(u, 0) for u, _z in c["parents"]] if sl == 0 else [(u, dt) for u, dt in c["parents"]]
            copied = (v, sl) not in given
            who = "copied" if copied else "given"
            bad = compare_cpd(cpd, (v, sl), parents, tpl, c["table"])
            if bad:
                kind, msg = bad
                if kind == "state-names":
                    soft = soft or {"key": f"initialize_initial_state:{who}:state-names", "what": f"CPD of {(v, sl)} ({who}): {msg}"}
                    continue
                sub = ""
                if copied and kind in ("values", "cardinality"):
                    # diagnosis: same numbers but columns in the order of get_parents() instead of the source CPD's evidence order?
                    src = given.get((v, 1 - sl))
                    if src is not None and [x[0] for x in cpd.variables[1:]] != src:
                        sub = ":parent-order"
                return {"key": f"initialize_initial_state:{who}{sub}:{kind}", "what": f"CPD of {(v, sl)} ({who}): {msg}"}
    return soft


def compare_cpd(cpd, node, parents, tpl, table, rename=None):
    """TabularCPD vs. template table by named assignment. -> None | (kind, message).
    If the CPD carries default state names although the template is named, values are compared positionally and the
    (soft) kind 'state-names' is returned when they agree."""
    st = tpl_states(tpl)
    rename = rename or (lambda n: n)
    want_scope = [rename(node)] + [rename(p) for p in parents]
    got_scope = [x if isinstance(x, str) else tuple(x) for x in cpd.variables]
    if got_scope[0] != want_scope[0] or set(got_scope) != set(want_scope) or len(got_scope) != len(want_scope):
        return "scope", f"variables {got_scope}, expected {want_scope[0]} | {want_scope[1:]}"
    base = {rename(n): n[0] for n in [node] + parents}
    names_ok = all(list(cpd.state_names[g]) == list(st[base[g]]) for g in got_scope)
    vals = cpd.values  # n-d array, axes in the order of cpd.variables
    _, tab = _cpd_factor(node, parents, lambda n: st[n[0]], table)
    shape = tuple(len(st[base[g]]) for g in got_scope)
    if tuple(vals.shape) != shape or tuple(int(c) for c in cpd.cardinality) != shape:
        return "cardinality", f"values have shape {tuple(vals.shape)}, cardinality {list(cpd.cardinality)}; the template gives {dict(zip(got_scope, shape))}"
    for idx in itertools.product(*[range(k) for k in shape]):
        a = {g: st[base[g]][i] for g, i in zip(got_scope, idx)}
        want = tab[tuple(a[rename(n)] for n in [node] + parents)]
        if abs(float(vals[idx]) - float(want)) > TOL:
            return "values", f"P({got_scope[0]}={a[got_scope[0]]!r} | {dict((g, a[g]) for g in got_scope[1:])}) = {float(vals[idx])!r}, template says {want}"
    if not names_ok:
        return "state-names", f"state names {dict((g, cpd.state_names[g]) for g in got_scope)} but the template names them {dict((g, st[base[g]]) for g in got_scope)}"
    return None


# ----------------------------------------------------------------------------- template classes
def tclass(tpl):
    return "self-inter" if all(u == v for u, v in tpl["inter"]) else "cross-inter"


def interface_vars(tpl):
    return {u for u, _ in tpl["inter"]}


def isolated_vars(tpl):
    touched = {x for e in tpl["intra"] for x in e}
    return [v for v, _ in tpl["vars"] if v not in touched]


def evclass(tpl, evidence):
    if not evidence:
        return "no-evidence"
    iface = interface_vars(tpl) | {v for _, v in tpl["inter"]}
    return "interface-evidence" if any(v in iface for (v, _t) in evidence) else "evidence"


# ----------------------------------------------------------------------------- inference check
def _marg_values(phi, node, tpl):
    """-> (dict state->float by name or None, list positional, names_ok)."""
    st = tpl_states(tpl)[node[0]]
    vals = [float(x) for x in phi.values.reshape(-1)]
    names = list(phi.state_names[phi.variables[0]])
    return vals, names == list(st)


def case_class(tpl, evidence):
    """the most suspect input class present in the case (the keys of the inference groups are per class, so that a defect
    of one class can be listed without hiding failures in the healthy core)."""
    nm = ":named" if tpl["named"] and evidence else ""  # evidence given by state name
    if tclass(tpl) == "cross-inter":
        return "cross-inter" + nm
    if evclass(tpl, evidence) == "interface-evidence":
        return "interface-evidence" + nm
    if tpl["named"] and evidence:
        return "named-evidence"
    return "core"


def _prepare(case):
    from pgmpy.inference import DBNInference

    tpl = case["tpl"]
    dbn, fail = build_dbn(tpl)
    if fail and not fail["key"].endswith("state-names"):
        if not fail["key"].startswith("initialize_initial_state") or tpl["explicit"]:
            return None, fail, None
        # completion of the initial state failed: report that at the end, and run the inference checks on the
        # same template with all CPDs given explicitly
        dbn, fail2 = build_dbn(dict(tpl, explicit=True))
        if fail2 and not fail2["key"].endswith("state-names"):
            return None, fail2, None
    try:
        inf = DBNInference(dbn)
    except Exception as e:  # noqa
        tag = "no-intra-edge-variable:" if isolated_vars(tpl) else ""
        return None, {"key": f"DBNInference.init:{tag}raised:{type(e).__name__}", "what": f"DBNInference(dbn) raised {type(e).__name__}: {str(e)[:200]}"}, None
    return inf, None, fail


def _ask(inf, case, mode, variables, label, soft):
    """one request against the unrolled network. -> failure dict or None; soft: list collecting state-name findings."""
    tpl, evidence = case["tpl"], {(v, t): s for v, t, s in case["evidence"]}
    st = tpl_states(tpl)
    fn = "query" if mode in ("query", "backward_inference") else "forward_inference"
    tmax = max([t for _, t in variables] + [t for (_, t) in evidence])
    desc = f"{mode}({variables}, evidence={case['evidence']})"
    try:
        res = getattr(inf, mode)([tuple(v) for v in variables], dict(evidence) if evidence else None)
    except Exception as e:  # noqa
        return {"key": f"{fn}:{label}:raised:{type(e).__name__}", "what": f"{desc} raised {type(e).__name__}: {str(e)[:200]}"}
    if not isinstance(res, dict) or {tuple(k) for k in res} != {tuple(v) for v in variables}:
        return {"key": f"{fn}:{label}:keys", "what": f"{desc} returned keys {list(res) if isinstance(res, dict) else type(res)}"}
    for node in variables:
        node = tuple(node)
        if fn == "forward_inference":
            ev = {k: s for k, s in evidence.items() if k[1] <= node[1]}  # filtering: evidence up to the slice of the variable
            tt = max([node[1]] + [t for (_, t) in ev])
        else:
            ev, tt = evidence, tmax
        want = spec_posterior(tpl, tt, [node], ev)
        if want is None:
            continue
        phi = [f for k, f in res.items() if tuple(k) == node][0]
        if [tuple(x) for x in phi.variables] != [node] or int(phi.cardinality[0]) != len(st[node[0]]):
            return {"key": f"{fn}:{label}:scope", "what": f"{desc}: factor for {node} has scope {phi.variables} card {phi.cardinality}"}
        vals, names_ok = _marg_values(phi, node, tpl)
        for i, s in enumerate(st[node[0]]):
            w = float(want[(s,)])
            if math.isnan(vals[i]) or abs(vals[i] - w) > TOL:
                filt = " (filtering: evidence of slices <= %d)" % node[1] if fn == "forward_inference" else ""
                return {"key": f"{fn}:{label}:values",
                        "what": f"{desc}: P({node}){filt} = {vals}, unrolled network gives {[str(want[(x,)]) for x in st[node[0]]]} = {[float(want[(x,)]) for x in st[node[0]]]}"}
        if not names_ok and not soft:
            soft.append({"key": "result-state-names", "what": f"{desc}: factor for {node} names its states {phi.state_names[phi.variables[0]]}, the model names them {st[node[0]]}"})
    return None


def check_inference(case):
    """every (variable, slice) alone, then all variables of one slice together."""
    inf, fail, soft0 = _prepare(case)
    if fail:
        return fail
    tpl, T = case["tpl"], case["T"]
    evidence = {(v, t): s for v, t, s in case["evidence"]}
    label = case_class(tpl, evidence)
    soft = [soft0] if soft0 else []
    nodes = [(v, t) for t in range(T + 1) for v, _ in tpl["vars"] if (v, t) not in evidence]
    # filtering first: it is healthy for more input classes than smoothing, and a check returns its first failure
    for node in nodes:
        r = _ask(inf, case, "forward_inference", [node], label, soft)
        if r:
            return r
    for i, node in enumerate(nodes):
        r = _ask(inf, case, ("query", "backward_inference")[i % 2], [node], label, soft)
        if r:
            return r
    for t in range(T + 1):
        vs = [n for n in nodes if n[1] == t]
        if len(vs) > 1:
            for mode in ("forward_inference", "query"):
                r = _ask(inf, case, mode, vs[::-1] if t % 2 else vs, label + ":same-slice", soft)
                if r:
                    return r
    return soft[0] if soft else None


def check_inference_multi(case):
    """variables of several slices in one request."""
    inf, fail, _ = _prepare(case)
    if fail:
        return fail
    tpl, T = case["tpl"], case["T"]
    evidence = {(v, t): s for v, t, s in case["evidence"]}
    label = case_class(tpl, evidence)
    nodes = [(v, t) for t in range(T + 1) for v, _ in tpl["vars"] if (v, t) not in evidence]
    soft = [True]
    picks = [[n for n in nodes if n[1] in (0, T)][:4], nodes[::2][:4], nodes]
    for mode in ("forward_inference", "query"):
        for vs in picks:
            if len({t for _, t in vs}) > 1:
                r = _ask(inf, case, mode, vs, "multi-slice" + ("" if label == "core" else ":" + label), soft)
                if r:
                    return r
    return None


# ----------------------------------------------------------------------------- model-level checks
def check_initialize(case):
    """initialize_initial_state: CPDs copied to the other slice are unchanged (any cardinality, any parent order)."""
    tpl = case["tpl"]
    dbn, fail = build_dbn(tpl)
    if fail:
        return fail
    # structural accessors against the template
    want_if0 = {(u, 0) for u, _ in tpl["inter"]}
    want_if1 = {(v, 1) for _, v in tpl["inter"]}
    got0, got1 = {tuple(x) for x in dbn.get_interface_nodes(0)}, {tuple(x) for x in dbn.get_interface_nodes(1)}
    if got0 != want_if0 or got1 != want_if1:
        return {"key": "get_interface_nodes:result", "what": f"interface nodes {got0} / {got1}, expected {want_if0} / {want_if1}"}
    for sl in (0, 1, 3):
        got = {(tuple(a), tuple(b)) for a, b in dbn.get_intra_edges(sl)}
        want = {((u, sl), (v, sl)) for u, v in tpl["intra"]}
        if got != want:
            return {"key": "get_intra_edges:result", "what": f"slice {sl}: {got} expected {want}"}
    got = {(tuple(a), tuple(b)) for a, b in dbn.get_inter_edges()}
    if got != {((u, 0), (v, 1)) for u, v in tpl["inter"]}:
        return {"key": "get_inter_edges:result", "what": f"{got}"}
    want_edges = {((u, s), (v, s)) for u, v in tpl["intra"] for s in (0, 1)} | {((u, 0), (v, 1)) for u, v in tpl["inter"]}
    if {(tuple(a), tuple(b)) for a, b in dbn.edges()} != want_edges:
        return {"key": "add_edge:edges", "what": f"edges {sorted(dbn.edges())} expected {sorted(want_edges)}"}
    # second call must not change anything
    before = {tuple(c.variable): c.get_values().copy() for c in dbn.cpds}
    dbn.initialize_initial_state()
    after = {tuple(c.variable): c.get_values() for c in dbn.cpds}
    if set(before) != set(after) or len(dbn.cpds) != len(before) or any(abs(before[k] - after[k]).max() > 0 for k in before):
        return {"key": "initialize_initial_state:not-idempotent", "what": "second call changed the CPDs"}
    return None


def check_constant_bn(case):
    """get_constant_bn(t_slice): a BayesianNetwork over '{var}_{time}' exposing the template's CPDs unchanged."""
    tpl = case["tpl"]
    dbn, fail = build_dbn(dict(tpl, explicit=True), complete=False)
    if fail:
        return fail
    soft = None
    deg = {}
    for a, b in dbn.edges():
        deg[tuple(a)] = deg[tuple(b)] = 1
    edgeless = [tuple(n) for n in dbn.nodes() if tuple(n) not in deg]
    for ts in case.get("t_slices", (0, 1)):
        nm = lambda n: f"{n[0]}_{n[1] + ts}"  # noqa
        try:
            bn = dbn.get_constant_bn(t_slice=ts)
        except Exception as e:  # noqa
            return {"key": f"get_constant_bn:{'edgeless-node:' if edgeless else ''}raised:{type(e).__name__}", "what": f"get_constant_bn(t_slice={ts}) raised {type(e).__name__}: {str(e)[:200]}"}
        want_edges = {(nm((u, s)), nm((v, s))) for u, v in tpl["intra"] for s in (0, 1)} | {(nm((u, 0)), nm((v, 1))) for u, v in tpl["inter"]}
        if {tuple(e) for e in bn.edges()} != want_edges:
            return {"key": "get_constant_bn:edges", "what": f"t_slice={ts}: edges {sorted(bn.edges())}, expected {sorted(want_edges)}"}
        if len(bn.cpds) != 2 * len(tpl["vars"]):
            return {"key": "get_constant_bn:cpd-count", "what": f"t_slice={ts}: {len(bn.cpds)} CPDs for {2 * len(tpl['vars'])} nodes"}
        for v, _ in tpl["vars"]:
            for sl in (0, 1):
                c = tpl["cpd0"][v] if sl == 0 else tpl["cpd1"][v]
                parents = [(u, 0) for u, _z in c["parents"]] if sl == 0 else [(u, dt) for u, dt in c["parents"]]
                cpd = bn.get_cpds(nm((v, sl)))
                if cpd is None:
                    return {"key": "get_constant_bn:missing-cpd", "what": f"t_slice={ts}: no CPD for {nm((v, sl))}"}
                bad = compare_cpd(cpd, (v, sl), parents, tpl, c["table"], rename=nm)
                if bad:
                    if bad[0] == "state-names":
                        soft = soft or {"key": "get_constant_bn:state-names", "what": f"t_slice={ts}, CPD of {nm((v, sl))}: {bad[1]}"}
                        continue
                    return {"key": f"get_constant_bn:{bad[0]}", "what": f"t_slice={ts}, CPD of {nm((v, sl))}: {bad[1]}"}
        # the template itself must be untouched
        for c in dbn.cpds:
            if not all(isinstance(x, tuple) or hasattr(x, "to_tuple") for x in c.variables):
                return {"key": "get_constant_bn:mutated-template", "what": f"template CPD scope is now {c.variables}"}
    return soft


# ----------------------------------------------------------------------------- generators
VAR_NAMES = ["Zed", "x", "Yy"]


def _col(rng, card, zeros):
    return O.random_column(rng, card, zeros=zeros)


def _table(rng, card, ncol, zeros):
    cols = [_col(rng, card, zeros and rng.random() < 0.3) for _ in range(ncol)]
    return [[str(cols[j][i]) for j in range(ncol)] for i in range(card)]


def _permute_parents(table, parents, cards, new_parents):
    """the same CPD expressed with another parent order."""
    old_cols = list(itertools.product(*[range(cards[p]) for p in parents]))
    new_cols = list(itertools.product(*[range(cards[p]) for p in new_parents]))
    out = []
    for row in table:
        r = []
        for nc in new_cols:
            a = dict(zip(new_parents, nc))
            r.append(row[old_cols.index(tuple(a[p] for p in parents))])
        out.append(r)
    return out


def make_template(rng, nvars, n_iface, cross, named, explicit, cards=None, zeros=False, isolated_ok=False, style=None):
    names = VAR_NAMES[:nvars]
    order = names[:]
    rng.shuffle(order)
    cards = cards or {v: rng.choice((2, 3)) for v in names}
    if len(set(cards.values())) == 1 and nvars > 1:
        cards[order[0]] = 5 - cards[order[0]]
    # intra-slice DAG: random, every variable touched by an intra edge unless isolated_ok
    for _ in range(50):
        intra = [[order[i], order[j]] for i in range(nvars) for j in range(i + 1, nvars) if rng.random() < 0.6]
        touched = {x for e in intra for x in e}
        if isolated_ok or len(touched) == nvars:
            break
    else:
        intra = [[order[i], order[i + 1]] for i in range(nvars - 1)]
    if cross:
        pairs = [[u, v] for u in names for v in names]
        rng.shuffle(pairs)
        inter = []
        for u, v in pairs:
            if len({a for a, _ in inter} | {u}) <= n_iface and (u != v or rng.random() < 0.7):
                inter.append([u, v])
            if len(inter) >= n_iface + 1:
                break
        if all(u == v for u, v in inter):
            u = inter[0][0]
            others = [v for v in names if v != u]
            if others:
                inter.append([u, rng.choice(others)])
    else:
        inter = [[v, v] for v in rng.sample(names, min(n_iface, nvars))]
    # a variable without any edge would only exist in slice 0 (add_node creates (v,0) only): give it a persistence edge
    for v in names:
        if not any(v in e for e in intra) and not any(v in e for e in inter):
            inter.append([v, v])
    style = style or ("str" if named else "int")
    vars_ = [[v, O.state_names(v, cards[v], style) if named else list(range(cards[v]))] for v in names]
    cpd0, cpd1 = {}, {}
    keyc = {}
    for v in names:
        p0 = [u for u, w in intra if w == v]
        rng.shuffle(p0)
        ncol = 1
        for p in p0:
            ncol *= cards[p]
        t0 = _table(rng, cards[v], ncol, zeros)
        cpd0[v] = {"parents": [[u, 0] for u in p0], "table": t0}
        pin = [u for u, w in inter if w == v]
        if pin:
            p1 = [[u, 1] for u in p0] + [[u, 0] for u in pin]
            rng.shuffle(p1)
            ncol = 1
            for u, _dt in p1:
                ncol *= cards[u]
            cpd1[v] = {"parents": p1, "table": _table(rng, cards[v], ncol, zeros)}
        else:
            # same conditional distribution as in slice 0, written with another parent order
            q = p0[:]
            rng.shuffle(q)
            cpd1[v] = {"parents": [[u, 1] for u in q], "table": _permute_parents(t0, p0, cards, q)}
    edge_order = [["intra", u, v] for u, v in intra] + [["inter", u, v] for u, v in inter]
    rng.shuffle(edge_order)
    cpd_order = [[v, s] for v in names for s in (0, 1)]
    rng.shuffle(cpd_order)
    return {"vars": vars_, "intra": intra, "inter": inter, "cpd0": cpd0, "cpd1": cpd1, "named": named, "explicit": explicit,
            "edge_order": edge_order, "cpd_order": cpd_order}


def _evidence(rng, tpl, T, kind):
    """kind: none | plain (non-interface variables only) | iface (at least one interface variable)."""
    st = tpl_states(tpl)
    iface = interface_vars(tpl) | {v for _, v in tpl["inter"]}
    plain = [v for v, _ in tpl["vars"] if v not in iface]
    if kind == "none":
        return []
    out = {}
    if kind == "plain":
        if not plain:
            return []
        for t in rng.sample(range(T + 1), rng.randint(1, min(3, T + 1))):
            v = rng.choice(plain)
            out[(v, t)] = rng.choice(st[v])
    else:
        for t in rng.sample(range(T + 1), rng.randint(1, min(2, T + 1))):
            v = rng.choice(sorted(iface))
            out[(v, t)] = rng.choice(st[v])
        if plain and rng.random() < 0.5:
            v, t = rng.choice(plain), rng.randrange(T + 1)
            out[(v, t)] = rng.choice(st[v])
    return [[v, t, s] for (v, t), s in sorted(out.items(), key=repr)]


def gen_inference(tier, seed, named=False):
    """the healthy core: persistence edges only, every variable has an intra-slice edge, evidence on non-interface variables or none."""
    rng = O.mk_rng(seed, "c17inf", named)
    total = (120 if tier == "quick" else 300) if not named else (12 if tier == "quick" else 30)
    for k in range(total):
        nvars = rng.choice((2, 3, 3))
        evk = ("plain", "plain", "none")[k % 3]
        tpl = make_template(rng, nvars, rng.choice((1, 2)), False, named=named, explicit=(k % 4 < 3) if not named else True, zeros=(k % 4 == 0),
                            style=("str", "mixed")[k % 2])
        T = rng.choice((1, 2, 3, 3))
        yield {"tpl": tpl, "T": T, "evidence": _evidence(rng, tpl, T, evk)}


    # left-to-right chains: the interface variable starts in its first state and never moves back, so forward interface messages carry
    # exact zeros (0/0 must not turn into NaN anywhere in the smoothing pass)
    made = 0
    want = (16 if tier == "quick" else 60) if not named else 4
    for k in range(40 * want):
        if made >= want:
            break
        tpl = make_template(rng, rng.choice((2, 3)), 1, False, named=named, explicit=True, zeros=(k % 2 == 0), style=("str", "mixed")[k % 2])
        z = tpl["inter"][0][0]
        if len(tpl["inter"]) != 1 or tpl["cpd0"][z]["parents"] or tpl["cpd1"][z]["parents"] != [[z, 0]]:
            continue
        card = len(tpl["cpd0"][z]["table"])
        tpl["cpd0"][z]["table"] = [["1"]] + [["0"]] * (card - 1)
        cols = []
        for j in range(card):
            w = [0] * j + [rng.randint(1, 4) for _ in range(card - j)]
            cols.append([Fraction(x, sum(w)) for x in w])
        tpl["cpd1"][z]["table"] = [[str(cols[j][i]) for j in range(card)] for i in range(card)]
        made += 1
        T = rng.choice((2, 3, 3))
        yield {"tpl": tpl, "T": T, "evidence": _evidence(rng, tpl, T, ("plain", "none")[k % 2])}


def gen_inference_named(tier, seed):
    return gen_inference(tier, seed, True)


def gen_inference_classes(tier, seed):
    """the other input classes, interleaved: interface evidence, inter-slice edges between different variables,
    variables without intra-slice edge, named states completed by initialize_initial_state."""
    rng = O.mk_rng(seed, "c17cls")
    n = 0
    for rep in range(1 if tier == "quick" else 2):
        for evk in ("iface", "none", "plain"):
            for nvars in (1, 2, 3):
                for n_iface in (1, 2):
                    if n_iface > nvars:
                        continue
                    for cross in (False, True):
                        if cross and nvars == 1 or (not cross and evk != "iface" and nvars > 1):
                            continue
                        for named in (False, True):
                            n += 1
                            T = (n % 3) + 1
                            tpl = make_template(rng, nvars, n_iface, cross, named, explicit=(n % 3 != 0), zeros=(n % 5 == 0),
                                                isolated_ok=(nvars == 1 or n % 4 == 0), style=("str", "mixed")[n % 2])
                            ev = _evidence(rng, tpl, T, evk)
                            if evk != "none" and not ev:
                                ev = _evidence(rng, tpl, T, "iface")
                            yield {"tpl": tpl, "T": T, "evidence": ev}


def gen_inference_multi(tier, seed):
    rng = O.mk_rng(seed, "c17multi")
    for k in range(12 if tier == "quick" else 48):
        nvars = rng.choice((2, 3))
        tpl = make_template(rng, nvars, rng.choice((1, 2)), False, named=False, explicit=True)
        T = rng.choice((1, 2, 3))
        yield {"tpl": tpl, "T": T, "evidence": _evidence(rng, tpl, T, ("plain", "none")[k % 2])}


def gen_models(tier, seed, named=False):
    rng = O.mk_rng(seed, "c17model", named)
    n = 0
    for rep in range((12 if tier == "quick" else 48) if not named else (2 if tier == "quick" else 6)):
        for nvars in (1, 2, 3):
            for cross in (False, True):
                for explicit in (False, True, False):
                    n += 1
                    cards = None
                    if n % 3 == 0:
                        cards = {v: rng.choice((2, 3, 4)) for v in VAR_NAMES[:nvars]}
                    tpl = make_template(rng, nvars, rng.choice((1, 2)), cross and nvars > 1, named, explicit, cards=cards, zeros=(n % 4 == 0),
                                        isolated_ok=True, style=("str", "mixed", "perm")[n % 3])
                    yield {"tpl": tpl, "t_slices": [0, 1, 3][: 2 + n % 2]}


def gen_models_named(tier, seed):
    return gen_models(tier, seed, True)


def nontrivial(case):
    return len(case["tpl"]["inter"]) >= 1


def groups(tier):
    fan = 4 if tier == "quick" else 8
    return [
        Group("inference", gen_inference, check_inference, nontrivial, seed_fanout=fan, engine="E3",
              bound="core templates: 2-3 variables per slice, cards in {2,3}, 1-2 interface nodes with persistence edges (v,t-1)->(v,t), every variable on an "
                    "intra-slice edge, default state names, T in 1..3, evidence on non-interface variables in 1-3 slices or none; 16 (60) left-to-right chains "
                    "(start state certain, no way back: exact zeros in the interface messages); every (variable, slice) asked "
                    "alone with query|backward_inference (smoothing) and forward_inference (filtering), then all variables of a slice; expected values from "
                    "an independent unroller + exact Fraction elimination"),
        Group("inference_named", gen_inference_named, check_inference, nontrivial, seed_fanout=2, engine="E3",
              bound="12 (30) core templates with named states (str / mixed), evidence by state name"),
        Group("inference_classes", gen_inference_classes, check_inference, nontrivial, seed_fanout=2, engine="E3",
              bound="the remaining input classes, 1-3 variables: evidence on interface variables, inter-slice edges between different variables, variables "
                    "without intra-slice edge, named states, slice-1 CPDs left to initialize_initial_state; keys carry the class"),
        Group("inference_multi", gen_inference_multi, check_inference_multi, nontrivial, seed_fanout=2, engine="E3",
              bound="12 (48) core templates: requests naming variables of several slices at once, forward_inference and query"),
        Group("init_state", gen_models, check_initialize, nontrivial, seed_fanout=1, engine="E3",
              bound="templates with 1-3 variables, cards in {2,3,4}, default state names, shuffled parent / edge / CPD insertion orders, persistence and cross "
                    "inter-slice edges; every CPD after completion compared with the template by named assignment (n-d values); interface / intra / inter "
                    "edge accessors; idempotence"),
        Group("init_state_named", gen_models_named, check_initialize, nontrivial, seed_fanout=1, engine="E3", bound="same with named states"),
        Group("constant_bn", gen_models, check_constant_bn, nontrivial, seed_fanout=1, engine="E3",
              bound="same templates (default state names), t_slice in {0,1,3}: edges, CPD tables by named assignment, cardinalities"),
        Group("constant_bn_named", gen_models_named, check_constant_bn, nontrivial, seed_fanout=1, engine="E3", bound="same with named states"),
    ]
