"""C14 bounded groups (E3): model conversions preserve the distribution and give structurally valid targets.

Oracles (no pgmpy algorithm on this side): the unnormalised joint of a factor list is the product of the integer table
entries selected by a full assignment; moral graph by definition; chordality by perfect-elimination-ordering search;
maximal cliques by subset enumeration; clique-tree properties (tree, cover, running intersection) by BFS.

MN spec (JSON-able): {"nodes", "edges", "states": {v: [names]}, "factors": [{"vars": [...], "values": [ints, row-major in vars order]}]}
"""
from __future__ import annotations

import itertools
import math

from vf.core import Group
from vf.bounded import oracles as O

TOL = 1e-9
HEURISTICS = ("H1", "H2", "H3", "H4", "H5", "H6")
NAMES = {1: ["alpha"], 2: ["beta", "alpha"], 3: ["x1", "gamma", "beta"], 4: ["delta", "x0", "beta", "alpha"],
         5: ["n4", "delta", "x0", "beta", "alpha"]}


# ----------------------------------------------------------------------------- graph oracles
def fs(edges):
    return {frozenset(e) for e in edges}


def adj_of(nodes, edges):
    adj = {v: set() for v in nodes}
    for e in edges:
        u, v = tuple(e)
        adj[u].add(v)
        adj[v].add(u)
    return adj


def components(nodes, edges):
    adj = adj_of(nodes, edges)
    seen, comps = set(), []
    for s in nodes:
        if s in seen:
            continue
        comp, stack = {s}, [s]
        while stack:
            u = stack.pop()
            for w in adj[u]:
                if w not in comp:
                    comp.add(w)
                    stack.append(w)
        seen |= comp
        comps.append(comp)
    return comps


def is_connected(nodes, edges):
    return len(components(list(nodes), edges)) <= 1


def is_chordal(nodes, edges):
    """perfect elimination ordering search: a graph is chordal iff simplicial vertices can be removed one after another."""
    adj = adj_of(nodes, edges)
    left = set(nodes)
    while left:
        for v in sorted(left, key=repr):
            nb = adj[v] & left
            if all(b in adj[a] for a, b in itertools.combinations(nb, 2)):
                left.discard(v)
                break
        else:
            return False
    return True


def is_clique(adj, S):
    return all(b in adj[a] for a, b in itertools.combinations(list(S), 2))


def maximal_cliques(nodes, edges):
    adj = adj_of(nodes, edges)
    cl = [frozenset(S) for r in range(1, len(nodes) + 1) for S in itertools.combinations(nodes, r) if is_clique(adj, S)]
    return {c for c in cl if not any(c < d for d in cl)}


def moral_edges(edges, nodes):
    out = fs(edges)
    for v in nodes:
        for a, b in itertools.combinations(O.parents_of(edges, v), 2):
            out.add(frozenset((a, b)))
    return out


def connected_graphs(n, names):
    pairs = list(itertools.combinations(names, 2))
    for mask in range(1 << len(pairs)):
        edges = [list(p) for i, p in enumerate(pairs) if mask >> i & 1]
        if is_connected(names, edges):
            yield edges


# ----------------------------------------------------------------------------- factor oracles
def source_table(spec):
    """full assignment (tuple of state indices in spec['nodes'] order) -> exact product of the factor entries."""
    nodes = spec["nodes"]
    cards = [len(spec["states"][v]) for v in nodes]
    pos = {v: i for i, v in enumerate(nodes)}
    out = {}
    for a in itertools.product(*[range(c) for c in cards]):
        p = 1
        for f in spec["factors"]:
            idx = 0
            for v in f["vars"]:
                idx = idx * cards[pos[v]] + a[pos[v]]
            p *= f["values"][idx]
        out[a] = p
    return out


def _index_maps(phi, states):
    """per variable of the factor: map original state index -> axis index, by NAME; None if the names were lost."""
    maps, lost = [], []
    for v in phi.variables:
        names = list(phi.state_names[v])
        want = states[v]
        if len(names) == len(want) and all(type(a) is type(b) and a == b for a, b in zip(names, want)):
            maps.append(list(range(len(want))))
        elif len(names) == len(want) and sorted(map(repr, names)) == sorted(map(repr, want)):
            maps.append([[repr(x) for x in names].index(repr(w)) for w in want])
        else:
            lost.append((v, names))
            maps.append(list(range(len(want))))
    return maps, lost


def target_table(factors, spec):
    """same table computed from a list of DiscreteFactors through their state names; also returns variables whose names were lost."""
    nodes = spec["nodes"]
    pos = {v: i for i, v in enumerate(nodes)}
    cards = [len(spec["states"][v]) for v in nodes]
    prepared, lost = [], []
    for phi in factors:
        maps, l = _index_maps(phi, spec["states"])
        lost += l
        prepared.append((phi.values, [pos[v] for v in phi.variables], maps))
    out = {}
    for a in itertools.product(*[range(c) for c in cards]):
        p = 1.0
        for vals, ps, maps in prepared:
            p *= float(vals[tuple(m[a[i]] for i, m in zip(ps, maps))])
        out[a] = p
    return out, lost


def compare_tables(src, tgt):
    for a, s in src.items():
        t = tgt[a]
        if abs(t - s) > TOL * max(1.0, abs(s)):
            return a, s, t
    return None


def name_assignment(spec, a):
    return {v: spec["states"][v][i] for v, i in zip(spec["nodes"], a)}


def has_equal_duplicates(spec):
    seen = set()
    for f in spec["factors"]:
        # canonical form: table as dict over sorted variables
        vs = f["vars"]
        cards = [len(spec["states"][v]) for v in vs]
        order = sorted(range(len(vs)), key=lambda i: vs[i])
        canon = []
        for idx, a in enumerate(itertools.product(*[range(c) for c in cards])):
            canon.append((tuple(a[i] for i in order), f["values"][idx]))
        key = (tuple(sorted(vs)), tuple(sorted(canon)))
        if key in seen:
            return True
        seen.add(key)
    return False


def has_same_scope_factors(spec):
    scopes = [tuple(f["vars"]) for f in spec["factors"]]
    return len(scopes) != len(set(scopes))


# ----------------------------------------------------------------------------- building pgmpy objects
def make_factor(spec, f):
    from pgmpy.factors.discrete import DiscreteFactor

    return DiscreteFactor(list(f["vars"]), [len(spec["states"][v]) for v in f["vars"]], [float(x) for x in f["values"]],
                          state_names={v: list(spec["states"][v]) for v in f["vars"]})


def make_mn(spec):
    from pgmpy.models import MarkovNetwork

    m = MarkovNetwork()
    m.add_nodes_from(spec["nodes"])
    m.add_edges_from([tuple(e) for e in spec["edges"]])
    m.add_factors(*[make_factor(spec, f) for f in spec["factors"]])
    return m


def make_fg(spec):
    from pgmpy.models import FactorGraph

    g = FactorGraph()
    g.add_nodes_from(spec["nodes"])
    fobjs = [make_factor(spec, f) for f in spec["factors"]]
    for phi in fobjs:
        g.add_node(phi)
        g.add_edges_from([(v, phi) for v in phi.variables])
    g.add_factors(*fobjs)
    return g


def source_unchanged(model_factors, spec):
    """the source model still carries exactly its factors (same order, same tables, same names)."""
    if len(model_factors) != len(spec["factors"]):
        return f"{len(model_factors)} factors left of {len(spec['factors'])}"
    for phi, f in zip(model_factors, spec["factors"]):
        if list(phi.variables) != list(f["vars"]):
            return f"scope {phi.variables} != {f['vars']}"
        if [float(x) for x in phi.values.reshape(-1)] != [float(x) for x in f["values"]]:
            return f"values of factor {f['vars']} changed"
        for v in f["vars"]:
            if list(phi.state_names[v]) != list(spec["states"][v]):
                return f"state names of {v} changed"
    return None


# ----------------------------------------------------------------------------- spec generation
def mn_spec(rng, names, edges, variant, style, cards=None):
    """variant: 'pair' one factor per edge + some unary; 'clique' one factor per maximal clique of size <= 3 (triangles get a triple
    factor); 'gap' = 'clique' with one pairwise factor replaced by a unary one (an edge without factor); 'dup' = 'pair' + exact duplicates (one with permuted variable order, one unary);
    'same' = 'pair' + a second, different factor on an existing scope."""
    cards = cards or {v: rng.choice((2, 3, 2)) for v in names}
    states = {v: O.state_names(v, cards[v], style) for v in names}

    def table(vs, zeros=False):
        n = 1
        for v in vs:
            n *= cards[v]
        return [rng.randint(0 if zeros and rng.random() < 0.3 else 1, 4) for _ in range(n)]

    factors = []
    if variant in ("clique", "gap"):
        cl = sorted(maximal_cliques(names, edges), key=lambda c: sorted(c))
        covered = set()
        for c in cl:
            vs = sorted(c)
            rng.shuffle(vs)
            if len(vs) <= 3:
                factors.append({"vars": vs, "values": table(vs, True)})
                covered |= {frozenset(p) for p in itertools.combinations(vs, 2)}
            else:
                for p in itertools.combinations(vs, 2):
                    if frozenset(p) not in covered:
                        p = list(p)
                        factors.append({"vars": p, "values": table(p)})
                        covered.add(frozenset(p))
        # drop one pairwise factor if every variable stays covered (an edge without factor: unit potentials in the clique tree)
        for i, f in enumerate(factors if variant == "gap" else []):
            rest = factors[:i] + factors[i + 1:]
            if len(f["vars"]) == 2 and {v for g in rest for v in g["vars"]} | {f["vars"][0]} == set(names):
                factors = rest + [{"vars": [f["vars"][0]], "values": table([f["vars"][0]])}]
                if {v for g in factors for v in g["vars"]} == set(names):
                    break
                factors = rest + [f]
    else:
        for e in edges:
            vs = list(e)
            if rng.random() < 0.5:
                vs.reverse()
            factors.append({"vars": vs, "values": table(vs, variant == "pair")})
        for v in names:
            if not any(v in e for e in edges) or rng.random() < 0.4:
                factors.append({"vars": [v], "values": table([v])})
        if variant == "dup":
            f = factors[0]
            if len(f["vars"]) == 2:
                a, b = f["vars"]
                ca, cb = cards[a], cards[b]
                factors.append({"vars": [b, a], "values": [f["values"][i * cb + j] for j in range(cb) for i in range(ca)]})
            else:
                factors.append({"vars": list(f["vars"]), "values": list(f["values"])})
            u = {"vars": [names[-1]], "values": table([names[-1]])}
            factors += [u, {"vars": list(u["vars"]), "values": list(u["values"])}]
        if variant == "same":
            f = factors[0]
            t = table(f["vars"])
            if t == f["values"]:
                t[0] += 1
            factors.append({"vars": list(f["vars"]), "values": t})
    rng.shuffle(factors)
    return {"nodes": list(names), "edges": [list(e) for e in edges], "states": states, "factors": factors, "variant": variant}


def _mn_cases(tier, seed, salt, variants, sizes=None, cards1=False):
    sizes = sizes or (1, 2, 3, 4, 5)
    every = 8 if tier == "quick" else 2
    for n in sizes:
        names = NAMES[n]
        for gi, edges in enumerate(connected_graphs(n, names)):
            ring = len(edges) == n and all(sum(v in e for e in edges) == 2 for v in names)
            if n == 5 and (gi + seed) % every and not ring:
                continue
            for variant in variants:
                if variant in ("dup", "same") and not edges and n > 1:
                    continue
                rng = O.mk_rng(seed, salt, n, gi, variant)
                cards = None
                if cards1 and (gi % 3 == 0):
                    cards = {v: (1 if i == gi % n else rng.choice((2, 3))) for i, v in enumerate(names)}
                yield mn_spec(rng, names, edges, variant, O.STATE_STYLES[(gi + len(variant)) % 3], cards)


# ----------------------------------------------------------------------------- junction tree checks (shared)
def check_junction_tree(jt, spec, src, what, model_graph_edges, tri=None, names=True):
    """jt: pgmpy JunctionTree; src: exact source table; returns failure dict or None.  Keys are prefixed by the caller."""
    nodes = spec["nodes"]
    cliques = list(jt.nodes())
    if not cliques or any(not isinstance(c, tuple) for c in cliques):
        return {"key": "junction-tree:nodes", "what": f"{what}: clique nodes {cliques}"}
    csets = [frozenset(c) for c in cliques]
    if any(len(c) != len(set(c)) for c in cliques) or len(set(csets)) != len(csets):
        return {"key": "junction-tree:nodes", "what": f"{what}: repeated variables / cliques in {cliques}"}
    if set().union(*csets) != set(nodes):
        return {"key": "junction-tree:variables", "what": f"{what}: cliques {cliques} do not cover the variables {nodes}"}
    jedges = [(frozenset(a), frozenset(b)) for a, b in jt.edges()]
    # tree: connected and |E| = |V| - 1
    if len(jedges) != len(csets) - 1 or not is_connected(csets, jedges):
        return {"key": "junction-tree:not-a-tree", "what": f"{what}: cliques {cliques} edges {list(jt.edges())}"}
    for a, b in jedges:
        if not (a & b):
            return {"key": "junction-tree:empty-sepset", "what": f"{what}: edge between disjoint cliques {sorted(a)} {sorted(b)}"}
    # cliques of a chordal supergraph of the model graph, and exactly its maximal cliques
    gprime = {frozenset(p) for c in csets for p in itertools.combinations(sorted(c, key=repr), 2)}
    if not fs(model_graph_edges) <= gprime:
        miss = [sorted(e) for e in fs(model_graph_edges) - gprime]
        return {"key": "junction-tree:edge-not-covered", "what": f"{what}: model edges {miss} lie in no clique of {cliques}"}
    if not is_chordal(nodes, [tuple(e) for e in gprime]):
        return {"key": "junction-tree:not-chordal", "what": f"{what}: the graph spanned by the cliques {cliques} is not chordal"}
    if maximal_cliques(nodes, [tuple(e) for e in gprime]) != set(csets):
        return {"key": "junction-tree:cliques-not-maximal", "what": f"{what}: {cliques} are not the maximal cliques of the graph they span"}
    if tri is not None:
        tadj = adj_of(nodes, tri)
        for c in csets:
            if not is_clique(tadj, c):
                return {"key": "junction-tree:clique-not-in-triangulation", "what": f"{what}: {sorted(c)} is not a clique of triangulate() = {sorted(map(sorted, tri))}"}
    # every factor scope inside some clique
    for f in spec["factors"]:
        if not any(set(f["vars"]) <= c for c in csets):
            return {"key": "junction-tree:scope-not-covered", "what": f"{what}: factor scope {f['vars']} in no clique of {cliques}"}
    # running intersection
    for v in nodes:
        holding = [c for c in csets if v in c]
        sub = [(a, b) for a, b in jedges if v in a and v in b]
        if not is_connected(holding, sub):
            return {"key": "junction-tree:running-intersection", "what": f"{what}: cliques containing {v} are not connected in the tree {list(jt.edges())}"}
    # potentials: one per clique, scope = clique
    pots = list(jt.factors)
    if sorted(map(sorted, [map(repr, p.variables) for p in pots])) != sorted(map(sorted, [map(repr, c) for c in cliques])):
        return {"key": "junction-tree:potential-scopes", "what": f"{what}: potentials {[p.variables for p in pots]} vs cliques {cliques}"}
    tgt, lost = target_table(pots, spec)
    bad = compare_tables(src, tgt)
    if bad:
        a, s, t = bad
        key = "junction-tree:duplicate-factors" if has_equal_duplicates(spec) else "junction-tree:distribution"
        return {"key": key, "what": f"{what}: at {name_assignment(spec, a)} product of clique potentials = {t}, product of the original factors = {s}"}
    try:
        z = float(jt.get_partition_function())
    except Exception as e:  # noqa
        return {"key": "junction-tree:partition-function-raised", "what": f"{what}: {type(e).__name__}: {e}"}
    zs = sum(src.values())
    if abs(z - zs) > TOL * max(1.0, zs):
        return {"key": "junction-tree:partition-function", "what": f"{what}: Z = {z}, expected {zs}"}
    if lost and names:
        v, got = lost[0]
        return {"key": "junction-tree:state-names", "what": f"{what}: a clique potential carries state names {got} for {v}, the model has {spec['states'][v]}"}
    return None


def _pref(r, prefix):
    if r:
        r = dict(r)
        r["key"] = r["key"].replace("junction-tree", prefix)
    return r


# ----------------------------------------------------------------------------- group: BN -> MN -> JT
def gen_bn(tier, seed):
    sizes = (1, 2, 3) if tier == "quick" else (1, 2, 3, 4)
    for n in sizes:
        names = NAMES[n]
        for di, edges in enumerate(O.all_dags(n, names)):
            for k in range(2 if n < 4 else 1):
                rng = O.mk_rng(seed, "c14-bn", n, di, k)
                cards = {v: rng.choice((2, 3)) for v in names}
                if k == 1:
                    cards[names[di % n]] = 1
                spec = O.random_bn_spec(rng, names, edges, cards=cards, style=O.STATE_STYLES[(di + k) % 3], zeros=(di % 2 == 0))
                yield {"spec": O.spec_to_json(spec)}


def bn_as_mn_spec(spec):
    """the BN as a factor list with exact Fractions (values row-major over [v] + parents)."""
    factors = []
    for v in spec["nodes"]:
        c = spec["cpd"][v]
        vals = []
        for a in O.all_assignments(spec, [v] + c["parents"]):
            vals.append(O.cpd_value(spec, v, a))
        factors.append({"vars": [v] + list(c["parents"]), "values": vals})
    return {"nodes": spec["nodes"], "edges": [list(e) for e in moral_edges(spec["edges"], spec["nodes"])], "states": spec["states"], "factors": factors}


def check_bn(case):
    spec = O.spec_from_json(case["spec"])
    nodes, edges = spec["nodes"], spec["edges"]
    bn = O.make_bn(spec)
    mspec = bn_as_mn_spec(spec)
    src = source_table(mspec)
    want_edges = moral_edges(edges, nodes)
    mm = bn.to_markov_model()
    what = f"BN edges={edges} cards={[len(spec['states'][v]) for v in nodes]}"
    if type(mm).__name__ != "MarkovNetwork":
        return {"key": "to_markov_model:type", "what": f"{what}: {type(mm).__name__}"}
    if set(mm.nodes()) != set(nodes) or len(mm.nodes()) != len(nodes):
        return {"key": "to_markov_model:nodes", "what": f"{what}: nodes {list(mm.nodes())}"}
    if fs(mm.edges()) != want_edges:
        return {"key": "to_markov_model:moral-graph", "what": f"{what}: edges {sorted(map(sorted, mm.edges()))}, moral graph is {sorted(map(sorted, want_edges))}"}
    if len(mm.factors) != len(nodes):
        return {"key": "to_markov_model:factor-count", "what": f"{what}: {len(mm.factors)} factors for {len(nodes)} CPDs"}
    if any(any(phi is cpd for cpd in bn.get_cpds()) for phi in mm.factors):
        return {"key": "to_markov_model:aliasing", "what": f"{what}: a CPD object of the network is used as factor of the Markov network"}
    tgt, lost = target_table(mm.factors, mspec)
    bad = compare_tables(src, tgt)
    if bad:
        a, s, t = bad
        return {"key": "to_markov_model:distribution", "what": f"{what}: at {name_assignment(mspec, a)} product of factors = {t}, joint = {float(s)}"}
    if lost:
        return {"key": "to_markov_model:state-names", "what": f"{what}: {lost[0]}"}
    mm.check_model()
    z = float(mm.get_partition_function())
    if abs(z - 1.0) > TOL:
        return {"key": "to_markov_model:partition-function", "what": f"{what}: Z = {z} for a converted Bayesian network"}
    for v in nodes:
        cpd = bn.get_cpds(v)
        c = spec["cpd"][v]
        if list(cpd.variables) != [v] + list(c["parents"]) or set(map(tuple, bn.edges())) != {tuple(e) for e in edges}:
            return {"key": "to_markov_model:source-mutated", "what": f"{what}: cpd({v}) scope {cpd.variables}"}
    connected = is_connected(nodes, [tuple(e) for e in want_edges])
    for label, fn in (("BayesianNetwork.to_junction_tree", bn.to_junction_tree), ("to_markov_model().to_junction_tree", mm.to_junction_tree)):
        try:
            jt = fn()
        except ValueError as e:
            if not connected:
                continue  # clique trees are only defined for connected graphs: refusal accepted
            return {"key": "to_junction_tree:refused", "what": f"{what}: {label} raised ValueError {e}"}
        r = check_junction_tree(jt, mspec, src, f"{what} {label}", [tuple(e) for e in want_edges])
        if r:
            return _pref(r, "to_junction_tree")
    return None


# ----------------------------------------------------------------------------- group: MN partition function, triangulate
def gen_mn(tier, seed):
    yield from _mn_cases(tier, seed, "c14-mn", ("pair", "clique"), cards1=True)


def gen_mn_tri(tier, seed):
    yield from _mn_cases(tier, seed, "c14-tri", ("pair",), cards1=True)


def gen_mn_tri_disc(tier, seed):
    """disconnected graphs (triangulation is not restricted to connected graphs)."""
    cyc = [["delta", "x0"], ["x0", "beta"], ["beta", "alpha"], ["alpha", "delta"]]
    extra = [(["n4", "delta", "x0", "beta", "alpha"], cyc),                                  # chordless 4-cycle + isolated node
             (["delta", "x0", "beta", "alpha", "n4", "n5"], cyc + [["n4", "n5"]]),          # chordless 4-cycle + separate edge
             (["delta", "x0", "beta", "alpha"], [["delta", "x0"], ["beta", "alpha"]]),      # chordal, two components
             (["x1", "gamma", "beta"], [["x1", "gamma"]])]                                   # chordal, isolated node
    for i, (names, edges) in enumerate(extra):
        yield mn_spec(O.mk_rng(seed, "c14-tri-x", i), names, edges, "pair", "str")


def _orders(nodes, case_seed):
    if len(nodes) <= 4:
        return [list(p) for p in itertools.permutations(nodes)]
    if len(nodes) > 5:
        return [list(nodes), list(reversed(nodes))]
    rng = O.mk_rng("c14-orders", case_seed)
    out = []
    for _ in range(12):
        p = list(nodes)
        rng.shuffle(p)
        out.append(p)
    return out


def check_triangulate(spec):
    nodes, edges = spec["nodes"], spec["edges"]
    E = fs(edges)
    chordal = is_chordal(nodes, edges)
    m = make_mn(spec)
    what = f"graph {edges} cards={[len(spec['states'][v]) for v in nodes]}"
    if bool(m.is_triangulated()) != chordal:
        return {"key": "is_triangulated:result", "what": f"{what}: is_triangulated() = {m.is_triangulated()}, elimination-ordering test says {chordal}"}
    configs = [{"heuristic": h} for h in HEURISTICS] + [{"order": o} for o in _orders(nodes, len(edges))]
    for cfg in configs:
        for inplace in (False, True):
            m = make_mn(spec)
            desc = f"{what} triangulate({cfg}, inplace={inplace})"
            isolated = [v for v in nodes if not any(v in e for e in edges)]
            try:
                r = m.triangulate(inplace=inplace, **{k: (list(v) if isinstance(v, list) else v) for k, v in cfg.items()})
            except Exception as e:  # noqa  (ValueError from min() / NetworkXError from neighbors())
                if isolated and type(e).__name__ in ("ValueError", "NetworkXError"):
                    return {"key": "triangulate:isolated-node:raised", "what": f"{desc}: {type(e).__name__} {e} (graph with isolated nodes {isolated})"}
                raise
            tgt = m if inplace else r
            if isolated and tgt is not None and hasattr(tgt, "nodes") and set(nodes) - set(tgt.nodes()) == set(isolated):
                return {"key": "triangulate:isolated-node:dropped", "what": f"{desc}: result has nodes {sorted(tgt.nodes())}, isolated {isolated} lost"}
            if tgt is None or not hasattr(tgt, "edges"):
                return {"key": "triangulate:result-type", "what": f"{desc}: returned {tgt!r}"}
            if set(tgt.nodes()) != set(nodes):
                return {"key": "triangulate:nodes", "what": f"{desc}: nodes {sorted(tgt.nodes())} != {sorted(nodes)}"}
            T = fs(tgt.edges())
            if not E <= T:
                return {"key": "triangulate:not-a-supergraph", "what": f"{desc}: lost edges {sorted(map(sorted, E - T))}"}
            if not is_chordal(nodes, [tuple(e) for e in T]):
                return {"key": "triangulate:not-chordal", "what": f"{desc}: result {sorted(map(sorted, T))} has a chordless cycle"}
            if chordal and T != E:
                return {"key": "triangulate:chordal-input-changed", "what": f"{desc}: already chordal, but edges {sorted(map(sorted, T - E))} were added"}
            if any(len(e) != 2 for e in T):
                return {"key": "triangulate:self-loop", "what": f"{desc}"}
            if not inplace:
                if fs(m.edges()) != E:
                    return {"key": "triangulate:receiver-mutated", "what": f"{desc}: receiver edges now {sorted(map(sorted, m.edges()))}"}
            bad = source_unchanged(m.factors, spec)
            if bad:
                return {"key": "triangulate:factors-changed", "what": f"{desc}: {bad}"}
    return None


def check_mn_tri(case):
    return check_triangulate(case)


def check_mn(case, names=False):
    """get_partition_function, to_junction_tree on connected Markov networks.  State names of the clique potentials are the
    subject of the group jt_state_names (known defect that hits many inputs) and are not compared here."""
    spec = case
    nodes, edges = spec["nodes"], spec["edges"]
    src = source_table(spec)
    zs = sum(src.values())
    m = make_mn(spec)
    what = f"MN edges={edges} factors={[f['vars'] for f in spec['factors']]}"
    m.check_model()
    z = float(m.get_partition_function())
    if abs(z - zs) > TOL * max(1.0, zs):
        return {"key": "get_partition_function:value", "what": f"{what}: Z = {z}, sum over all assignments of the factor product = {zs}"}
    bad = source_unchanged(m.factors, spec)
    if bad:
        return {"key": "get_partition_function:source-mutated", "what": f"{what}: {bad}"}
    tri = m.triangulate()
    tri_edges = [tuple(e) for e in tri.edges()]
    jt = m.to_junction_tree()
    r = check_junction_tree(jt, spec, src, what, edges, tri_edges, names=names)
    if r:
        return _pref(r, "to_junction_tree")
    bad = source_unchanged(m.factors, spec)
    if bad or fs(m.edges()) != fs(edges):
        return {"key": "to_junction_tree:source-mutated", "what": f"{what}: {bad or 'edges changed'}"}
    return None


# ----------------------------------------------------------------------------- group: duplicates / same-scope
def gen_jt_names(tier, seed):
    for c in _mn_cases(tier, seed, "c14-gap", ("gap",), sizes=(2, 3, 4)):
        if len(c["factors"]) >= 2 and any(len(f["vars"]) == 1 for f in c["factors"]):
            yield {"kind": "mn", **c}
    for c in gen_mn(tier, seed):
        if len(c["nodes"]) >= 4:
            yield {"kind": "mn", **c}
    for c in gen_fg(tier, seed):
        if len(c["nodes"]) >= 4:
            yield {"kind": "fg", **c}


def check_jt_names(case):
    """every clique potential of the junction tree names the states of every variable as the source model does."""
    spec = case
    src = source_table(spec)
    model = make_mn(spec) if case["kind"] == "mn" else make_fg(spec)
    jt = model.to_junction_tree()
    tgt, lost = target_table(list(jt.factors), spec)
    if compare_tables(src, tgt):
        return None  # distribution failures are reported by the other groups
    if lost:
        v, got = lost[0]
        return {"key": "to_junction_tree:state-names", "what": f"{case['kind'].upper()} edges={spec['edges']} factors={[f['vars'] for f in spec['factors']]}: the "
                f"clique potential on {[p.variables for p in jt.factors if v in p.variables and list(p.state_names[v]) == list(got)][0]} carries state "
                f"names {got} for {v}, the model has {spec['states'][v]} (unit potential created without state names)"}
    return None


def gen_mn_dup(tier, seed):
    yield from _mn_cases(tier, seed, "c14-dup", ("dup",), sizes=(1, 2, 3) if tier == "quick" else (1, 2, 3, 4))


def check_mn_dup(case):
    return check_mn(case)


def gen_mn_fg(tier, seed):
    yield from _mn_cases(tier, seed, "c14-fg", ("pair", "clique", "same", "dup"), sizes=(1, 2, 3) if tier == "quick" else (1, 2, 3, 4))


def check_mn_fg(case):
    """MarkovNetwork.to_factor_graph: bipartite target, one factor node per factor adjacent to exactly its scope, factor list kept."""
    spec = case
    nodes = spec["nodes"]
    src = source_table(spec)
    m = make_mn(spec)
    what = f"MN edges={spec['edges']} factors={[f['vars'] for f in spec['factors']]}"
    fg = m.to_factor_graph()
    if type(fg).__name__ != "FactorGraph":
        return {"key": "to_factor_graph:type", "what": f"{what}: {type(fg).__name__}"}
    fnodes = [x for x in fg.nodes() if x not in nodes]
    if not set(nodes) <= set(fg.nodes()):
        return {"key": "to_factor_graph:variable-nodes", "what": f"{what}: nodes {list(fg.nodes())}"}
    tgt, lost = target_table(fg.factors, spec)
    bad = compare_tables(src, tgt)
    if bad or len(fg.factors) != len(spec["factors"]):
        return {"key": "to_factor_graph:distribution", "what": f"{what}: factor list of the factor graph does not reproduce the factor product ({bad})"}
    if lost:
        return {"key": "to_factor_graph:state-names", "what": f"{what}: {lost[0]}"}
    for u, v in fg.edges():
        if (u in nodes) == (v in nodes):
            return {"key": "to_factor_graph:not-bipartite", "what": f"{what}: edge {u!r} - {v!r}"}
    if len(fnodes) != len(spec["factors"]):
        key = "to_factor_graph:same-scope-factors" if has_same_scope_factors(spec) else "to_factor_graph:factor-node-count"
        return {"key": key, "what": f"{what}: {len(spec['factors'])} factors but {len(fnodes)} factor nodes {fnodes!r} (node name derived from the scope only)"}
    scopes = sorted(sorted(f["vars"]) for f in spec["factors"])
    if sorted(sorted(fg.neighbors(x)) for x in fnodes) != scopes:
        return {"key": "to_factor_graph:factor-node-neighbours", "what": f"{what}: neighbourhoods {[sorted(fg.neighbors(x)) for x in fnodes]} != scopes {scopes}"}
    bad = source_unchanged(m.factors, spec)
    if bad:
        return {"key": "to_factor_graph:source-mutated", "what": f"{what}: {bad}"}
    # the target must be a usable FactorGraph
    try:
        fg.check_model()
        z = float(fg.get_partition_function())
        back = fg.to_markov_model()
    except ValueError as e:
        return {"key": "to_factor_graph:target-fails-check_model", "what": f"{what}: the returned FactorGraph is rejected by its own check_model / "
                f"get_partition_function / to_markov_model: ValueError {e} (factor nodes are strings {fnodes[:2]!r}, FactorGraph expects DiscreteFactor nodes)"}
    zs = sum(src.values())
    if abs(z - zs) > TOL * max(1.0, zs):
        return {"key": "to_factor_graph:partition-function", "what": f"{what}: Z = {z}, expected {zs}"}
    r = check_fg_to_mn(back, spec, src, what + " round trip")
    return r


# ----------------------------------------------------------------------------- group: FactorGraph -> MN / JT
def gen_fg(tier, seed):
    yield from _mn_cases(tier, seed, "c14-fgsrc", ("pair", "clique", "same"))


def check_fg_to_mn(mm, spec, src, what):
    nodes = spec["nodes"]
    if type(mm).__name__ != "MarkovNetwork":
        return {"key": "FactorGraph.to_markov_model:type", "what": f"{what}: {type(mm).__name__}"}
    if set(mm.nodes()) != set(nodes) or len(mm.nodes()) != len(nodes):
        return {"key": "FactorGraph.to_markov_model:nodes", "what": f"{what}: nodes {list(mm.nodes())} != {nodes}"}
    want = {frozenset(p) for f in spec["factors"] for p in itertools.combinations(f["vars"], 2)}
    if fs(mm.edges()) != want:
        return {"key": "FactorGraph.to_markov_model:edges", "what": f"{what}: edges {sorted(map(sorted, mm.edges()))} != pairs inside scopes {sorted(map(sorted, want))}"}
    if len(mm.factors) != len(spec["factors"]):
        return {"key": "FactorGraph.to_markov_model:factor-count", "what": f"{what}: {len(mm.factors)} factors of {len(spec['factors'])}"}
    tgt, lost = target_table(mm.factors, spec)
    bad = compare_tables(src, tgt)
    if bad:
        a, s, t = bad
        return {"key": "FactorGraph.to_markov_model:distribution", "what": f"{what}: at {name_assignment(spec, a)} {t} != {s}"}
    if lost:
        return {"key": "FactorGraph.to_markov_model:state-names", "what": f"{what}: {lost[0]}"}
    mm.check_model()
    z, zs = float(mm.get_partition_function()), sum(src.values())
    if abs(z - zs) > TOL * max(1.0, zs):
        return {"key": "FactorGraph.to_markov_model:partition-function", "what": f"{what}: Z = {z}, expected {zs}"}
    return None


def check_fg(case):
    spec = case
    src = source_table(spec)
    zs = sum(src.values())
    g = make_fg(spec)
    what = f"FG factors={[f['vars'] for f in spec['factors']]}"
    g.check_model()
    z = float(g.get_partition_function())
    if abs(z - zs) > TOL * max(1.0, zs):
        return {"key": "FactorGraph.get_partition_function:value", "what": f"{what}: Z = {z}, expected {zs}"}
    mm = g.to_markov_model()
    r = check_fg_to_mn(mm, spec, src, what)
    if r:
        return r
    bad = source_unchanged(g.factors, spec)
    if bad:
        return {"key": "FactorGraph.to_markov_model:source-mutated", "what": f"{what}: {bad}"}
    scope_edges = [tuple(p) for f in spec["factors"] for p in itertools.combinations(f["vars"], 2)]
    if is_connected(spec["nodes"], scope_edges):
        jt = g.to_junction_tree()
        r = check_junction_tree(jt, spec, src, what + " FactorGraph.to_junction_tree", scope_edges, names=False)
        if r:
            return _pref(r, "FactorGraph.to_junction_tree")
    return None


def _nt(c):
    return len(c.get("factors", [])) >= 2 or len(c.get("spec", {}).get("edges", [])) >= 1


def groups(tier):
    g5 = f" and 1/{8 if tier == 'quick' else 2} of the 728 connected 5-node graphs (rotating with the seed; the 12 five-cycles always)"
    return [
        Group("bn_conversions", gen_bn, check_bn, _nt, seed_fanout=8, engine="E3",
              bound="BNs on all DAGs <= 3 nodes (thorough: 4), cards 2/3 and a variant with one cardinality-1 variable, zeros in tables, shuffled parent "
                    "orders; to_markov_model (moral graph, factor list, joint, Z) and both routes to the junction tree (connected moral graphs; "
                    "ValueError accepted for disconnected ones)"),
        Group("mn_junction_tree", gen_mn, check_mn, _nt, seed_fanout=8, engine="E3",
              bound=f"MarkovNetworks on all connected labelled graphs <= 4 nodes{g5}; factor sets 'one per edge + unary' and 'one per maximal clique "
                    "(triple factors on triangles), one edge without factor'; cards 1/2/3, small integer tables with zeros; get_partition_function, "
                    "to_junction_tree (tree, cliques, cover, running intersection, product of potentials at every assignment, Z, state names)"),
        Group("mn_triangulate", gen_mn_tri, check_mn_tri, _nt, seed_fanout=8, engine="E3",
              bound=f"same graphs{g5}; heuristics H1..H6 and every elimination order (<= 4 nodes; 12 seeded orders on 5), "
                    "inplace False/True; is_triangulated vs elimination-ordering test"),
        Group("mn_triangulate_disconnected", gen_mn_tri_disc, check_mn_tri, _nt, seed_fanout=2, engine="E3",
              bound="4 disconnected graphs (chordless 4-cycle + isolated node / + separate edge, two chordal ones); same checks as mn_triangulate"),
        Group("jt_state_names", gen_jt_names, check_jt_names, _nt, seed_fanout=2, engine="E3",
              bound="connected graphs on 2..4 nodes whose factor set leaves one edge without a factor, plus the >= 4-node cases of mn_junction_tree and "
                    "fg_conversions: state names of every variable in every clique potential"),
        Group("mn_duplicate_factors", gen_mn_dup, check_mn_dup, _nt, seed_fanout=2, engine="E3",
              bound="connected graphs <= 3 nodes (thorough: 4) with exact duplicate factors (one with permuted variable order, one unary)"),
        Group("mn_to_factor_graph", gen_mn_fg, check_mn_fg, _nt, seed_fanout=2, engine="E3",
              bound="connected graphs <= 3 nodes (thorough: 4); factor sets pair / clique / two different factors on one scope / exact duplicates"),
        Group("fg_conversions", gen_fg, check_fg, _nt, seed_fanout=8, engine="E3",
              bound=f"FactorGraphs (DiscreteFactor objects as factor nodes) built from the Markov-network specs on connected graphs <= 4 nodes{g5}, "
                    "incl. two different factors on one scope (equal duplicates cannot be represented as distinct factor nodes); to_markov_model, "
                    "get_partition_function, to_junction_tree"),
    ]
