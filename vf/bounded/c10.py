"""C10 bounded groups (E3): structure scores of the real pgmpy scorers vs. their published closed forms.

Oracle side (independent of pgmpy): naive row counting into the FULL r x q table (declared states x every parent
configuration, zeros included), closed forms with math.lgamma / math.log:

  K2   = sum_j [ lgamma(r) - lgamma(N_j + r) + sum_k lgamma(N_jk + 1) ]                       (Cooper & Herskovits)
  BDeu = sum_j [ lgamma(a q^-1) - lgamma(N_j + a q^-1) + sum_k lgamma(N_jk + a/(rq)) - lgamma(a/(rq)) ]
  BDs  = the same with q replaced by q~ = #observed configurations, summed over observed configurations only
         (Scutari 2016, eq. 8)
  BIC  = sum_jk N_jk log(N_jk / N_j) - 0.5 log(N) q (r-1);   AIC = LL - q (r-1)
  score(G) = sum_v local(v, Pa(v)) + prior(G);  prior = 0 except BDs: -(|E| + n(n-1)/2) log 2

A case is one data frame (+ declared state names, ess); a check sweeps every variable, every parent set in
several orders and every scorer.  Known deviations get dedicated keys, and only when the deviation has exactly the
size predicted for that defect class - any other difference is reported under the generic ':value' key, so a listed
finding never hides a different error on the same inputs.
"""
from __future__ import annotations

import importlib
import itertools
import math
from math import lgamma, log

from vf.core import Group
from vf.bounded import oracles as O

COLS3 = ["zed", "alpha", "Mu"]          # column order != sorted order; upper case sorts first
COLS4 = ["zed", "alpha", "Mu", "b2"]
SCORERS = ("K2Score", "BDeuScore", "BDsScore", "BicScore", "AICScore")
# keys of deviations that are (candidate) findings; reported only if nothing else failed in the case
DEDICATED = ("unobserved-configs", "unobserved-child-state", "structure-prior")


# ----------------------------------------------------------------------------- frames
def _quiet():
    import logging

    logging.getLogger("pgmpy").setLevel(logging.ERROR)


def state_label(col, k, kind):
    return k if kind == "int" else f"{col[0]}{'qrs'[k]}"


def make_df(case, rows=None, cols=None):
    """JSON frame spec -> pandas DataFrame.  kinds: int (int64 column), str (object column), cat (Categorical whose
    category order is the REVERSE of the sorted order)."""
    import pandas as pd

    rows = case["rows"] if rows is None else rows
    cols_all = case["cols"]
    data = {}
    for c in (cols or cols_all):
        i = cols_all.index(c)
        vals = [r[i] for r in rows]
        kind = case["kinds"][c]
        if kind == "int":
            data[c] = pd.Series(vals, dtype="int64")
        elif kind == "str":
            data[c] = pd.Series(vals, dtype=object)
        else:
            cats = case["declared"].get(c) or sorted(set(vals))
            data[c] = pd.Categorical(vals, categories=list(reversed(cats)))
    return pd.DataFrame(data)


def states_of(case):
    """declared states if given, else the sorted observed values (pgmpy's documented default)."""
    out = {}
    for i, c in enumerate(case["cols"]):
        out[c] = list(case["declared"][c]) if c in case["declared"] else sorted({r[i] for r in case["rows"]})
    return out


def count_table(case, states, v, ps, rows=None):
    """full table: list over ALL parent configurations (row-major in ps) of lists over declared states of v."""
    cols = case["cols"]
    vi, pi = cols.index(v), [cols.index(p) for p in ps]
    cfgs = list(itertools.product(*[states[p] for p in ps]))
    N = {c: {s: 0 for s in states[v]} for c in cfgs}
    for r in (case["rows"] if rows is None else rows):
        N[tuple(r[i] for i in pi)][r[vi]] += 1
    return cfgs, [[N[c][s] for s in states[v]] for c in cfgs]


def seeded_frame(rng, ncols, lo=5, hi=40, sparse=True):
    cols = (COLS3 if ncols == 3 else COLS4)[:ncols]
    kinds, declared, gen_states = {}, {}, {}
    for c in cols:
        kind = rng.choice(("int", "str", "cat"))
        card = rng.choice((1, 2, 2, 3, 3))
        kinds[c] = kind
        sts = [state_label(c, k, kind) for k in range(3)]
        gen_states[c] = sts[:card]
        mode = rng.choice(("none", "same", "extra", "extra"))
        if mode == "same":
            declared[c] = sts[:card]
        elif mode == "extra":
            declared[c] = sts[:min(3, card + 1)] if rng.random() < 0.7 else list(reversed(sts[:min(3, card + 1)]))
    n = rng.randint(lo, hi if not sparse else rng.choice((8, 15, hi)))
    # sparse + dependent rows: a few prototype rows repeated with noise => many unobserved parent configurations
    protos = [[rng.choice(gen_states[c]) for c in cols] for _ in range(rng.randint(1, 4))]
    rows = []
    for _ in range(n):
        r = list(rng.choice(protos))
        if rng.random() < 0.35:
            j = rng.randrange(ncols)
            r[j] = rng.choice(gen_states[cols[j]])
        rows.append(r)
    # a declared list must cover what was generated
    for c in list(declared):
        i = cols.index(c)
        if not {r[i] for r in rows} <= set(declared[c]):
            declared[c] = sorted(set(declared[c]) | {r[i] for r in rows}, key=str)
    return {"cols": cols, "kinds": kinds, "declared": declared, "rows": rows,
            "ess": rng.choice((1, 5, 10, 2.5)), "perm_seed": rng.randrange(10 ** 6)}


def tiny_frames(tier):
    """every multiset of <= 3 rows over three binary int columns; declared states rotate: none / [0,1] / [0,1,2] on one column."""
    space = list(itertools.product((0, 1), repeat=3))
    idx = 0
    for n in (1, 2, 3):
        for combo in itertools.combinations_with_replacement(space, n):
            idx += 1
            mode = idx % 3
            declared = {}
            if mode == 1:
                declared = {c: [0, 1] for c in COLS3}
            elif mode == 2:
                declared = {COLS3[idx % 3]: [0, 1, 2], COLS3[(idx + 1) % 3]: [1, 0]}
            yield {"cols": list(COLS3), "kinds": {c: "int" for c in COLS3}, "declared": declared,
                   "rows": [list(r) for r in combo], "ess": (1, 5, 10)[idx % 3], "perm_seed": idx}


def gen_frames(tier, seed):
    yield from tiny_frames(tier)
    rng = O.mk_rng(seed, "c10-frames")
    for k in range(70 if tier == "quick" else 440):   # <= 640 cases: the harness stops a worker after 40 failing cases
        yield seeded_frame(rng, 3 if (tier == "quick" or k % 3) else 4)


def gen_frames_small(tier, seed):
    """fewer frames for the groups that sweep all DAGs."""
    for i, c in enumerate(tiny_frames(tier)):
        if i % (8 if tier == "quick" else 2) == 0:
            yield c
    rng = O.mk_rng(seed, "c10-frames-small")
    for k in range(24 if tier == "quick" else 160):
        yield seeded_frame(rng, 3 if (tier == "quick" or k % 4) else 4, hi=25)


# ----------------------------------------------------------------------------- closed forms
def cf_k2(T, r):
    return sum(lgamma(r) - lgamma(sum(c) + r) + sum(lgamma(n + 1) for n in c) for c in T)


def cf_bdeu(T, r, ess):
    q = len(T)
    a = ess / (r * q)
    return sum(lgamma(ess / q) - lgamma(sum(c) + ess / q) + sum(lgamma(n + a) - lgamma(a) for n in c) for c in T)


def cf_bds(T, r, ess):
    To = [c for c in T if sum(c) > 0]
    return cf_bdeu(To, r, ess)


def cf_ll(T):
    return sum(n * log(n / sum(c)) for c in T for n in c if n > 0)


def cf_bic(T, r, N):
    return cf_ll(T) - 0.5 * log(N) * len(T) * (r - 1)


def cf_aic(T, r):
    return cf_ll(T) - len(T) * (r - 1)


def closed_form(name, T, r, ess, N):
    return {"K2Score": lambda: cf_k2(T, r), "BDeuScore": lambda: cf_bdeu(T, r, ess), "BDsScore": lambda: cf_bds(T, r, ess),
            "BicScore": lambda: cf_bic(T, r, N), "AICScore": lambda: cf_aic(T, r)}[name]()


def predicted_deviation(name, T, r, r_obs, ess, has_parents):
    """size of the deviation (got - closed form) of the defect classes seen on the pinned tree; {} if none applies.
    K2: lgamma(r) is added for every configuration, but lgamma(0 + r) is subtracted only for the observed ones.
    BDeu/BDs: rows of never-observed child states are dropped (reindex=False) but their lgamma(beta) is subtracted.
    BDs: per-cell hyper-parameter ess/(r q) instead of ess/(r q~) and an extra -(q - q~) lgamma(ess/q~)."""
    q, qo = len(T), sum(1 for c in T if sum(c) > 0)
    out = {}
    if name == "K2Score" and qo < q:
        out["unobserved-configs"] = (q - qo) * lgamma(r)
    if name == "BDeuScore" and has_parents and r_obs < r:
        out["unobserved-child-state"] = -(r - r_obs) * qo * lgamma(ess / (r * q))
    if name == "BDsScore" and has_parents and (r_obs < r or qo < q):
        b, al = ess / (r * q), ess / qo
        impl = sum(lgamma(al) - lgamma(sum(c) + al) + sum(lgamma(n + b) - lgamma(b) for n in c) for c in T if sum(c) > 0)
        impl -= (q - qo) * lgamma(al) + (r - r_obs) * qo * lgamma(b)
        out["unobserved-configs" if qo < q else "unobserved-child-state"] = impl - cf_bds(T, r, ess)
    return out


class Fails:
    """collects failures of one case; result() prefers a failure that is not one of the dedicated finding classes."""

    def __init__(self):
        self.items = []

    def add(self, key, what):
        if len(self.items) < 50:
            self.items.append({"key": key, "what": what})

    def result(self):
        for f in self.items:
            if not f["key"].endswith(DEDICATED):
                return f
        return self.items[0] if self.items else None


def make_scorers(df, states, ess):
    import pgmpy.estimators as E

    return {"K2Score": E.K2Score(df, state_names=states), "BDeuScore": E.BDeuScore(df, equivalent_sample_size=ess, state_names=states),
            "BDsScore": E.BDsScore(df, equivalent_sample_size=ess, state_names=states), "BicScore": E.BicScore(df, state_names=states),
            "AICScore": E.AICScore(df, state_names=states)}


def parent_lists(cols, v, rng=None):
    """every parent subset; sizes 2 in both orders, size 3 in two orders."""
    rest = [c for c in cols if c != v]
    for k in range(len(rest) + 1):
        for ps in itertools.combinations(rest, k):
            yield list(ps)
            if k >= 2:
                yield list(reversed(ps))


# ----------------------------------------------------------------------------- checks
def check_state_counts(case, df, states, F):
    from pgmpy.estimators import BaseEstimator

    est = BaseEstimator(df, state_names=states)
    for v in case["cols"]:
        for ps in parent_lists(case["cols"], v):
            if not ps or len(ps) == 3 and ps[0] > ps[1]:
                continue
            cfgs, T = count_table(case, states, v, ps)
            want = {(s, c): T[j][k] for j, c in enumerate(cfgs) for k, s in enumerate(states[v])}
            for reindex in (False, True):
                sc = est.state_counts(v, ps, reindex=reindex)
                got = {}
                for s in sc.index:
                    for c in sc.columns:
                        ct = c if isinstance(c, tuple) else (c,)
                        got[(s, ct)] = float(sc.loc[s, c])
                bad = [k for k, n in got.items() if k not in want or want[k] != n] + [k for k, n in want.items() if n and k not in got]
                if reindex and (list(sc.index) != list(states[v]) or [c if isinstance(c, tuple) else (c,) for c in sc.columns] != cfgs):
                    bad.append("index/column order")
                if list(sc.columns.names) != ps:
                    bad.append(f"column level names {list(sc.columns.names)}")
                if bad:
                    F.add(f"state_counts:reindex-{str(reindex).lower()}", f"state_counts({v!r},{ps}) differs from naive row counting at {bad[:3]}")


def check_local_scores(case):
    _quiet()
    F = Fails()
    cols, ess = case["cols"], case["ess"]
    states = states_of(case)
    df = make_df(case)
    N = len(case["rows"])
    sc = make_scorers(df, states, ess)
    check_state_counts(case, df, states, F)
    # permuted views of the same data: rows shuffled, columns reversed
    rng = O.mk_rng(case["perm_seed"], "perm")
    rows2 = list(case["rows"])
    rng.shuffle(rows2)
    sc2 = make_scorers(make_df(case, rows=rows2, cols=list(reversed(cols))), states, ess)
    base = {}
    for v in cols:
        vi = cols.index(v)
        r, r_obs = len(states[v]), len({row[vi] for row in case["rows"]})
        for ps in parent_lists(cols, v):
            cfgs, T = count_table(case, states, v, ps)
            for name in SCORERS:
                got = float(sc[name].local_score(v, list(ps)))
                canon = (name, v, frozenset(ps))
                if canon in base:
                    if not O.close(got, base[canon][0]):
                        F.add(f"{name}.local_score:parent-order", f"local_score({v!r},{ps})={got!r} but with parents {base[canon][1]} it is {base[canon][0]!r}")
                    continue
                base[canon] = (got, ps)
                exp = closed_form(name, T, r, ess, N)
                if not (math.isfinite(got) and O.close(got, exp)):
                    cls = [k for k, d in predicted_deviation(name, T, r, r_obs, ess, bool(ps)).items() if O.close(got, exp + d)]
                    F.add(f"{name}.local_score:{cls[0] if cls else 'value'}",
                          f"{name}(ess={ess}).local_score({v!r},{ps}) = {got!r}, closed form on the full {r}x{len(T)} table {T} gives {exp!r} "
                          f"(declared states {states[v]}, {sum(1 for c in T if sum(c))} of {len(T)} configurations observed)")
                g2 = float(sc2[name].local_score(v, list(ps)))
                if not O.close(got, g2):
                    F.add(f"{name}.local_score:row-column-permutation", f"local_score({v!r},{ps}) changes from {got!r} to {g2!r} after shuffling rows / reversing columns")
    return F.result()


def check_default_states(case):
    """scorers built without (or with a partial, shared) state_names dict: the states of an undeclared variable are the values observed
    in the scorer's OWN data - also for Categorical columns that carry an unused category - and the caller's dict is left alone."""
    import pandas as pd
    import pgmpy.estimators as E

    _quiet()
    cols, ess = case["cols"], case["ess"]
    df = make_df(case)
    obs = {c: sorted({r[i] for r in case["rows"]}) for i, c in enumerate(cols)}
    # a Categorical column with a level that does not occur in the rows (as after filtering a bigger frame)
    c0 = cols[0]
    df2 = df.copy()
    df2[c0] = pd.Categorical(list(df[c0]), categories=list(obs[c0]) + (["__unused__"] if isinstance(obs[c0][0], str) else [max(obs[c0]) + 7]))
    N = len(case["rows"])
    for label, frame, kw in (("no state_names", df, {}), ("unused category", df2, {})):
        for name in SCORERS:
            sc = getattr(E, name)(frame, **({"equivalent_sample_size": ess} if name in ("BDeuScore", "BDsScore") else {}), **kw)
            for v in cols:
                for ps in ([], [c for c in cols if c != v][:1]):
                    cfgs, T = count_table(case, obs, v, ps)
                    got, exp = float(sc.local_score(v, list(ps))), closed_form(name, T, len(obs[v]), ess, N)
                    if not (math.isfinite(got) and O.close(got, exp)):
                        return {"key": f"default-states:{name}.local_score", "what": f"{label}: {name}.local_score({v!r},{ps}) = {got!r}, closed form on the observed "
                                f"states {obs[v]} gives {exp!r}"}
    # one partial dict handed to two scorers on different data
    shared = {c0: list(obs[c0])}
    snapshot = {k: list(v) for k, v in shared.items()}
    half = case["rows"][: max(1, N // 2)]
    a = E.K2Score(make_df(case, rows=half), state_names=shared)
    b = E.K2Score(df, state_names=shared)
    if shared != snapshot:
        return {"key": "default-states:caller-dict-mutated", "what": f"the state_names dict passed by the caller changed from {snapshot} to {shared}"}
    for v in cols[1:]:
        cfgs, T = count_table(case, obs, v, [])
        got, exp = float(b.local_score(v, [])), closed_form("K2Score", T, len(obs[v]), ess, N)
        if not O.close(got, exp):
            return {"key": "default-states:shared-dict", "what": f"second scorer built with the same partial state_names dict: K2 local_score({v!r},[]) = {got!r}, expected {exp!r}"}
    return None


def _model(edges, nodes, bn):
    from pgmpy.base import DAG
    from pgmpy.models import BayesianNetwork

    m = BayesianNetwork() if bn else DAG()
    m.add_nodes_from(nodes)
    m.add_edges_from([tuple(e) for e in edges])
    return m


def dags_for(case, tier):
    cols = case["cols"]
    all_d = list(O.all_dags(len(cols), cols))
    if len(cols) >= 4:
        rng = O.mk_rng(case["perm_seed"], "dags")
        all_d = rng.sample(all_d, 40)
    return all_d


def check_network_score(case):
    """score(G) = sum of the scorer's own local scores + prior(G); metric wrapper; cached scorer's score()."""
    _quiet()
    SC = importlib.import_module("pgmpy.estimators.ScoreCache")   # the module; the package attribute of that name is the class
    from pgmpy.metrics import structure_score

    F = Fails()
    cols, ess = case["cols"], case["ess"]
    states = states_of(case)
    df = make_df(case)
    sc = make_scorers(df, states, ess)
    n = len(cols)
    local = {}
    for i, edges in enumerate(dags_for(case, None)):
        m = _model(edges, cols, bn=i % 2 == 1)
        for name in SCORERS:
            tot = 0.0
            for v in cols:
                ps = sorted(O.parents_of(edges, v))
                if (name, v, tuple(ps)) not in local:
                    local[(name, v, tuple(ps))] = float(sc[name].local_score(v, ps))
                tot += local[(name, v, tuple(ps))]
            prior = -(len(edges) + n * (n - 1) / 2.0) * log(2.0) if name == "BDsScore" else 0.0
            got = float(sc[name].score(m))
            if not O.close(got, tot + prior):
                F.add(f"{name}.score:decomposition", f"edges {edges}: score={got!r}, sum of local scores {tot!r} + structure prior {prior!r}")
            meth = {"K2Score": "k2", "BDeuScore": "bdeu", "BDsScore": "bds", "BicScore": "bic"}.get(name)
            if meth and i % 3 == 0:
                kw = {"state_names": states}
                if meth in ("bdeu", "bds"):
                    kw["equivalent_sample_size"] = ess
                w = float(structure_score(m, df, scoring_method=meth, **kw))
                if not O.close(w, got):
                    F.add(f"structure_score:{meth}", f"edges {edges}: structure_score={w!r} but {name}.score={got!r}")
            if i % 3 == 1:
                c = SC.ScoreCache(sc[name], df, max_size=2)
                cg = float(c.score(m))
                if not O.close(cg, got):
                    key = "ScoreCache.score:structure-prior" if name == "BDsScore" and O.close(cg, tot) else "ScoreCache.score:value"
                    F.add(key, f"edges {edges}: ScoreCache({name}).score={cg!r} but {name}.score={got!r}")
    return F.result()


def gen_cache(tier, seed):
    rng = O.mk_rng(seed, "c10-cache")
    for k in range(32 if tier == "quick" else 200):
        fr = seeded_frame(rng, 3, hi=20)
        pool = [[v, ps] for v in fr["cols"] for ps in parent_lists(fr["cols"], v)]
        qs = []
        for _ in range(rng.choice((12, 30))):
            # repeats and interleaving: draw from a small hot set most of the time
            qs.append(rng.choice(pool[: rng.choice((2, 3, 5))]) if rng.random() < 0.5 else rng.choice(pool))
        fr["queries"] = qs
        fr["max_size"] = rng.choice((1, 1, 2, 3, 5, 10000))
        fr["scorer"] = SCORERS[k % len(SCORERS)]
        yield fr


def check_cache(case):
    _quiet()
    SC = importlib.import_module("pgmpy.estimators.ScoreCache")   # the module; the package attribute of that name is the class

    states = states_of(case)
    df = make_df(case)
    base = make_scorers(df, states, case["ess"])[case["scorer"]]
    cache = SC.ScoreCache(base, df, max_size=case["max_size"])
    for i, (v, ps) in enumerate(case["queries"]):
        want = float(base.local_score(v, list(ps)))
        for arg in (list(ps), tuple(ps)):
            got = float(cache.local_score(v, arg))
            if got != want:
                return {"key": "ScoreCache.local_score:value", "what": f"query #{i} ({v!r},{ps}) max_size={case['max_size']} base={case['scorer']}: cached {got!r}, uncached {want!r}"}
    return None


def mec_key(nodes, edges):
    return (frozenset(O.skeleton(edges)), frozenset(O.vstructures(edges)))


def check_equivalence(case):
    """BDeu / BIC / AIC give one score per Markov equivalence class (same skeleton and v-structures)."""
    _quiet()
    cols, ess = case["cols"], case["ess"]
    states = states_of(case)
    df = make_df(case)
    sc = make_scorers(df, states, ess)
    extra = any(len(states[c]) > len({r[i] for r in case["rows"]}) for i, c in enumerate(cols))
    F = Fails()
    local = {}
    for name in ("BDeuScore", "BicScore", "AICScore"):
        classes = {}
        for i, edges in enumerate(O.all_dags(len(cols), cols)):
            if len(cols) <= 3:
                val = float(sc[name].score(_model(edges, cols, bn=i % 2 == 0)))
            else:
                val = 0.0
                for v in cols:
                    k = (name, v, tuple(sorted(O.parents_of(edges, v))))
                    if k not in local:
                        local[k] = float(sc[name].local_score(v, list(k[2])))
                    val += local[k]
            k = mec_key(cols, edges)
            if k in classes:
                if not O.close(val, classes[k][0]):
                    suffix = ":unobserved-child-state" if (extra and name == "BDeuScore") else ""
                    F.add(f"score_equivalence:{name}{suffix}", f"Markov-equivalent DAGs {classes[k][1]} and {edges} score {classes[k][0]!r} vs {val!r}")
                    break
            else:
                classes[k] = (val, edges)
    return F.result()


def gen_equiv(tier, seed):
    for i, c in enumerate(tiny_frames(tier)):
        if i % (10 if tier == "quick" else 3) == 0:
            yield c
    rng = O.mk_rng(seed, "c10-equiv")
    for k in range(20 if tier == "quick" else 120):
        fr = seeded_frame(rng, 3 if (tier == "quick" or k % 6) else 4, hi=25)
        if k % 2 == 0:
            fr["declared"] = {}     # states exactly as observed: the classical setting of the equivalence theorem
        yield fr


def nontrivial(case):
    return len(case["rows"]) >= 2 and len({tuple(r) for r in case["rows"]}) >= 2


def groups(tier):
    fr = ("every multiset of <= 3 rows over 3 binary columns (164 frames; declared states none / as observed / one extra state) + "
          "seeded sparse frames (70, thorough 440; 3 columns, thorough also 4; cards 1..3; 5-40 rows; int / object / categorical columns; declared extra "
          "and re-ordered states; ess in {1,2.5,5,10})")
    return [
        Group("local_scores", gen_frames, check_local_scores, nontrivial, engine="E3",
              bound=fr + "; every variable x every parent subset (size-2 subsets in both orders) x K2/BDeu/BDs/BIC/AIC vs closed forms on the "
                         "full r x q table; state_counts(reindex=False/True) vs naive counting; row shuffle + column reversal"),
        Group("default_states", gen_frames_small, check_default_states, nontrivial, engine="E3",
              bound="same frames as network_score: scorers built without state_names (plain and with a Categorical column carrying an unused "
                    "level) and with one partial dict shared by two scorers on different data; local scores vs closed forms on the observed states"),
        Group("network_score", gen_frames_small, check_network_score, nontrivial, engine="E3",
              bound="1/8 (thorough 1/2) of the tiny frames + 24 (160) seeded frames; all 25 DAGs on 3 columns (40 sampled on 4) as DAG / "
                    "BayesianNetwork: score = sum local + prior for 5 scorers, structure_score wrapper, ScoreCache.score"),
        Group("score_cache", gen_cache, check_cache, nontrivial, engine="E3",
              bound="32 (200) seeded frames x query sequences of 12/30 (variable, parents) pairs with repeats, max_size in {1,2,3,5,10000}, "
                    "parents as list and tuple, all five base scorers in rotation"),
        Group("score_equivalence", gen_equiv, check_equivalence, nontrivial, engine="E3",
              bound="1/10 (1/3) of the tiny frames + 20 (120) seeded frames; all DAGs on 3 columns (thorough: 4 columns, 543 DAGs) grouped by "
                    "(skeleton, v-structures); BDeu/BIC/AIC constant on each class"),
    ]
