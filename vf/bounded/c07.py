"""C07 bounded groups: samplers draw from the law they claim, reproducibly.

Deterministic by construction.  A statement about the *law* of a sampler is turned into a call-site
contract: the RNG sinks used by pgmpy/sampling/Sampling.py (`sample_discrete`, `sample_discrete_maps`;
inside mathext: `np.random.choice`) are replaced IN THE CHECKER PROCESS by recording stubs that
(a) record the weight vector handed over for every row and (b) return an *enumerating* choice among
the states of positive weight (mixed-radix digits over the row number, so that every reachable parent
configuration is driven).  Assumed sink contract: "row k is drawn from weights[k]".  The check is then:
the weights handed over for row k are exactly the conditional the sampler claims, *by state name*,
computed from the plain spec (Fractions) - independent of pgmpy's parent order / flat indexing.

A second family of groups uses the real RNG and checks only deterministic facts (seed reproducibility,
state names, impossible rows, row counts, latent columns, simulate() structure).  No statistical test
ever produces a verdict.
"""
from __future__ import annotations

import os

os.environ.setdefault("TQDM_DISABLE", "1")

import contextlib
import inspect
import itertools
import logging
import math
import signal
import warnings
from fractions import Fraction

from vf.core import Group
from vf.bounded import oracles as O

TOL = 1e-9


# ----------------------------------------------------------------------------- environment
def _quiet():
    warnings.filterwarnings("ignore")
    logging.getLogger("pgmpy").setLevel(logging.CRITICAL)
    try:
        from pgmpy import config

        config.set_show_progress(False)
    except Exception:
        pass


# ----------------------------------------------------------------------------- spec helpers (oracle side)
STYLES = ("str", "int", "mixed", "perm", "int", "str", "onebased", "mixed")


def _styled_states(node, card, style):
    if style == "onebased":
        return list(range(1, card + 1))
    return O.state_names(node, card, style)


def _int_name_clash(spec):
    """input class: some variable has an int state *name* n < card stored at a position != n, so that
    'state number n' and 'state name n' denote different states."""
    for v, st in spec["states"].items():
        for i, s in enumerate(st):
            if isinstance(s, int) and not isinstance(s, bool) and 0 <= s < len(st) and s != i:
                return True
    return False


def _identity_names(spec):
    return all(list(st) == list(range(len(st))) for st in spec["states"].values())


def _cls(spec):
    return ":int-names-vs-numbers" if _int_name_clash(spec) else ""


class _Hang(BaseException):
    pass


@contextlib.contextmanager
def _time_limit(sec):
    def h(*a):
        raise _Hang()

    old = signal.signal(signal.SIGALRM, h)
    signal.alarm(sec)
    try:
        yield
    finally:
        signal.alarm(0)
        signal.signal(signal.SIGALRM, old)


_STAGE = [""]  # which sampler call is running (for the time-limit key)
CASE_LIMIT = 40  # seconds; a normal case takes well under a second


# failure classes that the name/number confusion can produce (wrong column picked, consequently impossible rows / NaN kernels)
_CLASS_DEPENDENT = (":weights", ":_weight", "kernel", "zero-probability", "raised", "by-number", "does-not-terminate")
_CLASS_INDEPENDENT = ("partial_samples:named-states",)


def _classed(check):
    """failures on models of the input class 'int state names that collide with state numbers' carry the class in
    their key (also exceptions raised inside pgmpy), so that the class can be listed without hiding anything else."""
    import functools
    import traceback

    @functools.wraps(check)
    def wrapper(case):
        sp = case.get("spec") or case.get("mn")
        cls = _cls(sp)
        _STAGE[0] = ""
        try:
            with _time_limit(CASE_LIMIT):
                r = check(case)
        except _Hang:
            return {"key": f"{_STAGE[0] or check.__name__}:does-not-terminate{cls}", "what": f"no result within {CASE_LIMIT} s (last sampler call: {_STAGE[0]})"}
        except Exception as e:  # noqa
            if not cls:
                raise
            lines = [l for l in traceback.format_exc().splitlines() if l.strip().startswith("File ")]
            if not any("/pgmpy/" in l for l in lines[-6:]):
                raise
            return {"key": f"raised:{type(e).__name__}{cls}", "what": f"real code raised {type(e).__name__}: {e}"}
        if isinstance(r, dict) and cls and cls not in r["key"] and any(t in r["key"] for t in _CLASS_DEPENDENT) \
                and not any(t in r["key"] for t in _CLASS_INDEPENDENT):
            r["key"] += cls
        return r

    return wrapper


def _mk_spec(rng, names, edges, style, zeros):
    cards = {v: rng.choice((1, 2, 2, 3, 3)) for v in names}
    spec = O.random_bn_spec(rng, names, edges, cards=cards, style="int", zeros=zeros, parent_shuffle=True)
    spec["states"] = {v: _styled_states(v, cards[v], style) for v in names}
    return spec


def gen_models(tier, seed, salt="m", variants=None, maxn=None):
    """all labelled DAGs on <= 3 (thorough 4) nodes x variants (cards in {1,2,3}, state-name style, zeros, latents)."""
    rng = O.mk_rng(seed, "c07", salt)
    sizes = (1, 2, 3) if tier == "quick" else (1, 2, 3, 4)
    if maxn:
        sizes = tuple(n for n in sizes if n <= maxn)
    k = 0
    for n in sizes:
        names = O.node_names(n, "long" if n % 2 else "x")
        nvar = variants or (5 if n <= 3 else 2)
        for edges in O.all_dags(n, names):
            for j in range(nvar):
                k += 1
                style = STYLES[(k + j) % len(STYLES)]
                zeros = bool((k // 2 + j) % 2)
                spec = _mk_spec(rng, names, edges, style, zeros)
                lat = [v for v in names if rng.random() < 0.3] if (k % 3 == 0) else []
                yield {"spec": O.spec_to_json(spec), "latents": lat, "style": style, "seed": rng.randint(0, 10 ** 6)}


def nontrivial(case):
    return len(case.get("spec", {}).get("edges", [])) >= 1 or bool(case.get("always"))


def _column(spec, v, a):
    """P(v = . | parents as in assignment a) as list of Fractions in declared state order."""
    c = spec["cpd"][v]
    j = O.col_index(spec, c["parents"], a)
    return [row[j] for row in c["table"]]


def _vec_close(got, want, tol=TOL):
    got = list(got)
    if len(got) != len(want):
        return False
    for g, w in zip(got, want):
        g = float(g)
        if g != g or abs(g - float(w)) > tol:
            return False
    return True


def _prod_cards(spec, nodes=None):
    p = 1
    for v in (nodes if nodes is not None else spec["nodes"]):
        p *= len(spec["states"][v])
    return p


def _eq_state(a, b):
    """value equality that does not confuse 1 and '1' but accepts numpy scalars / 0.0 for 0."""
    if isinstance(b, str) or isinstance(a, str):
        return isinstance(a, str) and isinstance(b, str) and a == b
    try:
        return a == b
    except Exception:
        return False


def _col_list(df, c):
    return [x.item() if hasattr(x, "item") else x for x in df[c].tolist()]


# ----------------------------------------------------------------------------- recording sinks
class Recorder:
    def __init__(self, mode="enumerate", seed=0):
        self.invocations = []
        self.cur = None
        self.loose = []  # sink calls outside forward/lw invocations (Gibbs)
        self.mode = mode
        self.rng = O.mk_rng(seed, "stub")

    def choose(self, inv, k, nvals, supp):
        if self.mode == "enumerate" and inv is not None:
            d = (k // inv["stride"]) % nvals
            return supp[d % len(supp)]
        return supp[self.rng.randrange(len(supp))]


@contextlib.contextmanager
def patched(rec):
    """replace the RNG sinks in pgmpy.sampling.Sampling by recording stubs; mark forward/lw invocations."""
    import numpy as np
    import pgmpy.sampling.Sampling as S

    cls = S.BayesianModelSampling
    saved = (S.sample_discrete, S.sample_discrete_maps, S._return_samples, cls.forward_sample, cls.likelihood_weighted_sample)
    o_ret, o_fwd, o_lw = saved[2], saved[3], saved[4]

    def _emit(values, rows, n, sink):
        vals = [int(v) for v in values]
        inv = rec.cur
        out = []
        for k in range(n):
            wk = rows[k]
            supp = [i for i, x in enumerate(wk) if x > 0] or list(range(len(vals)))
            out.append(vals[rec.choose(inv, k, len(vals), supp)])
        call = {"sink": sink, "values": vals, "rows": rows, "ret": out}
        if inv is not None:
            inv["stride"] *= max(1, len(vals))
            inv["calls"].append(call)
        else:
            rec.loose.append(call)
        return np.array(out, dtype=int)

    def sd(values, weights, size=1, seed=None):
        w = np.array(weights, dtype=float)
        n = int(size)
        rows = [w.tolist()] * n if w.ndim == 1 else [w[k].tolist() for k in range(n)]
        return _emit(values, rows, n, "sample_discrete")

    def sdm(states, weight_indices, index_to_weight, size=1, seed=None):
        wi = np.asarray(weight_indices)
        n = int(size)
        cache = {}
        rows = []
        for k in range(n):
            key = int(wi[k])
            if key not in cache:
                cache[key] = np.array(index_to_weight[key], dtype=float).tolist()
            rows.append(cache[key])
        return _emit(states, rows, n, "sample_discrete_maps")

    def rs(samples, state_names_map=None):
        if rec.cur is not None and rec.cur.get("raw") is None and state_names_map is not None:
            rec.cur["raw"] = samples.copy()
        return o_ret(samples, state_names_map)

    def _wrap(orig, kind):
        sig = inspect.signature(orig)

        def wrapper(self, *a, **kw):
            ba = sig.bind(self, *a, **kw)
            ba.apply_defaults()
            ps = ba.arguments.get("partial_samples")
            inv = {"kind": kind, "order": list(self.topological_order), "size": int(ba.arguments["size"]),
                   "partial": list(ps.columns) if ps is not None else [],
                   "partial_values": {c: [x.item() if hasattr(x, "item") else x for x in ps[c].tolist()] for c in ps.columns} if ps is not None else {},
                   "evidence": list(ba.arguments.get("evidence") or []) if kind == "lw" else [],
                   "calls": [], "raw": None, "stride": 1}
            prev = rec.cur
            rec.cur = inv
            try:
                res = orig(self, *a, **kw)
            finally:
                rec.cur = prev
            inv["result"] = res
            rec.invocations.append(inv)
            return res

        return wrapper

    S.sample_discrete, S.sample_discrete_maps, S._return_samples = sd, sdm, rs
    cls.forward_sample = _wrap(o_fwd, "forward")
    cls.likelihood_weighted_sample = _wrap(o_lw, "lw")
    try:
        yield rec
    finally:
        S.sample_discrete, S.sample_discrete_maps, S._return_samples, cls.forward_sample, cls.likelihood_weighted_sample = saved


def _decode(spec, inv):
    """raw frame (state numbers; supplied values for partial columns) -> names per node per row."""
    raw = inv["raw"]
    names = {}
    for v in spec["nodes"]:
        if v in inv["partial"]:
            names[v] = list(inv["partial_values"][v])  # what the caller supplied (state names)
        else:
            col = _col_list(raw, v)
            st = spec["states"][v]
            names[v] = [st[int(x)] for x in col]
    return names


def check_invocation(spec, inv, fn, free=(), cls=""):
    """call-site contract of one forward / likelihood-weighted pass against the spec (by state name)."""
    nodes = spec["nodes"]
    order = inv["order"]
    pos = {v: i for i, v in enumerate(order)}
    if len(order) != len(nodes) or set(order) != set(nodes) or any(pos[u] > pos[v] for u, v in spec["edges"]):
        return {"key": f"{fn}:order", "what": f"sampling order {order} is not a topological order of {spec['edges']}"}
    ev = {}
    for var, st in inv["evidence"]:
        ev[var] = st
    fixed = set(inv["partial"]) | set(ev)
    sampled = [v for v in order if v not in fixed]
    if len(inv["calls"]) != len(sampled):
        return {"key": f"{fn}:sink-calls", "what": f"{len(inv['calls'])} RNG sink calls for {len(sampled)} nodes to be sampled ({sampled})"}
    raw, size = inv["raw"], inv["size"]
    if raw is None:
        return {"key": f"{fn}:no-frame", "what": "sampler did not pass its frame through _return_samples"}
    if len(raw) != size or any(v not in raw.columns for v in nodes):
        return {"key": f"{fn}:rows", "what": f"internal frame has {len(raw)} rows / columns {list(raw.columns)}; size={size}"}
    try:
        names = _decode(spec, inv)
    except (IndexError, ValueError, TypeError) as e:
        return {"key": f"{fn}:state-number-out-of-range", "what": f"raw frame holds a non state number: {e!r}"}
    for call, v in zip(inv["calls"], sampled):
        card = len(spec["states"][v])
        if call["values"] != list(range(card)):
            return {"key": f"{fn}:sink-values", "what": f"node {v}: sink was offered values {call['values']} for cardinality {card}"}
        if len(call["ret"]) != size or [int(x) for x in _col_list(raw, v)] != call["ret"]:
            return {"key": f"{fn}:draw-not-stored", "what": f"node {v}: column does not hold the values drawn for it"}
        if v in free:
            # intervened variable: its law is free but must not depend on anything sampled before (incoming edges are cut)
            if any(not _vec_close(call["rows"][k], call["rows"][0], 1e-12) for k in range(size)):
                return {"key": f"{fn}:do-variable-not-cut-from-parents", "what": f"node {v}: the weights offered for the intervened variable differ between rows"}
            continue
        ps = spec["cpd"][v]["parents"]
        if not ps and call["sink"] != "sample_discrete":
            pass
        cache = {}
        for k in range(size):
            key = tuple(names[p][k] for p in ps)
            if key not in cache:
                cache[key] = _column(spec, v, dict(zip(ps, key)))
            if not _vec_close(call["rows"][k], cache[key]):
                return {"key": f"{fn}:weights{cls}", "what": f"node {v} row {k}: parents {dict(zip(ps, key))}: weights handed to the RNG "
                        f"{call['rows'][k]} != CPD column {[str(x) for x in cache[key]]}"}
    if inv["kind"] == "lw":
        for var, st in ev.items():
            want = spec["states"][var].index(st)
            if any(int(x) != want for x in _col_list(raw, var)):
                return {"key": f"{fn}:evidence-not-fixed", "what": f"evidence column {var} is not constant at state {st!r}"}
        wcol = _col_list(raw, "_weight")
        for k in range(size):
            a = {v: names[v][k] for v in nodes}
            w = Fraction(1)
            for var in ev:
                w *= O.cpd_value(spec, var, a)
            if not O.close(wcol[k], w, TOL):
                return {"key": f"{fn}:_weight{cls}", "what": f"row {k} {a}: _weight {wcol[k]} != product of evidence conditionals {w} = {float(w)}"}
    return None


def check_frame(spec, names, df, size, want_cols, fn, extra=()):
    """the returned frame: exactly `size` rows, the right columns, each value the *name* of the drawn state."""
    if len(df) != size:
        return {"key": f"{fn}:rows", "what": f"{len(df)} rows returned, {size} requested"}
    got = [c for c in df.columns if c not in extra]
    if set(got) != set(want_cols) or len(got) != len(set(got)):
        return {"key": f"{fn}:columns", "what": f"columns {list(df.columns)}; expected {sorted(want_cols, key=str)} (+{list(extra)})"}
    for v in want_cols:
        col = _col_list(df, v)
        for k in range(size):
            if not _eq_state(col[k], names[v][k]):
                return {"key": f"{fn}:state-names", "what": f"column {v} row {k}: {col[k]!r} returned, drawn state is {names[v][k]!r}"}
    return None


def _cpds_unchanged(spec, m, fn):
    import numpy as np

    for v in spec["nodes"]:
        if not np.array_equal(np.asarray(m.get_cpds(v).values), np.asarray(O.make_cpd(spec, v).values)):
            return {"key": f"{fn}:model-mutated", "what": f"CPD of {v} changed by sampling"}
    return None


# ----------------------------------------------------------------------------- group: forward_sample contract
@_classed
def check_forward(case):
    import pandas as pd
    from pgmpy.sampling import BayesianModelSampling

    _quiet()
    spec = O.spec_from_json(case["spec"])
    lat = case["latents"]
    cls = _cls(spec)
    m = O.make_bn(spec, lat)
    s = BayesianModelSampling(m)
    nodes = spec["nodes"]
    for incl in (False, True):
        for size in (_prod_cards(spec) + 1, 1):
            rec = Recorder()
            with patched(rec):
                df = s.forward_sample(size=size, include_latents=incl, show_progress=False, seed=case["seed"] % 1000)
            if len(rec.invocations) != 1:
                return {"key": "forward_sample:invocations", "what": f"{len(rec.invocations)} passes"}
            inv = rec.invocations[0]
            f = check_invocation(spec, inv, "forward_sample", cls=cls)
            if f:
                return f
            f = check_frame(spec, _decode(spec, inv), df, size, [v for v in nodes if incl or v not in lat], "forward_sample")
            if f:
                return f
    f = _cpds_unchanged(spec, m, "forward_sample")
    if f:
        return f
    # partial samples: supplied columns are used (by state name) instead of being generated
    named = "" if _identity_names(spec) else ":named-states"
    rng = O.mk_rng(case["seed"], "partial")
    subsets = [[v] for v in nodes] + ([rng.sample(nodes, 2)] if len(nodes) >= 3 else [])
    size = _prod_cards(spec) * 2
    for sub in subsets:
        ps = pd.DataFrame({v: [spec["states"][v][(k // (1 + i)) % len(spec["states"][v])] for k in range(size)] for i, v in enumerate(sub)})
        supplied = {v: list(ps[v]) for v in sub}
        rec = Recorder()
        try:
            with patched(rec):
                df = s.forward_sample(size=size, include_latents=True, show_progress=False, partial_samples=ps)
        except Exception as e:  # noqa
            if named:
                return {"key": f"forward_sample:partial_samples{named}:raised", "what": f"partial_samples on {sub} with state names "
                        f"{[spec['states'][v] for v in sub]}: {type(e).__name__}: {e}"}
            raise
        inv = rec.invocations[0]
        f = check_invocation(spec, inv, f"forward_sample:partial_samples{named}", cls=cls)
        if f:
            return f
        for v in sub:
            got = _col_list(df, v) if v in df.columns else None
            if got is None or len(got) != size or not all(_eq_state(a, b) for a, b in zip(got, supplied[v])):
                return {"key": f"forward_sample:partial_samples{named}:column-not-preserved", "what": f"supplied column {v}={supplied[v][:6]}.. "
                        f"(state names {spec['states'][v]}) came back as {None if got is None else got[:6]}.."}
        f = check_frame(spec, _decode(spec, inv), df, size, nodes, f"forward_sample:partial_samples{named}")
        if f:
            return f
    return None


# ----------------------------------------------------------------------------- group: likelihood weighting contract
def _evidence_sets(spec, rng, maxn=6, positive=False, base=None):
    """single- and two-variable evidence (state names); `positive`: only evidence of positive probability in `base or spec`."""
    nodes = spec["nodes"]
    out = []
    for v in nodes:
        for st in spec["states"][v]:
            out.append({v: st})
    pairs = []
    for a, b in itertools.combinations(nodes, 2):
        for sa in spec["states"][a]:
            for sb in spec["states"][b]:
                pairs.append({a: sa, b: sb})
    rng.shuffle(pairs)
    rng.shuffle(out)
    out = out[:maxn] + pairs[: max(2, maxn // 2)]
    if positive:
        b = base or spec
        out = [e for e in out if sum(O.marginal(b, [], e).values()) > 0]
    return out


@_classed
def check_lw(case):
    from pgmpy.factors.discrete import State
    from pgmpy.sampling import BayesianModelSampling

    _quiet()
    spec = O.spec_from_json(case["spec"])
    lat = case["latents"]
    cls = _cls(spec)
    m = O.make_bn(spec, lat)
    s = BayesianModelSampling(m)
    nodes = spec["nodes"]
    rng = O.mk_rng(case["seed"], "lw")
    evs = [{}] + _evidence_sets(spec, rng)
    for i, ev in enumerate(evs):
        incl = bool(i % 2)
        free_nodes = [v for v in nodes if v not in ev]
        size = _prod_cards(spec, free_nodes) + 1
        evl = [State(v, st) for v, st in ev.items()] if i % 3 else [(v, st) for v, st in ev.items()]
        rec = Recorder()
        with patched(rec):
            df = s.likelihood_weighted_sample(evidence=evl, size=size, include_latents=incl, show_progress=False)
        if len(rec.invocations) != 1:
            return {"key": "likelihood_weighted_sample:invocations", "what": f"{len(rec.invocations)} passes"}
        inv = rec.invocations[0]
        inv["evidence"] = list(ev.items())
        f = check_invocation(spec, inv, "likelihood_weighted_sample", cls=cls)
        if f:
            f["what"] = f"evidence {ev}: " + f["what"]
            return f
        names = _decode(spec, inv)
        f = check_frame(spec, names, df, size, [v for v in nodes if incl or v not in lat], "likelihood_weighted_sample", extra=("_weight",))
        if f:
            return f
        if "_weight" not in df.columns or not all(O.close(a, b, 1e-12) for a, b in zip(_col_list(df, "_weight"), _col_list(inv["raw"], "_weight"))):
            return {"key": "likelihood_weighted_sample:_weight-column", "what": f"evidence {ev}: returned _weight column missing or altered"}
        for v, st in ev.items():
            if v in df.columns and not all(_eq_state(x, st) for x in _col_list(df, v)):
                return {"key": "likelihood_weighted_sample:evidence-not-fixed", "what": f"evidence {ev}: column {v} = {_col_list(df, v)[:5]}"}
    return _cpds_unchanged(spec, m, "likelihood_weighted_sample")


# ----------------------------------------------------------------------------- group: rejection sampling contract
def _check_rejection_run(spec, lat, rec, df, ev, size, incl, fn, cls, free=(), want_cols=None):
    nodes = spec["nodes"]
    rows = []
    for inv in rec.invocations:
        if inv["kind"] != "forward":
            return {"key": f"{fn}:invocations", "what": "unexpected sampler pass"}
        f = check_invocation(spec, inv, f"{fn}:forward_sample", free=free, cls=cls)
        if f:
            return f
        names = _decode(spec, inv)
        for k in range(inv["size"]):
            rows.append({v: names[v][k] for v in nodes})
    keep = [r for r in rows if all(_eq_state(r[v], st) for v, st in ev.items())][:size]
    if len(df) != size:
        return {"key": f"{fn}:rows", "what": f"evidence {ev}: {len(df)} rows returned, {size} requested"}
    cols = want_cols if want_cols is not None else [v for v in nodes if incl or v not in lat]
    if set(df.columns) != set(cols) or len(df.columns) != len(cols):
        return {"key": f"{fn}:columns", "what": f"columns {list(df.columns)}; expected {cols} (latents {lat}, include_latents={incl})"}
    for v, st in ev.items():
        if v in df.columns and not all(_eq_state(x, st) for x in _col_list(df, v)):
            return {"key": f"{fn}:evidence-violated", "what": f"evidence {ev}: column {v} holds {sorted(set(map(repr, _col_list(df, v))))}"}
    if list(df.index) != list(range(size)):
        return {"key": f"{fn}:index", "what": f"index {list(df.index)[:8]}.. is not 0..size-1"}
    if len(keep) < size:
        return {"key": f"{fn}:rows-not-generated", "what": f"evidence {ev}: {size} rows returned but only {len(keep)} generated rows agree with the evidence"}
    for v in cols:
        col = _col_list(df, v)
        for k in range(size):
            if not _eq_state(col[k], keep[k][v]):
                return {"key": f"{fn}:not-the-accepted-rows", "what": f"evidence {ev}: row {k} column {v} = {col[k]!r}; the k-th generated row "
                        f"agreeing with the evidence has {keep[k][v]!r}"}
    return None


@_classed
def check_rejection(case):
    import pandas as pd
    from pgmpy.factors.discrete import State
    from pgmpy.sampling import BayesianModelSampling

    _quiet()
    spec = O.spec_from_json(case["spec"])
    lat = case["latents"]
    cls = _cls(spec)
    m = O.make_bn(spec, lat)
    s = BayesianModelSampling(m)
    nodes = spec["nodes"]
    rng = O.mk_rng(case["seed"], "rej")
    evs = [{}] + _evidence_sets(spec, rng, positive=True)
    for i, ev in enumerate(evs):
        incl = bool(i % 2)
        size = (1, 7, _prod_cards(spec) + 2)[i % 3]
        evl = [State(v, st) for v, st in ev.items()] if i % 2 else [(v, st) for v, st in ev.items()]
        rec = Recorder()
        with patched(rec):
            _STAGE[0] = "rejection_sample"
            df = s.rejection_sample(evidence=evl, size=size, include_latents=incl, show_progress=False)
        f = _check_rejection_run(spec, lat, rec, df, ev, size, incl, "rejection_sample", cls)
        if f:
            return f
    # partial samples (identity state names only: see forward_sample:partial_samples:named-states)
    if _identity_names(spec):
        size = _prod_cards(spec) * 2
        for v in nodes:
            ps = pd.DataFrame({v: [spec["states"][v][k % len(spec["states"][v])] for k in range(size)]})
            others = [u for u in nodes if u != v]
            for ev in ([e for e in _evidence_sets(spec, rng, 3, positive=True) if v not in e][:2] + [{}]):
                if ev:
                    # with evidence the enumerating RNG stub can reject the same rows for ever (an artefact of the
                    # stub, not of pgmpy): this combination runs on the real RNG and checks the structural contract only
                    df = s.rejection_sample(evidence=list(ev.items()), size=3, include_latents=True, show_progress=False,
                                            partial_samples=ps, seed=case.get("seed", 0) if isinstance(case, dict) else 0)
                    if len(df) != 3:
                        return {"key": "rejection_sample:partial_samples:rows", "what": f"partial_samples on {v}, evidence {ev}: {len(df)} rows instead of 3"}
                    for e_var, e_val in ev.items():
                        if not all(x == e_val for x in df[e_var]):
                            return {"key": "rejection_sample:partial_samples:evidence-violated", "what": f"evidence {ev} not respected: {list(df[e_var])}"}
                    if v in df.columns and not set(df[v]) <= set(ps[v]):
                        return {"key": "rejection_sample:partial_samples:column-not-preserved", "what": f"column {v}: {list(df[v])} not among the partial samples"}
                    continue
                rec = Recorder()
                with patched(rec):
                    df = s.rejection_sample(evidence=list(ev.items()), size=3, include_latents=True, show_progress=False, partial_samples=ps)
                tag = "rejection_sample:partial_samples" + ("" if ev else ":no-evidence")
                for inv in rec.invocations:
                    if inv["partial"] != [v]:
                        return {"key": f"{tag}:ignored", "what": f"partial_samples on {v} (evidence {ev}) not handed to forward_sample"}
                f = _check_rejection_run(spec, lat, rec, df, ev, 3, True, tag, cls)
                if f:
                    return f
    return _cpds_unchanged(spec, m, "rejection_sample")


# ----------------------------------------------------------------------------- group: pre_compute_reduce_maps / _reduce_marg
@_classed
def check_reduce_maps(case):
    from pgmpy.sampling import BayesianModelSampling
    from pgmpy.sampling.base import BayesianModelInference

    _quiet()
    spec = O.spec_from_json(case["spec"])
    lat = case["latents"]
    cls = _cls(spec)
    m = O.make_bn(spec, lat)
    s = BayesianModelSampling(m)
    rng = O.mk_rng(case["seed"], "rm")
    st = spec["states"]

    def expected(v, ev, tup_names):
        ps = spec["cpd"][v]["parents"]
        rest = [p for p in ps if p not in ev]
        tot = [Fraction(0)] * len(st[v])
        n = 0
        for ra in O.all_assignments(spec, rest):
            col = _column(spec, v, {**dict(zip(ev, tup_names)), **ra})
            tot = [a + b for a, b in zip(tot, col)]
            n += 1
        return [x / n for x in tot]

    for v in spec["nodes"]:
        ps = spec["cpd"][v]["parents"]
        # default evidence = all non-latent parents in CPD order, all state-number combinations
        dflt = [p for p in ps if p not in lat]
        calls = [(None, dflt, None)]
        for r in range(1, len(ps) + 1):
            for ev in itertools.permutations(ps, r):
                calls.append((list(ev), list(ev), None))
                combos = list(itertools.product(*[range(len(st[p])) for p in ev]))
                rng.shuffle(combos)
                calls.append((list(ev), list(ev), combos[: max(1, len(combos) - 1)]))
        for ev_arg, ev, combos in calls:
            if ev_arg is None and not ps:
                continue
            kw = {}
            if ev_arg is not None:
                kw["evidence"] = list(ev_arg)
            if combos is not None:
                kw["state_combinations"] = list(combos)
            s2i, i2w = s.pre_compute_reduce_maps(variable=v, **kw)
            want_keys = list(combos) if combos is not None else list(itertools.product(*[range(len(st[p])) for p in ev]))
            if set(s2i.keys()) != set(want_keys):
                return {"key": "pre_compute_reduce_maps:keys", "what": f"{v} evidence={ev_arg} combos={combos}: keys {sorted(s2i)} != {sorted(want_keys)}"}
            for tup in want_keys:
                got = i2w[int(s2i[tup])]
                want = expected(v, ev, [st[p][i] for p, i in zip(ev, tup)])
                if not _vec_close(got, want):
                    return {"key": f"pre_compute_reduce_maps:weights{cls}", "what": f"{v} evidence order {ev} (CPD parents {ps}) state numbers {tup}: "
                            f"{list(map(float, got))} != column {[str(x) for x in want]}"}
            if len({int(i) for i in s2i.values()}) != len(i2w) and combos is None:
                return {"key": "pre_compute_reduce_maps:unused-index", "what": f"{v}: index_to_weight has entries no state maps to"}
        # _reduce_marg directly, by state *name* and by state number
        cpd = m.get_cpds(v)
        for r in range(1, len(ps) + 1):
            for ev in itertools.permutations(ps, r):
                ridx = [cpd.variables.index(p) for p in ev]
                for tup in itertools.product(*[range(len(st[p])) for p in ev]):
                    nm = [st[p][i] for p, i in zip(ev, tup)]
                    want = expected(v, list(ev), nm)
                    got = BayesianModelInference._reduce_marg(cpd, list(ev), ridx, tuple(nm))
                    if not _vec_close(got, want):
                        return {"key": "_reduce_marg:by-name", "what": f"{v} evidence {ev} states {nm}: {list(map(float, got))} != {[str(x) for x in want]}"}
                    got = BayesianModelInference._reduce_marg(cpd, list(ev), ridx, tuple(tup))
                    if not _vec_close(got, want):
                        return {"key": f"_reduce_marg:by-number{cls}", "what": f"{v} evidence {ev} state numbers {tup} (= names {nm}): "
                                f"{list(map(float, got))} != {[str(x) for x in want]}"}
        # pre_compute_reduce: keyed by state numbers of the reversed parent list
        if ps:
            cached = s.pre_compute_reduce(v)
            rev = list(cpd.variables[:0:-1])
            if set(rev) != set(ps):
                return {"key": "pre_compute_reduce:parents", "what": f"{v}: {rev} vs {ps}"}
            want_keys = list(itertools.product(*[range(len(st[p])) for p in rev]))
            if set(cached) != set(want_keys):
                return {"key": "pre_compute_reduce:keys", "what": f"{v}: keys {sorted(cached)}"}
            for tup in want_keys:
                want = _column(spec, v, {p: st[p][i] for p, i in zip(rev, tup)})
                if not _vec_close(cached[tup], want):
                    return {"key": f"pre_compute_reduce:weights{cls}", "what": f"{v} parents(reversed) {rev} numbers {tup}: {list(map(float, cached[tup]))} != {[str(x) for x in want]}"}
    return _cpds_unchanged(spec, m, "pre_compute_reduce_maps")


# ----------------------------------------------------------------------------- group: Gibbs kernels
def _full_conditional(nodes, states, joint, var, assignment):
    """P(var = . | all others as in assignment) from an unnormalised joint(assignment)->Fraction; None if undefined."""
    vals = [joint({**assignment, var: s}) for s in states[var]]
    z = sum(vals)
    if z == 0:
        return None
    return [x / z for x in vals]


def _check_kernels(gs, nodes, states, joint, fn, cls=""):
    variables = list(gs.variables)
    if sorted(map(str, variables)) != sorted(map(str, nodes)):
        return {"key": f"{fn}:variables", "what": f"{variables} vs {nodes}"}
    for v in nodes:
        if int(gs.cardinalities[v]) != len(states[v]):
            return {"key": f"{fn}:cardinalities", "what": f"{v}: {gs.cardinalities[v]} vs {len(states[v])}"}
    for var in nodes:
        others = [v for v in variables if v != var]
        kern = gs.transition_models[var]
        want_keys = list(itertools.product(*[range(len(states[v])) for v in others]))
        if set(kern.keys()) != set(want_keys):
            return {"key": f"{fn}:kernel-keys", "what": f"{var}: keys {sorted(kern)[:6]}.. expected all of {others}"}
        for tup in want_keys:
            a = {v: states[v][i] for v, i in zip(others, tup)}
            want = _full_conditional(nodes, states, joint, var, a)
            if want is None:
                continue  # conditioning event of probability zero: full conditional undefined
            if not _vec_close(kern[tup], want):
                return {"key": f"{fn}:kernel{cls}", "what": f"P({var} | {a}) [numbers {tup} of {others}]: {list(map(float, kern[tup]))} != {[str(x) for x in want]}"}
    return None


def _gibbs_chain_contract(gs, nodes, states, joint, start_idx, size, fn, seed, cls=""):
    """with the sink stubbed: every draw of sample()/generate_sample() is offered the full conditional of the
    variable given the *current* state of all others; the frame rows are the successive states."""
    from pgmpy.factors.discrete import State

    variables = list(gs.variables)
    for api in ("sample", "generate_sample"):
        rec = Recorder(mode="random", seed=seed)
        start = [State(v, start_idx[v]) for v in reversed(variables)]
        with patched(rec):
            if api == "sample":
                out = gs.sample(start_state=start, size=size, include_latents=True)
                rows = [[int(x) for x in _col_list(out, c)] for c in out.columns]
                rows = [dict(zip(list(out.columns), r)) for r in zip(*rows)]
                nsweeps, first = size - 1, 1
                if len(rows) != size:
                    return {"key": f"{fn}:sample:rows", "what": f"{len(rows)} rows, size={size}"}
                if any(rows[0][str(v)] != start_idx[v] for v in variables):
                    return {"key": f"{fn}:sample:start-state", "what": f"row 0 {rows[0]} != start state {start_idx}"}
            else:
                out = list(gs.generate_sample(start_state=start, size=size, include_latents=True))
                rows = [{str(s.var): int(s.state) for s in r} for r in out]
                nsweeps, first = size, 0
                if len(rows) != size:
                    return {"key": f"{fn}:generate_sample:rows", "what": f"{len(rows)} states yielded, size={size}"}
        calls = rec.loose
        if len(calls) != nsweeps * len(variables):
            return {"key": f"{fn}:{api}:sink-calls", "what": f"{len(calls)} draws for {nsweeps} sweeps over {len(variables)} variables"}
        cur = dict(start_idx)
        c = 0
        for i in range(nsweeps):
            for var in variables:
                call = calls[c]
                c += 1
                a = {v: states[v][cur[v]] for v in variables if v != var}
                want = _full_conditional(nodes, states, joint, var, a)
                if call["values"] != list(range(len(states[var]))):
                    return {"key": f"{fn}:{api}:sink-values", "what": f"{var}: offered {call['values']}"}
                if want is not None and not _vec_close(call["rows"][0], want):
                    return {"key": f"{fn}:{api}:weights{cls}", "what": f"sweep {i} variable {var} given {a}: weights {call['rows'][0]} != full conditional {[str(x) for x in want]}"}
                cur[var] = call["ret"][0]
            r = rows[first + i]
            if any(r.get(str(v)) != cur[v] for v in variables):
                return {"key": f"{fn}:{api}:state-not-recorded", "what": f"sweep {i}: row {r} != chain state {cur}"}
    return None


def _positive_start(nodes, states, joint, rng):
    alls = [dict(zip(nodes, c)) for c in itertools.product(*[range(len(states[v])) for v in nodes])]
    pos = [a for a in alls if joint({v: states[v][i] for v, i in a.items()}) > 0]
    return rng.choice(pos)


@_classed
def check_gibbs_bn(case):
    from pgmpy.sampling import GibbsSampling

    _quiet()
    spec = O.spec_from_json(case["spec"])
    cls = _cls(spec)
    m = O.make_bn(spec, case["latents"])
    gs = GibbsSampling(m)
    joint = lambda a: O.joint_prob(spec, a)  # noqa
    f = _check_kernels(gs, spec["nodes"], spec["states"], joint, "_get_kernel_from_bayesian_model", cls)
    if f:
        return f
    if set(gs.latents) != set(case["latents"]):
        return {"key": "_get_kernel_from_bayesian_model:latents", "what": f"{gs.latents}"}
    rng = O.mk_rng(case["seed"], "gibbs")
    start = _positive_start(spec["nodes"], spec["states"], joint, rng)
    f = _gibbs_chain_contract(gs, spec["nodes"], spec["states"], joint, start, 6, "GibbsSampling", case["seed"], cls)
    if f:
        return f
    return _cpds_unchanged(spec, m, "_get_kernel_from_bayesian_model")


# Markov networks ---------------------------------------------------------------------------
def gen_mns(tier, seed):
    rng = O.mk_rng(seed, "c07", "mn")
    sizes = (1, 2, 3) if tier == "quick" else (1, 2, 3, 4)
    k = 0
    for n in sizes:
        names = O.node_names(n, "x" if n % 2 else "long")
        pairs = list(itertools.combinations(names, 2))
        for mask in range(2 ** len(pairs)):
            edges = [list(p) for i, p in enumerate(pairs) if mask >> i & 1]
            for j in range(4 if n <= 3 else 2):
                k += 1
                style = STYLES[(k + j) % len(STYLES)]
                zeros = bool(j % 2)
                cards = {v: rng.choice((1, 2, 2, 3, 3)) for v in names}
                states = {v: _styled_states(v, cards[v], style) for v in names}
                scopes = []
                for e in edges:
                    e = list(e)
                    rng.shuffle(e)
                    scopes.append(e)
                for v in names:
                    if not any(v in e for e in edges) or rng.random() < 0.3:
                        scopes.append([v])
                if n >= 3:
                    for tri in itertools.combinations(names, 3):
                        if all(list(p) in edges for p in itertools.combinations(tri, 2)) and rng.random() < 0.6:
                            t = list(tri)
                            rng.shuffle(t)
                            scopes.append(t)
                factors = []
                for sc in scopes:
                    nval = 1
                    for v in sc:
                        nval *= cards[v]
                    vals = [rng.randint(0 if zeros else 1, 7) for _ in range(nval)]
                    if not any(vals):
                        vals[0] = 1
                    factors.append({"vars": sc, "values": vals})
                if factors and (k + j) % 3 == 0:
                    # the same potential twice (equal scope and values): both copies belong to the product that defines the joint
                    d = factors[(k + j) % len(factors)]
                    factors.insert(0, {"vars": list(d["vars"]), "values": list(d["values"])})
                yield {"mn": {"nodes": names, "edges": edges, "states": states, "factors": factors}, "style": style, "seed": rng.randint(0, 10 ** 6), "always": bool(edges)}


def _mn_joint(mn):
    st = mn["states"]

    def joint(a):
        p = Fraction(1)
        for f in mn["factors"]:
            j = 0
            for v in f["vars"]:
                j = j * len(st[v]) + st[v].index(a[v])
            p *= f["values"][j]
        return p

    return joint


def _make_mn(mn):
    from pgmpy.factors.discrete import DiscreteFactor
    from pgmpy.models import MarkovNetwork

    g = MarkovNetwork()
    g.add_nodes_from(mn["nodes"])
    g.add_edges_from([tuple(e) for e in mn["edges"]])
    for f in mn["factors"]:
        g.add_factors(DiscreteFactor(f["vars"], [len(mn["states"][v]) for v in f["vars"]], [float(x) for x in f["values"]],
                                     state_names={v: list(mn["states"][v]) for v in f["vars"]}))
    return g


@_classed
def check_gibbs_mn(case):
    from pgmpy.sampling import GibbsSampling

    _quiet()
    mn = case["mn"]
    cls = _cls(mn)
    g = _make_mn(mn)
    gs = GibbsSampling(g)
    joint = _mn_joint(mn)
    f = _check_kernels(gs, mn["nodes"], mn["states"], joint, "_get_kernel_from_markov_model", cls)
    if f:
        return f
    alls = [dict(zip(mn["nodes"], c)) for c in itertools.product(*[mn["states"][v] for v in mn["nodes"]])]
    if not any(joint(a) > 0 for a in alls):
        return None
    rng = O.mk_rng(case["seed"], "gibbs")
    start = _positive_start(mn["nodes"], mn["states"], joint, rng)
    return _gibbs_chain_contract(gs, mn["nodes"], mn["states"], joint, start, 5, "GibbsSampling[MN]", case["seed"], cls)


# ----------------------------------------------------------------------------- group: mathext helpers
def gen_mathext(tier, seed):
    rng = O.mk_rng(seed, "c07", "mathext")
    for k in range(60 if tier == "quick" else 400):
        card = rng.choice((1, 2, 3, 4, 5))
        nvec = rng.randint(1, 4)
        vecs = []
        for _ in range(nvec):
            while True:
                w = [rng.randint(0, 9) for _ in range(card)]
                if sum(w) > 0 and sorted(w)[-1] != (sorted(w)[-2] if card > 1 else -1):
                    break
            vecs.append([str(Fraction(x, sum(w))) for x in w])
        # distinct vectors with a unique maximum each
        uniq = []
        for v in vecs:
            if v not in uniq:
                uniq.append(v)
        size = rng.randint(1, 12)
        yield {"always": True, "vecs": uniq, "idx": [rng.randrange(len(uniq)) for _ in range(size)],
               "err": rng.choice((0.0, 1e-16, -1e-16, 3e-7, -3e-7, 9e-4, -9e-4, 5e-12)), "errpos": rng.randrange(card), "seed": rng.randint(0, 10 ** 6)}


@contextlib.contextmanager
def _patched_choice(log):
    import numpy as np

    orig = np.random.choice

    def choice(a, size=None, replace=True, p=None):
        a = np.asarray(a)
        p = np.array(p, dtype=float)
        n = 1 if size is None else int(size)
        log.append({"a": a.tolist(), "n": n, "p": p.tolist()})
        out = np.array([a[int(np.argmax(p))]] * n)
        return out if size is not None else out[0]

    np.random.choice = choice
    try:
        yield
    finally:
        np.random.choice = orig


def check_mathext(case):
    import numpy as np
    from pgmpy.utils import mathext as M

    _quiet()
    vecs = [[Fraction(x) for x in v] for v in case["vecs"]]
    idx = case["idx"]
    size = len(idx)
    card = len(vecs[0])
    err, pos = case["err"], case["errpos"]
    # ---- _adjusted_weights
    if hasattr(M, "_adjusted_weights"):
        for v in vecs:
            w = np.array([float(x) for x in v])
            if err and w[pos] + err >= 0:
                w[pos] += err
            before = w.copy()
            arg = w.copy()
            out = np.asarray(M._adjusted_weights(arg))
            if abs(float(out.sum()) - 1.0) > 1e-12:
                return {"key": "_adjusted_weights:sum", "what": f"{before.tolist()} -> {out.tolist()} sums to {out.sum()!r}"}
            if (out < 0).any():
                return {"key": "_adjusted_weights:negative", "what": f"{before.tolist()} -> {out.tolist()}"}
            if any(b == 0 and o != 0 for b, o in zip(before, out)):
                return {"key": "_adjusted_weights:zero-entry-changed", "what": f"{before.tolist()} -> {out.tolist()}: a zero-probability state got mass"}
            if sum(1 for b, o in zip(before, out) if b != o) > 1 or float(np.abs(out - before).max()) > 1e-3 + 1e-12:
                return {"key": "_adjusted_weights:distorted", "what": f"{before.tolist()} -> {out.tolist()}"}
        bad = np.array([float(x) for x in vecs[0]])
        bad[int(np.argmax(bad))] += 2.5e-3 if case["seed"] % 2 else -2.5e-3
        try:
            M._adjusted_weights(bad.copy())
            return {"key": "_adjusted_weights:no-raise", "what": f"{bad.tolist()} (sum {bad.sum()}) accepted"}
        except ValueError:
            pass
    # ---- call sites: who is offered which weights (np.random.choice stubbed: returns the mode of p)
    states = list(range(card))
    modes = [max(range(card), key=lambda i: v[i]) for v in vecs]

    def pert(v):
        w = np.array([float(x) for x in v])
        if err and w[pos] + err >= 0:
            w[pos] += err
        return w

    i2w = {i: pert(v) for i, v in enumerate(vecs)}
    i2w_before = {i: w.copy() for i, w in i2w.items()}
    widx = np.array(idx)
    log = []
    with _patched_choice(log):
        out = M.sample_discrete_maps(states, widx, i2w, size)
    f = _check_choice_log(log, states, [i2w_before[i] for i in idx], size, "sample_discrete_maps")
    if f:
        return f
    if [int(x) for x in out] != [modes[i] for i in idx]:
        return {"key": "sample_discrete_maps:row-assignment", "what": f"weight indices {idx}, modes per index {modes}: rows got {list(map(int, out))}"}
    if any(not np.array_equal(i2w[i], i2w_before[i]) for i in i2w):
        return {"key": "sample_discrete_maps:input-mutated", "what": "index_to_weight arrays changed"}
    def two_d():
        w2 = np.array([i2w_before[i] for i in idx])
        w2b = w2.copy()
        log = []
        # input class: some row does not sum to exactly 1.0 in floating point (so that _adjusted_weights changes it)
        inexact = ":inexact-row-sum" if any(float(r.sum()) != 1.0 for r in w2) else ""
        try:
            with _patched_choice(log):
                out = M.sample_discrete(states, w2, size)
        except ValueError as e:
            if not inexact:
                raise
            return {"key": f"sample_discrete[2d]{inexact}:raised", "what": f"weights rows {w2b.tolist()}: ValueError: {e}"}
        f = _check_choice_log(log, states, [i2w_before[i] for i in idx], size, "sample_discrete[2d]")
        if f:
            return f
        if [int(x) for x in out] != [modes[i] for i in idx]:
            return {"key": f"sample_discrete[2d]{inexact}:row-assignment", "what": f"weights rows {w2b.tolist()} (modes {[modes[i] for i in idx]}): got {list(map(int, out))}"}
        if not np.array_equal(w2, w2b):
            return {"key": "sample_discrete[2d]:input-mutated", "what": "weights array changed by sampling"}
        return None

    w1 = i2w_before[0].copy()
    vals = [f"v_{i}" for i in range(card)]
    log = []
    with _patched_choice(log):
        out = M.sample_discrete(vals, w1, size)
    f = _check_choice_log(log, vals, [i2w_before[0]] * size, size, "sample_discrete[1d]")
    if f:
        return f
    if list(out) != [vals[modes[0]]] * size:
        return {"key": "sample_discrete[1d]:result", "what": f"{list(out)}"}
    if not np.array_equal(w1, i2w_before[0]):
        return {"key": "sample_discrete:input-mutated", "what": "weights array changed by sampling"}
    # ---- real RNG: reproducible under `seed`; zero-weight states never drawn
    n = 40
    widx = np.array([idx[k % size] for k in range(n)])
    a = M.sample_discrete_maps(states, widx, {i: w.copy() for i, w in i2w_before.items()}, n, seed=case["seed"] % 9973)
    np.random.seed(12345)
    b = M.sample_discrete_maps(states, widx, {i: w.copy() for i, w in i2w_before.items()}, n, seed=case["seed"] % 9973)
    if list(a) != list(b):
        return {"key": "sample_discrete_maps:seed-not-reproducible", "what": f"{list(a)} vs {list(b)}"}
    for k in range(n):
        if not (0 <= int(a[k]) < card) or vecs[int(widx[k])][int(a[k])] == 0:
            return {"key": "sample_discrete_maps:zero-weight-state-drawn", "what": f"row {k}: state {a[k]} has weight 0 in {case['vecs'][int(widx[k])]}"}
    a = M.sample_discrete(vals, w1.copy(), n, seed=case["seed"] % 9973)
    np.random.seed(54321)
    b = M.sample_discrete(vals, w1.copy(), n, seed=case["seed"] % 9973)
    if list(a) != list(b):
        return {"key": "sample_discrete:seed-not-reproducible", "what": f"{list(a)} vs {list(b)}"}
    if any(vecs[0][vals.index(x)] == 0 for x in a):
        return {"key": "sample_discrete:zero-weight-state-drawn", "what": f"{list(a)} with weights {case['vecs'][0]}"}
    return two_d()


def _check_choice_log(log, states, row_weights, size, fn):
    """calls to np.random.choice: total size, values offered, p = one of the row weight vectors (adjusted to sum 1)."""
    import numpy as np

    if sum(c["n"] for c in log) != size:
        return {"key": f"{fn}:draw-count", "what": f"{[c['n'] for c in log]} draws for size {size}"}
    for c in log:
        if c["a"] != list(states):
            return {"key": f"{fn}:values", "what": f"offered {c['a']} instead of {states}"}
        if abs(sum(c["p"]) - 1) > 1e-12:
            return {"key": f"{fn}:p-sum", "what": f"p={c['p']}"}
        cnt = sum(1 for w in row_weights if float(np.abs(np.array(c["p"]) - w).max()) <= 1e-3 + 1e-12 and all((a == 0) == (b == 0) for a, b in zip(c["p"], w)))
        if cnt == 0:
            return {"key": f"{fn}:p-not-a-row-weight", "what": f"p={c['p']} matches none of the rows' weights"}
    return None


# ----------------------------------------------------------------------------- group: real RNG, deterministic facts
def _frames_equal(a, b):
    if list(a.columns) != list(b.columns) or len(a) != len(b):
        return False
    for c in a.columns:
        x, y = _col_list(a, c), _col_list(b, c)
        for p, q in zip(x, y):
            if not (p == q or (p != p and q != q)):
                return False
    return True


def _check_real_frame(spec, df, size, cols, fn, evidence=None, impossible=True, extra=()):
    if len(df) != size:
        return {"key": f"{fn}:rows", "what": f"{len(df)} rows returned, {size} requested"}
    got = [c for c in df.columns if c not in extra]
    if set(got) != set(cols) or len(got) != len(cols):
        return {"key": f"{fn}:columns", "what": f"columns {list(df.columns)}; expected {cols}"}
    data = {c: _col_list(df, c) for c in cols}
    for c in cols:
        for x in data[c]:
            if not any(_eq_state(x, s) for s in spec["states"][c]):
                return {"key": f"{fn}:not-a-state-name", "what": f"column {c} holds {x!r}; declared states {spec['states'][c]}"}
    for v, st in (evidence or {}).items():
        if v in data and not all(_eq_state(x, st) for x in data[v]):
            return {"key": f"{fn}:evidence-violated", "what": f"{v} must be {st!r}; got {sorted(set(map(repr, data[v])))}"}
    if impossible and set(cols) == set(spec["nodes"]):
        for k in range(size):
            a = {c: spec["states"][c][[_eq_state(data[c][k], s) for s in spec["states"][c]].index(True)] for c in cols}
            for v in spec["nodes"]:
                if v in (evidence or {}) and impossible == "non-evidence":
                    continue
                if O.cpd_value(spec, v, a) == 0:
                    return {"key": f"{fn}:zero-probability-state", "what": f"row {k} {a}: P({v}={a[v]!r} | parents) = 0"}
    return None


@_classed
def check_real(case):
    from pgmpy.sampling import BayesianModelSampling, GibbsSampling
    from pgmpy.factors.discrete import State
    import numpy as np

    _quiet()
    spec = O.spec_from_json(case["spec"])
    lat = case["latents"]
    nodes = spec["nodes"]
    rng = O.mk_rng(case["seed"], "real")
    sd = 0 if case["seed"] % 4 == 0 else case["seed"] % 7919   # seed 0 is a seed like any other
    N = 30
    m = O.make_bn(spec, lat)
    evs = _evidence_sets(spec, rng, 3, positive=True)[:3]

    def twice(fn, call):
        frames = []
        for j in range(3):
            np.random.seed(1000 + 17 * j)  # perturb the global stream between the runs
            frames.append(call(BayesianModelSampling(m) if j else s0))
        if not (_frames_equal(frames[0], frames[1]) and _frames_equal(frames[0], frames[2])):
            return None, {"key": f"{fn}:seed-not-reproducible", "what": f"same seed {sd}, different frames:\n{frames[0].head(5)}\n{frames[1].head(5)}"}
        return frames[0], None

    s0 = BayesianModelSampling(m)
    for incl in (True, False):
        cols = [v for v in nodes if incl or v not in lat]
        _STAGE[0] = "real_rng_samplers"
        df, f = twice("forward_sample", lambda s: s.forward_sample(size=N, include_latents=incl, seed=sd, show_progress=False))
        f = f or _check_real_frame(spec, df, N, cols, "forward_sample")
        if f:
            return f
        # no evidence: rejection sampling degenerates to forward sampling, still under the caller's seed
        df, f = twice("rejection_sample", lambda s: s.rejection_sample(evidence=[], size=N, include_latents=incl, seed=sd, show_progress=False))
        f = f or _check_real_frame(spec, df, N, cols, "rejection_sample")
        if f:
            f["what"] = "evidence []: " + f["what"]
            return f
        for ev in evs[:2]:
            evl = [State(v, st) for v, st in ev.items()]
            df, f = twice("rejection_sample", lambda s: s.rejection_sample(evidence=evl, size=N, include_latents=incl, seed=sd, show_progress=False))
            f = f or _check_real_frame(spec, df, N, cols, "rejection_sample", evidence=ev)
            if f:
                f["what"] = f"evidence {ev}: " + f["what"]
                return f
        for ev in (evs + _evidence_sets(spec, rng, 2))[:4]:
            evl = [(v, st) for v, st in ev.items()]
            df, f = twice("likelihood_weighted_sample", lambda s: s.likelihood_weighted_sample(evidence=evl, size=N, include_latents=incl, seed=sd, show_progress=False))
            f = f or _check_real_frame(spec, df, N, cols, "likelihood_weighted_sample", evidence=ev, impossible="non-evidence", extra=("_weight",))
            if f:
                f["what"] = f"evidence {ev}: " + f["what"]
                return f
            if incl:
                wcol = _col_list(df, "_weight")
                data = {c: _col_list(df, c) for c in nodes}
                for k in range(N):
                    a = {c: data[c][k] for c in nodes}
                    w = Fraction(1)
                    for v in ev:
                        w *= O.cpd_value(spec, v, a)
                    if not O.close(wcol[k], w, TOL):
                        return {"key": "likelihood_weighted_sample:_weight" + _cls(spec), "what": f"evidence {ev} row {a}: _weight {wcol[k]} != {w}"}
    # Gibbs chain with the real RNG
    joint = lambda a: O.joint_prob(spec, a)  # noqa
    start = _positive_start(nodes, spec["states"], joint, rng)
    frames = []
    for j in range(3):
        np.random.seed(2000 + j)
        gs = GibbsSampling(m)
        frames.append(gs.sample(start_state=[State(v, start[v]) for v in nodes], size=12, seed=sd, include_latents=bool(case["seed"] % 2)))
    if not (_frames_equal(frames[0], frames[1]) and _frames_equal(frames[0], frames[2])):
        return {"key": "GibbsSampling.sample:seed-not-reproducible", "what": f"same start state and seed {sd}:\n{frames[0]}\n{frames[1]}"}
    df = frames[0]
    want = [str(v) for v in nodes if case["seed"] % 2 or v not in lat]
    if len(df) != 12 or set(df.columns) != set(want):
        return {"key": "GibbsSampling.sample:shape", "what": f"{len(df)} rows, columns {list(df.columns)}; expected 12 rows, {want} (latents {lat})"}
    for c in df.columns:
        if any(not (0 <= int(x) < len(spec["states"][c])) for x in _col_list(df, c)):
            return {"key": "GibbsSampling.sample:state-number-out-of-range", "what": f"column {c}: {_col_list(df, c)}"}
    if not _int_name_clash(spec) and set(df.columns) == set(nodes):
        for k in range(12):
            a = {c: spec["states"][c][int(df[c].iloc[k])] for c in nodes}
            if joint(a) == 0:
                return {"key": "GibbsSampling.sample:zero-probability-state", "what": f"row {k} {a} has joint probability 0 (start state had positive probability)"}
    return None


@_classed
def check_gibbs_api(case):
    """documented-API facts of the Gibbs chain that fail on the unchanged tree get their own keys here."""
    from pgmpy.sampling import GibbsSampling
    from pgmpy.factors.discrete import State
    import numpy as np

    _quiet()
    spec = O.spec_from_json(case["spec"])
    lat = case["latents"]
    nodes = spec["nodes"]
    if any(len(spec["cpd"][v]["table"]) and any(x == 0 for row in spec["cpd"][v]["table"] for x in row) for v in nodes):
        return None  # random start state may be impossible -> 0/0 kernels; only positive models here
    m = O.make_bn(spec, lat)
    sd = case["seed"] % 7919
    found = []
    # seed without start_state
    frames = []
    for j in range(6):
        np.random.seed(3000 + 7 * j)
        frames.append(GibbsSampling(m).sample(size=8, seed=sd, include_latents=True))
    if not all(_frames_equal(frames[0], f) for f in frames[1:]):
        found.append({"key": "GibbsSampling.sample:seed-not-reproducible:no-start-state", "what": f"fresh samplers, sample(size=8, seed={sd}) without "
                      f"start_state: first rows {[tuple(f.iloc[0]) for f in frames]}"})
    # generate_sample drops latents
    if lat:
        gs = GibbsSampling(m)
        out = list(gs.generate_sample(start_state=[State(v, 0) for v in nodes], size=3, include_latents=False, seed=sd))
        if any({s.var for s in st} & set(lat) for st in out):
            found.append({"key": "GibbsSampling.generate_sample:latents-not-dropped", "what": f"latents {lat}, include_latents=False, yielded {out[0]}"})
        out = list(gs.generate_sample(start_state=[State(v, 0) for v in nodes], size=3, include_latents=True, seed=sd))
        if any({s.var for s in st} != set(nodes) for st in out):
            return {"key": "GibbsSampling.generate_sample:latents-dropped-when-requested", "what": f"{out[0]}"}
    # values are state names
    gs = GibbsSampling(m)
    df = gs.sample(start_state=[State(v, 0) for v in nodes], size=6, seed=sd, include_latents=True)
    bad = [(c, x) for c in df.columns for x in _col_list(df, c) if not any(_eq_state(x, s) for s in spec["states"][c])]
    if bad:
        found.append({"key": "GibbsSampling.sample:state-numbers-not-names", "what": f"column {bad[0][0]} holds {bad[0][1]!r}; declared state names {spec['states'][bad[0][0]]}"})
    if found:
        return found[case["seed"] % len(found)]
    return None


# ----------------------------------------------------------------------------- group: simulate()
def _mutilate(spec, do, ve, vi=None):
    """spec of the network simulate() must sample from: incoming edges of do / virtual-intervention variables cut (their own
    law is left free by the contract; for positivity computations the parent-averaged CPD is used), one binary child '__X'
    per virtual evidence / virtual intervention on X with P(__X=0 | X=x) = likelihood(x)."""
    vi = vi or {}
    cut = set(do) | set(vi)
    x = {"nodes": list(spec["nodes"]), "edges": [e for e in spec["edges"] if e[1] not in cut], "states": dict(spec["states"]),
         "cpd": {v: dict(c) for v, c in spec["cpd"].items()}}
    for v in cut:
        tab = spec["cpd"][v]["table"]
        x["cpd"][v] = {"parents": [], "table": [[sum(row) / len(row)] for row in tab]}
    for v, lik in {**ve, **vi}.items():
        nv = "__" + v
        x["nodes"].append(nv)
        x["edges"].append([v, nv])
        x["states"][nv] = [0, 1]
        x["cpd"][nv] = {"parents": [v], "table": [[Fraction(l) for l in lik], [1 - Fraction(l) for l in lik]]}
    return x


def _sim_configs(spec, lat, rng):
    nodes = spec["nodes"]
    out = []
    for trial in range(9):
        do, ev, ve, vi = {}, {}, {}, {}
        pool = nodes[:]
        rng.shuffle(pool)
        if trial in (0, 3, 4, 6) and pool:
            v = pool.pop()
            # only do-states the (parent-marginalised) CPD gives positive mass: see simulate:do-impossible-state
            ok = [s for i, s in enumerate(spec["states"][v]) if any(x > 0 for x in spec["cpd"][v]["table"][i])]
            do[v] = rng.choice(ok)
        if trial in (2, 4, 5, 6) and pool:
            v = pool.pop()
            ve[v] = [str(Fraction(rng.randint(1, 9), 10)) for _ in spec["states"][v]]
        if trial in (7, 8) and pool:
            v = pool.pop()
            vi[v] = [str(Fraction(rng.randint(1, 9), 10)) for _ in spec["states"][v]]
        if trial in (1, 3, 5, 6, 8) and pool:
            v = pool.pop()
            ev[v] = None
        out.append((do, ev, ve, vi))
    return out


@_classed
def check_simulate(case):
    import numpy as np
    from pgmpy.factors.discrete import TabularCPD

    _quiet()
    spec = O.spec_from_json(case["spec"])
    lat = case["latents"]
    cls = _cls(spec)
    nodes = spec["nodes"]
    rng = O.mk_rng(case["seed"], "sim")
    m = O.make_bn(spec, lat)
    sd = case["seed"] % 7919
    deferred = []  # failure classes that do not invalidate the remaining checks of the case
    for t, (do, ev, ve, vi) in enumerate(_sim_configs(spec, lat, rng)):
        xspec = _mutilate(spec, do, ve, vi)
        allev = {**do, **{"__" + v: 0 for v in {**ve, **vi}}}
        for v in list(ev):
            cands = [s for s in spec["states"][v] if sum(O.marginal(xspec, [], {**allev, v: s}).values()) > 0]
            if not cands:
                del ev[v]
                continue
            ev[v] = rng.choice(cands)
        allev.update(ev)
        if sum(O.marginal(xspec, [], allev).values()) == 0:
            continue
        incl = bool(t % 2)
        size = (5, _prod_cards(spec) + 1)[t % 2]
        desc = f"simulate(n_samples={size}, do={do}, evidence={ev}, virtual_evidence={ve}, virtual_intervention={vi}, include_latents={incl})"

        def run(**extra):
            _STAGE[0] = "simulate"
            mk = lambda d: [TabularCPD(v, len(lik), [[float(Fraction(l))] for l in lik], state_names={v: list(spec["states"][v])}) for v, lik in d.items()]  # noqa
            ev_arg = dict(ev)
            r = m.simulate(n_samples=size, do=dict(do) or None, evidence=ev_arg or None, virtual_evidence=mk(ve) or None,
                           virtual_intervention=mk(vi) or None, include_latents=incl, show_progress=False, **extra)
            return r, ev_arg

        # (1) call-site contract with the sinks stubbed
        rec = Recorder()
        with patched(rec):
            df, ev_arg = run()
        if ev_arg != ev:
            deferred.append({"key": "simulate:evidence-argument-mutated", "what": f"{desc}: caller's evidence dict became {ev_arg}"})
        want_cols = [v for v in nodes if incl or v not in lat]
        extra_cols = [c for c in df.columns if c not in nodes]
        if extra_cols:
            deferred.append({"key": "simulate:auxiliary-columns-returned", "what": f"{desc}: columns {list(df.columns)} contain {extra_cols}, which are not model variables"})
            df = df.loc[:, [c for c in df.columns if c in nodes]]
        if allev:
            f = _check_rejection_run(xspec, lat, rec, df, {k: v for k, v in allev.items()}, size, incl, "simulate", cls, free=set(do) | set(vi), want_cols=want_cols)
        else:
            if len(rec.invocations) != 1:
                return {"key": "simulate:invocations", "what": desc}
            inv = rec.invocations[0]
            f = check_invocation(xspec, inv, "simulate:forward_sample", cls=cls) or check_frame(xspec, _decode(xspec, inv), df, size, want_cols, "simulate")
        if f:
            f["what"] = desc + ": " + f["what"]
            return f
        # (2) real RNG: reproducible, do/evidence respected, missingness only masks
        frames = []
        for j in range(2):
            np.random.seed(4000 + j)
            frames.append(run(seed=sd)[0])
        if not _frames_equal(frames[0], frames[1]):
            return {"key": "simulate:seed-not-reproducible", "what": f"{desc} seed={sd}:\n{frames[0].head()}\n{frames[1].head()}"}
        base = frames[0].loc[:, [c for c in frames[0].columns if c in nodes]]
        f = _check_real_frame(spec, base, size, want_cols, "simulate", evidence={**do, **ev}, impossible=False)
        if f:
            f["what"] = desc + ": " + f["what"]
            return f
        if set(base.columns) == set(nodes):
            data = {c: _col_list(base, c) for c in nodes}
            for k in range(size):
                a = {c: data[c][k] for c in nodes}
                for v in nodes:
                    if v not in do and v not in vi and O.cpd_value(spec, v, a) == 0:
                        return {"key": "simulate:zero-probability-state", "what": f"{desc}: row {a}: P({v}={a[v]!r} | parents) = 0"}
        mcols = [c for c in want_cols if rng.random() < 0.5] or None
        np.random.seed(4100)
        miss = run(seed=sd, include_missing=True, missing_prob=0.4, missing_columns=mcols)[0]
        miss = miss.loc[:, [c for c in miss.columns if c in nodes]]
        if len(miss) != size or set(miss.columns) != set(base.columns):
            return {"key": "simulate:missing:shape", "what": f"{desc}: {miss.shape} vs {base.shape}"}
        for c in base.columns:
            x, y = _col_list(base, c), _col_list(miss, c)
            for p, q in zip(x, y):
                if q != q or q is None:
                    if mcols is not None and c not in mcols:
                        return {"key": "simulate:missing:outside-missing_columns", "what": f"{desc} missing_columns={mcols}: column {c} has missing values"}
                elif not (p == q):
                    return {"key": "simulate:missing:value-changed", "what": f"{desc}: column {c}: {p!r} became {q!r} (same seed)"}
    f = _cpds_unchanged(spec, m, "simulate")
    if f:
        return f
    if set(m.nodes()) != set(nodes) or {tuple(e) for e in m.edges()} != {tuple(e) for e in spec["edges"]}:
        return {"key": "simulate:model-mutated", "what": f"nodes {list(m.nodes())} edges {list(m.edges())}"}
    if deferred:
        keys = sorted({d["key"] for d in deferred})
        k = keys[case["seed"] % len(keys)]
        return [d for d in deferred if d["key"] == k][0]
    return None


def check_simulate_do_impossible(case):
    """do(X=x) for a state x that has probability zero under every parent configuration is a legitimate intervention."""
    _quiet()
    spec = O.spec_from_json(case["spec"])
    m = O.make_bn(spec, case["latents"])
    for v in spec["nodes"]:
        for i, s in enumerate(spec["states"][v]):
            if all(x == 0 for x in spec["cpd"][v]["table"][i]):
                try:
                    with _time_limit(3):
                        df = m.simulate(n_samples=3, do={v: s}, show_progress=False, seed=1, include_latents=True)
                except _Hang:
                    return {"key": "simulate:do-impossible-state:does-not-terminate", "what": f"simulate(n_samples=3, do={{{v!r}: {s!r}}}) did not return within 3 s: "
                            f"the do-variable is sampled from its observational CPD (P={[str(x) for x in spec['cpd'][v]['table'][i]]}) and rejected"}
                except Exception as e:  # noqa
                    return {"key": "simulate:do-impossible-state:raised", "what": f"simulate(n_samples=3, do={{{v!r}: {s!r}}}) raised {type(e).__name__}: {e}"}
                if len(df) != 3 or not all(_eq_state(x, s) for x in _col_list(df, v)):
                    return {"key": "simulate:do-impossible-state:result", "what": f"do({v}={s!r}): {df}"}
                return None
    return None


# ----------------------------------------------------------------------------- groups
def _g(salt, variants=None, maxn=None):
    return lambda tier, seed: gen_models(tier, seed, salt, variants, maxn)


def _has_impossible_state(case):
    return any(all(Fraction(x) == 0 for x in row) for c in case["spec"]["cpd"].values() for row in c["table"])


def gen_do_impossible(tier, seed):
    n = 0
    for c in gen_models(tier, seed, "doz", 6, 3):
        if _has_impossible_state(c):
            n += 1
            if n <= (8 if tier == "quick" else 40):
                yield c


def groups(tier):
    b = ("all labelled DAGs on <= 3 nodes (thorough: <= 4) x 5 (2) seeded variants: cardinalities in {1,2,3}, CPD parent order shuffled, "
         "state names str / 0-based int / mixed / reversed int / 1-based int, zero entries in every other variant, latent subsets")
    return [
        Group("fwd_contract", _g("fwd"), check_forward, nontrivial, engine="E3",
              bound=b + "; sinks stubbed (enumerating all parent configurations), sizes prod(cards)+1 and 1, include_latents both, "
                        "partial_samples on every single node and one pair"),
        Group("lw_contract", _g("lw"), check_lw, nontrivial, engine="E3",
              bound=b + "; sinks stubbed; no evidence, <= 6 single and <= 3 two-variable evidence sets (zero-probability evidence included)"),
        Group("rej_contract", _g("rej"), check_rejection, nontrivial, engine="E3",
              bound=b + "; sinks stubbed; evidence sets of positive probability; sizes 1, 7, prod(cards)+2; partial_samples only for 0-based int state names"),
        Group("reduce_maps", _g("rm"), check_reduce_maps, nontrivial, engine="E3",
              bound=b + "; every ordered subset of the parents as evidence, default and explicit state combinations; _reduce_marg by name and by number"),
        Group("gibbs_bn", _g("gibbs"), check_gibbs_bn, nontrivial, engine="E3",
              bound=b + "; every kernel entry whose conditioning event has positive probability; 6-step chains with stubbed sink from a positive start state"),
        Group("gibbs_mn", gen_mns, check_gibbs_mn, nontrivial, engine="E3",
              bound="all undirected graphs on <= 3 (4) nodes x 4 (2) variants, pairwise/unary/triangle factors with integer values (zeros in every other variant), scopes shuffled"),
        Group("mathext", gen_mathext, check_mathext, nontrivial, engine="E3",
              bound="60 (400) seeded weight families, cards 1..5, perturbations of the sum up to 9e-4; np.random.choice stubbed for the row-assignment contract"),
        Group("real_rng", _g("real", 3), check_real, nontrivial, engine="E3",
              bound=b + " (3 variants); real RNG, 30 rows; deterministic facts only (no statistical verdicts)"),
        Group("gibbs_api", _g("gapi", 2), check_gibbs_api, nontrivial, engine="E3", bound=b + " (2 variants, strictly positive CPDs only)"),
        Group("simulate", _g("sim", 3), check_simulate, nontrivial, engine="E3",
              bound=b + " (3 variants); 7 seeded combinations of do / evidence / virtual evidence per model; do-states restricted to states with positive "
                        "observational mass (the complement is group simulate_do_impossible)"),
        Group("simulate_do_impossible", gen_do_impossible, check_simulate_do_impossible, lambda c: True, engine="E3",
              bound="<= 8 (40) models <= 3 nodes having a state of probability zero in every column; 3 s time limit"),
    ]
