"""C08 bounded groups (E3): real DAG API vs. the path-based definition of d-separation.

A case is one DAG (+ a latent subset); the check sweeps every start node and every observed
subset, so that a single case is a complete sub-enumeration.  Oracles: vf.bounded.oracles
(simple-trail enumeration - independent of the reachability algorithm in DAG.py).
"""
from __future__ import annotations

import itertools

from vf.core import Group
from vf.bounded import oracles as O


def _subsets(xs, maxlen=None):
    xs = list(xs)
    for r in range(len(xs) + 1 if maxlen is None else min(len(xs), maxlen) + 1):
        for c in itertools.combinations(xs, r):
            yield list(c)


def gen_dags(tier, seed):
    sizes = (1, 2, 3, 4) if tier == "quick" else (1, 2, 3, 4, 5)
    for n in sizes:
        names = O.node_names(n, "long" if n % 2 else "x")
        for edges in O.all_dags(n, names):
            if n == 5 and tier != "quick":
                # 29281 DAGs: keep every 6th (rotating with the seed) plus all with >= 7 edges
                h = hash(tuple(map(tuple, edges))) if False else sum(len(e[0]) * 7 + len(e[1]) for e in edges) + len(edges) * 13
                if (h + seed) % 6 and len(edges) < 7:
                    continue
            yield {"nodes": names, "edges": edges}
    # names that contain one another ('rain' / 'rain_prev'): a bare-string `observed` must be read as one node, never as a container of characters
    for n in (3, 4) if tier != "quick" else (3,):
        names = ["rain", "rain_prev", "wet_rain_prev", "wet"][:n]
        for edges in O.all_dags(n, names):
            yield {"nodes": names, "edges": edges}
    # integer labels 0..2 (0 is falsy): a single observed node / start node given bare must still be taken as a node
    for edges in O.all_dags(3, O.node_names(3, "int")):
        yield {"nodes": O.node_names(3, "int"), "edges": edges}
    rng = O.mk_rng(seed, "c08")
    for k in range(20 if tier == "quick" else 200):
        n = rng.randint(5, 7)
        names = O.node_names(n)
        yield {"nodes": names, "edges": O.random_dag(rng, n, rng.choice((0.25, 0.4, 0.6)), names)}


def _dag(case, latents=()):
    from pgmpy.base import DAG

    g = DAG(latents=set(latents))
    g.add_nodes_from(case["nodes"])
    g.add_edges_from([tuple(e) for e in case["edges"]])
    return g


def check_active_trails(case):
    nodes, edges = case["nodes"], case["edges"]
    small = len(nodes) <= 4
    for latents in ([[]] + [[v] for v in nodes[:2]] if small else [[]]):
        g = _dag(case, latents)
        for Z in _subsets(nodes, None if small else 2):
            exp = {s: O.dconnected_set(nodes, edges, s, Z) for s in nodes if s not in Z}
            for kind in ("list", "set", "tuple"):
                obs = {"list": list(Z), "set": set(Z), "tuple": tuple(Z)}[kind]
                if kind != "list" and not small:
                    continue
                for incl in (True, False):
                    for s in exp:
                        got = g.active_trail_nodes(s, observed=obs, include_latents=incl)
                        want = exp[s] if incl else exp[s] - set(latents)
                        if not isinstance(got, dict) or set(got) != {s} or set(got[s]) != want:
                            return {"key": "active_trail_nodes:result", "what": f"start={s} observed={kind}{sorted(Z)} latents={latents} "
                                    f"include_latents={incl}: got {got}, path-based definition gives {sorted(want)}"}
            if len(Z) == 1 and not latents:
                for s in exp:
                    for t in nodes:
                        if t != s and t != Z[0] and bool(g.is_dconnected(s, t, observed=Z[0])) != (t in exp[s]):
                            return {"key": "is_dconnected:bare-observed", "what": f"is_dconnected({s},{t}, observed={Z[0]!r}) != path-based answer {t in exp[s]}"}
            if len(Z) == 1:
                got = g.active_trail_nodes(list(exp), observed=Z[0])
                if {k: set(v) for k, v in got.items()} != {s: exp[s] - set(latents) for s in exp}:
                    return {"key": "active_trail_nodes:multi-start", "what": f"starts={list(exp)} observed={Z[0]!r}: got {got}"}
            for s in exp:
                for t in nodes:
                    if t == s or t in Z:
                        continue
                    if bool(g.is_dconnected(s, t, observed=Z)) != (t in exp[s] and True) and not latents:
                        return {"key": "is_dconnected:result", "what": f"is_dconnected({s},{t}|{Z}) != path-based answer {t in exp[s]}"}
    return None


def check_graph_views(case):
    """markov blanket, moral graph, ancestral graph, _get_ancestors_of."""
    nodes, edges = case["nodes"], case["edges"]
    g = _dag(case)
    from pgmpy.models import BayesianNetwork

    bn = BayesianNetwork()
    bn.add_nodes_from(nodes)
    bn.add_edges_from([tuple(e) for e in edges])
    E = {tuple(e) for e in edges}
    for v in nodes:
        pa, ch = set(O.parents_of(edges, v)), set(O.children_of(edges, v))
        want = (pa | ch | {p for c in ch for p in O.parents_of(edges, c)}) - {v}
        for obj, nm in ((g, "DAG"), (bn, "BayesianNetwork")):
            got = obj.get_markov_blanket(v)
            if set(got) != want or len(got) != len(set(got)):
                return {"key": f"get_markov_blanket:{nm}", "what": f"node {v}: got {got}, expected {sorted(want)}"}
    mg = g.moralize()
    want_e = {frozenset(e) for e in edges}
    for v in nodes:
        for a, b in itertools.combinations(O.parents_of(edges, v), 2):
            want_e.add(frozenset((a, b)))
    if set(mg.nodes()) != set(nodes) or {frozenset(e) for e in mg.edges()} != want_e:
        return {"key": "moralize:edges", "what": f"moral graph edges {sorted(map(sorted, mg.edges()))} != {sorted(map(sorted, want_e))}"}
    if set(g.nodes()) != set(nodes) or set(g.edges()) != E:
        return {"key": "moralize:mutated-self", "what": "moralize changed the DAG"}
    for S in _subsets(nodes, 2):
        if not S:
            continue
        anc = O.ancestors_or_self(edges, S)
        got = g._get_ancestors_of(list(S))
        if set(got) != anc:
            return {"key": "_get_ancestors_of:result", "what": f"{S}: got {got} expected {anc}"}
        ag = g.get_ancestral_graph(list(S))
        if set(ag.nodes()) != anc or set(ag.edges()) != {e for e in E if e[0] in anc and e[1] in anc}:
            return {"key": "get_ancestral_graph:result", "what": f"{S}: nodes {set(ag.nodes())} edges {set(ag.edges())}"}
    try:
        g._get_ancestors_of(["__not_a_node__"])
        return {"key": "_get_ancestors_of:no-raise", "what": "unknown node accepted"}
    except ValueError:
        pass
    return None


def _assertions(ind):
    out = set()
    for a in ind.get_assertions():
        out.add((frozenset(a.event1), frozenset(a.event2), frozenset(a.event3)))
    return out


def check_independencies(case):
    """local_independencies and get_independencies against the definition."""
    nodes, edges = case["nodes"], case["edges"]
    if len(nodes) > 4:
        return None
    if not all(isinstance(v, str) for v in nodes):
        # IndependenceAssertion is documented for string names only; its failures on other labels get their own failure class
        try:
            return _check_independencies(case)
        except (TypeError, ValueError) as e:
            return {"key": "independencies:non-string-labels:raised", "what": f"nodes {nodes} edges {edges}: {type(e).__name__}: {e}"}
    return _check_independencies(case)


def _check_independencies(case):
    nodes, edges = case["nodes"], case["edges"]
    g = _dag(case)
    for v in nodes:
        nd = set(nodes) - O.descendants_or_self(edges, [v])
        pa = set(O.parents_of(edges, v))
        got = _assertions(g.local_independencies(v))
        want = {(frozenset([v]), frozenset(nd - pa), frozenset(pa))} if nd - pa else set()
        if got != want:
            return {"key": "local_independencies:result", "what": f"{v}: got {got} want {want}"}
    # several variables in one call: the union of the single-variable answers, whatever the request order / container
    def single(v):
        nd = set(nodes) - O.descendants_or_self(edges, [v])
        pa = set(O.parents_of(edges, v))
        return {(frozenset([v]), frozenset(nd - pa), frozenset(pa))} if nd - pa else set()
    for r in (2, 3):
        for vs in itertools.permutations(nodes, r):
            want = set().union(*[single(v) for v in vs])
            for arg in (list(vs), tuple(vs)):
                got = _assertions(g.local_independencies(arg))
                if got != want:
                    return {"key": "local_independencies:multi", "what": f"{arg}: got {got} want {want}"}
    got = _assertions(g.get_independencies())
    # soundness: every assertion is a d-separation; completeness: for every (start, Z) the maximal separated set is listed
    for e1, e2, e3 in got:
        for x in e1:
            for y in e2:
                if O.dconnected(nodes, edges, x, y, set(e3)):
                    return {"key": "get_independencies:unsound", "what": f"({set(e1)} _|_ {set(e2)} | {set(e3)}) listed but {x},{y} are d-connected"}
    for s in nodes:
        rest = [v for v in nodes if v != s]
        for Z in _subsets(rest, len(rest) - 1):
            sep = set(rest) - set(Z) - O.dconnected_set(nodes, edges, s, Z)
            if sep and not any((e1 == frozenset([s]) and e2 == frozenset(sep) and e3 == frozenset(Z)) or
                               (e2 == frozenset([s]) and e1 == frozenset(sep) and e3 == frozenset(Z)) for e1, e2, e3 in got):
                return {"key": "get_independencies:incomplete", "what": f"({s} _|_ {sorted(sep)} | {Z}) holds by definition but is not listed"}
    return None


def check_minimal_dseparator(case):
    nodes, edges = case["nodes"], case["edges"]
    E = {tuple(e) for e in edges}
    lat_sets = [[]]
    if len(nodes) <= 4:
        lat_sets += [[v] for v in nodes] + [list(c) for c in itertools.combinations(nodes, 2)]
    elif len(nodes) == 5:
        lat_sets += [list(c) for c in itertools.combinations(nodes[:4], 3)][:2]  # chains of latent parents
    for latents in lat_sets:
        g = _dag(case, latents)
        for x, y in itertools.combinations(nodes, 2):
            if x in latents or y in latents:
                continue
            adjacent = (x, y) in E or (y, x) in E
            try:
                sep = g.minimal_dseparator(x, y)
            except ValueError:
                if adjacent:
                    continue
                return {"key": "minimal_dseparator:raise", "what": f"({x},{y}) latents={latents}: ValueError for non-adjacent pair"}
            if adjacent:
                return {"key": "minimal_dseparator:adjacent-accepted", "what": f"({x},{y}) adjacent but returned {sep}"}
            if sep is None:
                if not latents:
                    return {"key": "minimal_dseparator:none-without-latents", "what": f"({x},{y}): no separator returned in a latent-free DAG"}
                continue
            sep = set(sep)
            if sep & set(latents):
                return {"key": "minimal_dseparator:latent-in-separator", "what": f"({x},{y}) latents={latents}: {sep}"}
            if x in sep or y in sep:
                return {"key": "minimal_dseparator:endpoint-in-separator", "what": f"({x},{y}): {sep}"}
            if O.dconnected(nodes, edges, x, y, sep):
                return {"key": "minimal_dseparator:not-separating", "what": f"({x},{y}) latents={latents}: {sep} does not d-separate"}
            for u in sep:
                if not O.dconnected(nodes, edges, x, y, sep - {u}):
                    return {"key": "minimal_dseparator:not-minimal", "what": f"({x},{y}) latents={latents}: {sep} minus {u} still separates"}
    return None


def gen_naive(tier, seed):
    for n in (2, 3, 4):
        for style in ("long", "x"):
            names = O.node_names(n, style)
            yield {"dependent": names[0], "features": names[1:]}


def check_naive_bayes(case):
    """NaiveBayes overrides: documented API returns the *set* of nodes d-connected to `start`."""
    from pgmpy.models import NaiveBayes

    dep, feats = case["dependent"], case["features"]
    nodes = [dep] + feats
    edges = [[dep, f] for f in feats]
    m = NaiveBayes(feature_vars=feats, dependent_var=dep)
    for s in nodes:
        for Z in _subsets([v for v in nodes if v != s]):
            want = O.dconnected_set(nodes, edges, s, Z)
            got = m.active_trail_nodes(s, observed=Z or None)
            got = got[s] if isinstance(got, dict) else got
            if set(got) != want:
                return {"key": "NaiveBayes.active_trail_nodes:result", "what": f"start={s} observed={Z}: got {sorted(got)} want {sorted(want)}"}
    return None


def gen_anc5(tier, seed):
    """every DAG on 5 nodes, in batches (the ancestor closure is cheap; dense 5-node graphs reach a node along many routes)"""
    names = O.node_names(5, "x")
    batch = []
    for edges in O.all_dags(5, names):
        if len(edges) < 5:
            continue
        batch.append(edges)
        if len(batch) == 400:
            yield {"nodes": names, "batch": batch, "edges": batch[0]}
            batch = []
    if batch:
        yield {"nodes": names, "batch": batch, "edges": batch[0]}


def check_anc5(case):
    nodes = case["nodes"]
    for edges in case["batch"]:
        g = _dag({"nodes": nodes, "edges": edges})
        for S in _subsets(nodes, 2):
            if not S:
                continue
            anc = O.ancestors_or_self(edges, S)
            got = g._get_ancestors_of(list(S))
            if set(got) != anc:
                return {"key": "_get_ancestors_of:result", "what": f"edges {edges}: {S}: got {sorted(got)} expected {sorted(anc)}"}
            if len(S) == 1 and set(g.get_ancestral_graph(list(S)).nodes()) != anc:
                return {"key": "get_ancestral_graph:result", "what": f"edges {edges}: {S}: nodes {sorted(g.get_ancestral_graph(list(S)).nodes())}"}
    return None


def nontrivial(case):
    return len(case.get("edges", case.get("features", []))) >= 1


def groups(tier):
    return [
        Group("active_trails", gen_dags, check_active_trails, nontrivial, engine="E3",
              bound="all DAGs <= 4 nodes (thorough: + 1/6 of the 29281 five-node DAGs and all with >= 7 edges), every start, every observed "
                    "subset as list/set/tuple, latent subsets of size <= 1, both include_latents; 20 (200) seeded random DAGs on 5-7 nodes "
                    "with observed sets of size <= 2; all 3-node (thorough: 4-node) DAGs over names that contain one another; "
                    "single observed node also passed as a bare string; all 3-node DAGs over the integer labels 0..2"),
        Group("graph_views", gen_dags, check_graph_views, nontrivial, engine="E3", bound="same DAG enumeration; every node / node subsets of size <= 2"),
        Group("independencies", gen_dags, check_independencies, nontrivial, engine="E3", bound="all DAGs <= 4 nodes; local_independencies for every single variable and every ordered 2-/3-tuple (list and tuple)"),
        Group("minimal_dseparator", gen_dags, check_minimal_dseparator, nontrivial, engine="E3",
              bound="same DAG enumeration; every node pair; latent subsets of size <= 2 (<= 4 nodes), two 3-subsets on 5 nodes"),
        Group("naive_bayes", gen_naive, check_naive_bayes, nontrivial, engine="E3", bound="NaiveBayes models with 1..3 features, multi-character names"),
        Group("ancestors_5", gen_anc5, check_anc5, nontrivial, engine="E3",
              bound="every DAG on 5 nodes with >= 5 edges (28090 graphs): _get_ancestors_of for every node and pair, get_ancestral_graph for every node"),
    ]
