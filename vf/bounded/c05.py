"""C05 bounded groups (E3): TabularCPD column meaning / transformations, is_valid_cpd boundary, check_model accept/reject.

Oracle side: the named-assignment view of vf.bounded.c04 (frozenset({(var, state)}) -> Fraction) and the BN spec functions
of vf.bounded.oracles.  Tables are dyadic rationals (k/8); transformations that divide are compared with 1e-9.
"""
from __future__ import annotations

import copy as _copy
import itertools
from fractions import Fraction

from vf.core import Group
from vf.bounded import oracles as O
from vf.bounded import c04 as A

CHILD_PARENT_NAMES = ["grade", "x10", "x2", "Intel_level"]
LABELINGS = ("default", "str", "tuple", "perm", "mix")
TOL = 0.01 + 1e-5  # np.allclose(sums, 1, atol=0.01): |sum - 1| <= atol + rtol * 1


# ----------------------------------------------------------------------------- spec side
def rowmajor(parents, states, a):
    """column index of the parent configuration in the named assignment a (dict var -> state); last parent fastest."""
    j = 0
    for p in parents:
        j = j * len(states[p]) + states[p].index(a[p])
    return j


def of_from_table(child, parents, states, table):
    tab = {}
    for a in A.assignments([child] + list(parents), states):
        d = dict(a)
        tab[a] = Fraction(table[states[child].index(d[child])][rowmajor(parents, states, d)])
    return A.OF([child] + list(parents), tab)


def s_colnorm(F, child, states):
    out = {}
    for a, x in F.tab.items():
        rest = frozenset(p for p in a if p[0] != child)
        z = sum((F.tab[rest | {(child, s)}] for s in states[child]), Fraction(0))
        out[a] = x / z
    return A.OF(F.scope, out)


def table_of(F, child, parents, states):
    """2-D table (rows child states, columns row-major over `parents`) of the oracle factor F."""
    ncol = 1
    for p in parents:
        ncol *= len(states[p])
    T = [[None] * ncol for _ in states[child]]
    for a, x in F.tab.items():
        d = dict(a)
        T[states[child].index(d[child])][rowmajor(parents, states, d)] = x
    return T


# ----------------------------------------------------------------------------- real side helpers
def mk_cpd(child, parents, states, table, named=True):
    from pgmpy.factors.discrete import TabularCPD

    kw = {}
    if named:
        kw["state_names"] = {v: list(states[v]) for v in [child] + list(parents)}
    return TabularCPD(child, len(states[child]), [[float(x) for x in row] for row in table],
                      evidence=list(parents) if parents else None,
                      evidence_card=[len(states[p]) for p in parents] if parents else None, **kw)


def snap_cpd(c):
    return A.snap(c) + (c.variable, int(c.variable_card))


def same_snap_cpd(a, b):
    return A.same_snap(a[:6], b[:6]) and a[6:] == b[6:]


def table_close(R, T, tol):
    import numpy as np

    R = np.asarray(R)
    if R.ndim != 2 or R.shape != (len(T), len(T[0])):
        return f"shape {R.shape} expected {(len(T), len(T[0]))}"
    for i, row in enumerate(T):
        for j, x in enumerate(row):
            if not A.close(float(R[i, j]), x, tol):
                return f"entry [{i}][{j}] = {float(R[i, j])!r} expected {x}"
    return None


def cpd_diff(c, E, child, states, tol=1e-12, order=None):
    """TabularCPD c has the view E, child first, consistent variable/variable_card/get_values."""
    d = A.diff(c, E, states, tol)
    if d:
        return d
    if c.variables[0] != child or c.variable != child:
        return "child-position", f"variables {c.variables}, variable {c.variable!r}; child {child!r} must stay first"
    if int(c.variable_card) != len(states[child]):
        return "cardinality", f"variable_card {c.variable_card} expected {len(states[child])}"
    if order is not None and list(c.variables) != list(order):
        return "variables-order", f"variables {c.variables} expected {list(order)}"
    t = table_close(c.get_values(), table_of(E, child, c.variables[1:], states), tol)
    if t:
        return "get_values", "get_values(): " + t
    return None


# ----------------------------------------------------------------------------- generators
def _norm_column(rng, card, pzero):
    while True:
        cuts = sorted(rng.randint(0, 8) for _ in range(card - 1))
        col = [b - a for a, b in zip([0] + cuts, cuts + [8])]
        if pzero or all(col):
            return col


def _raw_column(rng, card, pzero):
    while True:
        col = [0 if rng.random() < pzero else rng.randint(1, 8) for _ in range(card)]
        if sum(col) > 0:
            return col


def _gen_cpd_cases(tier, seed, salt, max_par=3):
    rng = O.mk_rng(seed, salt)
    idx = 0
    for npar in range(max_par + 1):
        choices = list(itertools.product((1, 2, 3), repeat=npar + 1))
        if tier == "quick":
            if npar == 2:
                choices = [c for c in choices if len(set(c)) == 3] + [(2, 2, 2), (3, 1, 1), (1, 3, 2), (2, 3, 3)]
            elif npar == 3:
                choices = [(2, 3, 1, 2), (3, 2, 3, 1), (1, 2, 2, 3), (2, 1, 3, 2), (3, 3, 2, 2)]
        for cs in choices:
            labs = LABELINGS if (tier != "quick" or npar >= 2) else (LABELINGS[idx % 5], LABELINGS[(idx + 2) % 5])
            for lab in labs:
                names = CHILD_PARENT_NAMES[idx % 4:] + CHILD_PARENT_NAMES[:idx % 4]
                child, parents = names[0], names[1:npar + 1]
                cards = dict(zip([child] + parents, cs))
                ncol = A._size(parents, cards)
                normalized = idx % 2 == 0
                cols = [(_norm_column if normalized else _raw_column)(rng, cards[child], 0.25 if idx % 3 else 0) for _ in range(ncol)]
                table = [[f"{cols[j][i]}/8" for j in range(ncol)] for i in range(cards[child])]
                idx += 1
                yield {"child": child, "parents": parents, "vars": A._mk_vars([child] + parents, cards, lab, idx), "labeling": lab,
                       "normalized": normalized, "table": table}


def gen_cpd(tier, seed):
    return _gen_cpd_cases(tier, seed, "c05-cpd")


def gen_valid(tier, seed):
    for c in _gen_cpd_cases(tier, seed, "c05-valid", max_par=2 if tier == "quick" else 3):
        if c["normalized"]:
            yield c


def gen_models(tier, seed):
    rng = O.mk_rng(seed, "c05-models")
    reps = 1 if tier == "quick" else 6
    k = 0
    for n in (1, 2, 3):
        for edges in O.all_dags(n, O.node_names(n, "long" if n % 2 else "x")):
            for rep in range(reps):
                for style in ("int", "str", "mixed", "perm"):
                    names = O.node_names(n, "long" if n % 2 else "x")
                    rot = [(2, 3, 1), (3, 2, 2), (1, 2, 3), (2, 2, 3)][k % 4]
                    cards = {v: rot[(i + k) % 3] for i, v in enumerate(names)}
                    k += 1
                    spec = O.random_bn_spec(rng, names, edges, cards=cards, style=style, zeros=(k % 3 == 0))
                    js = O.spec_to_json(spec)
                    js["style"] = style
                    yield js


# ----------------------------------------------------------------------------- checks
def check_cpd(case):
    A._quiet()
    import numpy as np

    states = A._decode_states(case)
    child, parents, lab = case["child"], list(case["parents"]), case["labeling"]
    named = lab != "default"
    table = [[Fraction(x) for x in row] for row in case["table"]]
    F = of_from_table(child, parents, states, table)
    scope = [child] + parents
    ctx = f"P({child}|{parents}) cards={[len(states[v]) for v in scope]} labeling={lab}"
    pending = []

    def mk():
        return mk_cpd(child, parents, states, table, named)

    c = mk()
    before = snap_cpd(c)

    def frame(op, extra=""):
        if not same_snap_cpd(before, snap_cpd(c)):
            return {"key": f"{op}:operand-mutated", "what": f"{op} {ctx} {extra}: the CPD it was called on changed: variables {c.variables} "
                    f"cardinality {c.cardinality} state_names {c.state_names} values {np.asarray(c.values).tolist()}"}
        return None

    # 1. constructor: column j <-> j-th parent configuration in row-major order of the evidence list
    d = cpd_diff(c, F, child, states, order=scope)
    if d:
        return A.fail("__init__", d, ctx)
    # 2. get_values is the inverse
    t = table_close(c.get_values(), table, 1e-12)
    if t:
        return {"key": "get_values:table", "what": f"{ctx}: {t}"}
    # 3. copy / to_factor
    from pgmpy.factors.discrete import DiscreteFactor, TabularCPD

    cp = c.copy()
    if type(cp) is not TabularCPD or cp is c:
        return {"key": "copy:type", "what": f"{ctx}: copy() returned {type(cp)}"}
    d = cpd_diff(cp, F, child, states, order=scope)
    if d:
        return A.fail("copy", d, ctx)
    tf = c.to_factor()
    if type(tf) is not DiscreteFactor:
        return {"key": "to_factor:type", "what": f"{ctx}: to_factor() returned {type(tf)}"}
    d = A.diff(tf, F, states)
    if d or list(tf.variables) != scope:
        return A.fail("to_factor", d or ("variables-order", f"{tf.variables}"), ctx)
    for op, r in (("copy", cp), ("to_factor", tf)):
        A.scribble(r)
        fr = frame(op, "(after mutating the result)")
        if fr:
            fr["key"] = f"{op}:result-aliases-operand"
            return fr
    # 4. reorder_parents, every permutation
    if parents:
        for new in itertools.permutations(parents):
            new = list(new)
            T = table_of(F, child, new, states)
            R = c.reorder_parents(list(new), inplace=False)
            t = table_close(R, T, 1e-12)
            if t:
                return {"key": "reorder_parents:outofplace:values", "what": f"{ctx} new_order={new}: returned table: {t}"}
            fr = frame("reorder_parents:outofplace", f"new_order={new}")
            if fr:
                return fr
            h = mk()
            R = h.reorder_parents(list(new))
            if list(h.variables) != [child] + new or h.variable != child:
                return {"key": "reorder_parents:inplace:variables", "what": f"{ctx} new_order={new}: variables {h.variables}"}
            want_card = [len(states[v]) for v in h.variables]
            vals = np.asarray(h.values)
            if np.array(h.cardinality).tolist() != want_card or list(vals.shape) != want_card or int(h.variable_card) != want_card[0]:
                return {"key": "reorder_parents:inplace:cardinality", "what": f"{ctx} new_order={new}: cardinality {h.cardinality} shape {vals.shape}"}
            # values by position, read through the *original* state lists (independent of what happened to the names)
            for idx in itertools.product(*[range(k) for k in want_card]):
                a = frozenset((v, states[v][i]) for v, i in zip(h.variables, idx))
                if not A.close(float(vals[idx]), F.tab[a], 1e-12):
                    return {"key": "reorder_parents:inplace:values", "what": f"{ctx} new_order={new}: P at {sorted(a, key=repr)} is {float(vals[idx])}, expected {F.tab[a]}"}
            t = table_close(R, T, 1e-12) or table_close(h.get_values(), T, 1e-12)
            if t:
                return {"key": "reorder_parents:inplace:returned-table", "what": f"{ctx} new_order={new}: {t}"}
            d = A.diff(h, F, states)
            if d:
                pending.append({"key": f"reorder_parents:inplace:{d[0]}", "what": f"reorder_parents(inplace=True) {ctx} new_order={new} "
                                f"(current order {parents}): {d[1]}"})
    # 5. normalize (column-wise)
    N = s_colnorm(F, child, states)
    r = c.normalize(inplace=False)
    if type(r) is not TabularCPD or r is c:
        return {"key": "normalize:no-new-object", "what": f"{ctx}: normalize(inplace=False) returned {r!r}"}
    d = cpd_diff(r, N, child, states, 1e-9, order=scope)
    if d:
        return A.fail("normalize", d, ctx)
    fr = frame("normalize")
    if fr:
        return fr
    h = mk()
    if h.normalize() is not None:
        return {"key": "normalize:inplace-returned-value", "what": ctx}
    d = cpd_diff(h, N, child, states, 1e-9, order=scope)
    if d:
        return A.fail("normalize:inplace", d, ctx)
    A.scribble(r)
    fr = frame("normalize", "(after mutating the result)")
    if fr:
        fr["key"] = "normalize:result-aliases-operand"
        return fr
    # 6./7. marginalize and reduce over every subset of parents
    for V in A._subsets(parents):
        rest = [p for p in parents if p not in V]
        EM = s_colnorm(A.s_marg(F, V, states), child, states)
        for Vl in ([V, V[::-1]] if len(V) > 1 else [V]):
            r = c.marginalize(list(Vl), inplace=False)
            if type(r) is not TabularCPD or r is c:
                return {"key": "marginalize:no-new-object", "what": f"{ctx} {Vl}: returned {r!r}"}
            d = cpd_diff(r, EM, child, states, 1e-9, order=[child] + rest)
            if d:
                return A.fail("marginalize", d, ctx + f" {Vl}")
            fr = frame("marginalize", f"{Vl}")
            if fr:
                return fr
            h = mk()
            if h.marginalize(list(Vl)) is not None:
                return {"key": "marginalize:inplace-returned-value", "what": ctx}
            d = cpd_diff(h, EM, child, states, 1e-9, order=[child] + rest)
            if d:
                return A.fail("marginalize:inplace", d, ctx + f" {Vl}")
            A.scribble(r)
            fr = frame("marginalize", f"{Vl} (after mutating the result)")
            if fr:
                fr["key"] = "marginalize:result-aliases-operand"
                return fr
        for ev in A._reduce_args(V, states):
            ER = s_colnorm(A.s_reduce(F, ev, states), child, states)
            items = list(ev.items())
            for vals_ in ([items, items[::-1]] if len(items) > 1 else [items]):
                r = c.reduce(list(vals_), inplace=False)
                if type(r) is not TabularCPD or r is c:
                    return {"key": "reduce:no-new-object", "what": f"{ctx} {vals_}: returned {r!r}"}
                d = cpd_diff(r, ER, child, states, 1e-9, order=[child] + rest)
                if d:
                    return A.fail("reduce", d, ctx + f" {vals_}")
                fr = frame("reduce", f"{vals_}")
                if fr:
                    return fr
                h = mk()
                if h.reduce(list(vals_)) is not None:
                    return {"key": "reduce:inplace-returned-value", "what": ctx}
                d = cpd_diff(h, ER, child, states, 1e-9, order=[child] + rest)
                if d:
                    return A.fail("reduce:inplace", d, ctx + f" {vals_}")
                A.scribble(r)
                fr = frame("reduce", f"{vals_} (after mutating the result)")
                if fr:
                    fr["key"] = "reduce:result-aliases-operand"
                    return fr
    for op, call in (("marginalize", lambda: c.marginalize([child], inplace=False)),
                     ("reduce", lambda: c.reduce([(child, states[child][0])], inplace=False))):
        try:
            call()
            return {"key": f"{op}:child-accepted", "what": f"{ctx}: {op} on the CPD's own variable did not raise ValueError"}
        except ValueError:
            pass
    fr = frame("marginalize/reduce on the child")
    if fr:
        return fr
    return pending[0] if pending else None


def check_valid(case):
    """is_valid_cpd: True iff every column sum is within 0.01 (+1e-5) of 1."""
    A._quiet()
    states = A._decode_states(case)
    child, parents, lab = case["child"], list(case["parents"]), case["labeling"]
    table = [[Fraction(x) for x in row] for row in case["table"]]
    ncol, nrow = len(table[0]), len(table)
    ctx = f"P({child}|{parents}) cards={[len(states[v]) for v in [child] + parents]}"

    def verdict(tab, want, why):
        c = mk_cpd(child, parents, states, tab, lab != "default")
        b = snap_cpd(c)
        got = c.is_valid_cpd()
        if not same_snap_cpd(b, snap_cpd(c)):
            return {"key": "is_valid_cpd:operand-mutated", "what": f"{ctx}: is_valid_cpd changed the CPD"}
        if bool(got) != want:
            return {"key": "is_valid_cpd:within-tolerance-rejected" if want else "is_valid_cpd:outside-tolerance-accepted",
                    "what": f"{ctx} {why}: is_valid_cpd() = {got}, column sums {[float(sum(r[j] for r in tab)) for j in range(ncol)]}"}
        return None

    e = verdict(table, True, "exact columns")
    if e:
        return e
    for j in range(ncol):
        hi = max(range(nrow), key=lambda i: table[i][j])
        for delta, want in (("9/1000", True), ("-9/1000", True), ("0", True), ("11/1000", False), ("-11/1000", False), ("1/50", False), ("-1/50", False),
                            ("1/2", False), ("-1/2", False)):
            t = _copy.deepcopy(table)
            t[hi][j] += Fraction(delta)
            e = verdict(t, want, f"column {j} off by {delta}")
            if e:
                return e
        if nrow >= 2:
            lo = (hi + 1) % nrow
            for d1, d2, want in (("1/200", "1/250", True), ("1/100", "1/100", False), ("1/50", "-1/50", True)):
                t = _copy.deepcopy(table)
                t[hi][j] += Fraction(d1)
                t[lo][j] += Fraction(d2)
                e = verdict(t, want, f"column {j}: two entries off by {d1} and {d2}")
                if e:
                    return e
    if ncol >= 2:
        for j1, j2 in ((0, 1), (ncol - 1, 0)):
            t = _copy.deepcopy(table)
            t[max(range(nrow), key=lambda i: table[i][j1])][j1] += Fraction(1, 50)
            t[max(range(nrow), key=lambda i: table[i][j2])][j2] -= Fraction(1, 50)
            e = verdict(t, False, f"columns {j1},{j2} off by +0.02/-0.02 (total mass unchanged)")
            if e:
                return e
    t = [[x + Fraction(((i * 7 + j * 3) % 9) - 4, 1000) for j, x in enumerate(row)] for i, row in enumerate(table)]
    if all(abs(sum(r[j] for r in t) - 1) <= Fraction(9, 1000) for j in range(ncol)):
        e = verdict(t, True, "every entry perturbed, all column sums within 0.009")
        if e:
            return e
    e = verdict([[x * 2 for x in row] for row in table], False, "all columns sum to 2")
    if e:
        return e
    return None


def _mk_model(spec, cpds=None, skip=()):
    from pgmpy.models import BayesianNetwork

    m = BayesianNetwork([tuple(e) for e in spec["edges"]])
    m.add_nodes_from(spec["nodes"])
    for v in spec["nodes"]:
        if v in skip:
            continue
        m.add_cpds(cpds[v] if cpds and v in cpds else O.make_cpd(spec, v))
    return m


def _cpd_from(child, parents, states, table):
    return mk_cpd(child, parents, states, table, True)


def _uniform_table(child, parents, states):
    ncol = 1
    for p in parents:
        ncol *= len(states[p])
    k = len(states[child])
    return [[Fraction(1, k)] * ncol for _ in range(k)]


def _new_state(sts):
    return max(s for s in sts if isinstance(s, int)) + 7 if any(isinstance(s, int) for s in sts) else "other_state"


def _mixed_label_lookup():
    """labels 1 and "1" in one model are different variables: lookups by label must not confuse them"""
    from pgmpy.factors.discrete import TabularCPD
    from pgmpy.models import BayesianNetwork

    m = BayesianNetwork([(1, "1")])
    c_int = TabularCPD(1, 2, [[0.25], [0.75]])
    c_str = TabularCPD("1", 3, [[0.5, 0.25], [0.25, 0.25], [0.25, 0.5]], evidence=[1], evidence_card=[2])
    m.add_cpds(c_int)
    try:
        m.check_model()
        return {"key": "check_model:mixed-labels:missing-cpd-accepted", "what": "model with nodes 1 and '1' and a CPD for 1 only was accepted"}
    except ValueError:
        pass
    m.add_cpds(c_str)
    if m.get_cpds(1) is not c_int or m.get_cpds("1") is not c_str:
        return {"key": "get_cpds:mixed-labels", "what": f"get_cpds(1) -> {m.get_cpds(1).variable!r}, get_cpds('1') -> {m.get_cpds('1').variable!r}"}
    if m.get_cardinality(1) != 2 or m.get_cardinality("1") != 3 or m.check_model() is not True:
        return {"key": "get_cpds:mixed-labels", "what": "cardinalities / validation confused by labels 1 and '1'"}
    return None


def check_models(case):
    A._quiet()
    f = _mixed_label_lookup()
    if f:
        return f
    spec = O.spec_from_json(case)
    nodes, edges, states = spec["nodes"], spec["edges"], spec["states"]
    n = len(nodes)
    ctx = f"nodes={nodes} edges={edges} cards={[len(states[v]) for v in nodes]} parents={ {v: spec['cpd'][v]['parents'] for v in nodes} }"

    def expect_reject(m, fault):
        try:
            r = m.check_model()
        except ValueError:
            return None
        except Exception as e:  # noqa
            return {"key": f"check_model:{fault}:raised-{type(e).__name__}", "what": f"{ctx}: {fault}: {type(e).__name__}: {e} instead of ValueError"}
        return {"key": f"check_model:{fault}:accepted", "what": f"{ctx}: single fault '{fault}' but check_model() returned {r!r}"}

    def expect_accept(m, what):
        try:
            r = m.check_model()
        except ValueError as e:
            return {"key": f"check_model:{what}:rejected", "what": f"{ctx}: {what}: ValueError {e}"}
        if r is not True:
            return {"key": f"check_model:{what}:not-true", "what": f"{ctx}: returned {r!r}"}
        return None

    def joint_checks(m, sp, what):
        tot = 0.0
        for a in O.all_assignments(sp, nodes):
            got = float(m.get_state_probability(dict(a)))
            want = O.joint_prob(sp, a)
            if not A.close(got, want, 1e-9):
                return {"key": f"get_state_probability:{what}:joint", "what": f"{ctx}: P({a}) = {got}, product of CPD entries by name = {float(want)}"}
            tot += got
        if abs(tot - 1.0) > n * TOL + 1e-9:
            return {"key": f"get_state_probability:{what}:total", "what": f"{ctx}: accepted model but the joint sums to {tot}"}
        return tot

    # the correct model
    m = _mk_model(spec)
    e = expect_accept(m, "correct-model")
    if e:
        return e
    tot = joint_checks(m, spec, "correct-model")
    if isinstance(tot, dict):
        return tot
    if abs(tot - 1.0) > 1e-9:
        return {"key": "get_state_probability:correct-model:total", "what": f"{ctx}: joint sums to {tot}"}
    for v in nodes:
        for s in states[v]:
            got = float(m.get_state_probability({v: s}))
            want = O.marginal(spec, [v])[(s,)]
            if not A.close(got, want, 1e-9):
                return {"key": "get_state_probability:correct-model:marginal", "what": f"{ctx}: P({v}={s!r}) = {got}, expected {float(want)}"}
    if {v: list(s) for v, s in m.states.items()} != {v: list(states[v]) for v in nodes}:
        return {"key": "states:correct-model", "what": f"{ctx}: model.states = {m.states}"}
    for v in nodes:
        if int(m.get_cardinality(v)) != len(states[v]):
            return {"key": "get_cardinality:correct-model", "what": f"{ctx}: get_cardinality({v}) = {m.get_cardinality(v)}"}

    for v in nodes:
        ps = list(spec["cpd"][v]["parents"])
        table = spec["cpd"][v]["table"]
        # missing CPD
        e = expect_reject(_mk_model(spec, skip=(v,)), "missing-cpd")
        if e:
            return e
        # wrong parent set: one parent dropped / one non-parent added / one parent replaced
        others = [u for u in nodes if u != v and u not in ps]
        variants = []
        for p in ps:
            variants.append(("parent-dropped", [q for q in ps if q != p]))
            for u in others:
                variants.append(("parent-replaced", [u if q == p else q for q in ps]))
        for u in others:
            variants.append(("parent-added", ps + [u]))
            variants.append(("parent-added", [u] + ps))
        for fault, ps2 in variants:
            cpd = _cpd_from(v, ps2, states, _uniform_table(v, ps2, states))
            e = expect_reject(_mk_model(spec, {v: cpd}), fault)
            if e:
                return e
        # wrong parent cardinality / mismatched parent state names in the child's CPD
        for p in ps:
            alts = [("parent-cardinality", states[p] + [_new_state(states[p])])]
            if len(states[p]) >= 2:
                alts.append(("parent-cardinality", states[p][:-1]))
            alts.append(("parent-state-names", states[p][:-1] + [_new_state(states[p])]))
            alts.append(("parent-state-names", [_new_state(states[p])] + states[p][1:]))
            if len(states[p]) >= 2:
                # same names in another ORDER: the child's columns would be read against the wrong parent states
                alts.append(("parent-state-order", states[p][1:] + states[p][:1]))
            for fault, sp_ in alts:
                st2 = dict(states)
                st2[p] = sp_
                cpd = _cpd_from(v, ps, st2, _uniform_table(v, ps, st2))
                e = expect_reject(_mk_model(spec, {v: cpd}), fault)
                if e:
                    return e
        # column sums: every column in turn off by +-0.02 (rejected) / +-0.005 (accepted)
        ncol = len(table[0])
        for j in range(ncol):
            hi = max(range(len(table)), key=lambda i: table[i][j])
            for delta, ok in (("1/50", False), ("-1/50", False), ("1/200", True), ("-1/200", True)):
                sp2 = dict(spec)
                sp2["cpd"] = dict(spec["cpd"])
                t2 = [list(r) for r in table]
                t2[hi][j] += Fraction(delta)
                sp2["cpd"][v] = {"parents": ps, "table": t2}
                m2 = _mk_model(sp2)
                if not ok:
                    e = expect_reject(m2, "column-sum-off-0.02")
                    if e:
                        return e
                else:
                    e = expect_accept(m2, "column-sum-off-0.005")
                    if e:
                        return e
                    if j in (0, ncol - 1):
                        tot = joint_checks(m2, sp2, "column-sum-off-0.005")
                        if isinstance(tot, dict):
                            return tot
    return None


def nontrivial_cpd(case):
    return len({x for row in case["table"] for x in row}) > 1


def nontrivial_model(case):
    return len(case["edges"]) >= 1 or any(len(s) > 1 for s in case["states"].values())


def groups(tier):
    common = "cards in {1,2,3} (child and parents), multi-character names, labelings default ints / strings / tuples / permuted ints / mixed, " \
             "tables of dyadic rationals k/8 with zeros, alternately column-normalised and unnormalised"
    return [
        Group("cpd", gen_cpd, check_cpd, nontrivial_cpd, seed_fanout=2, engine="E3",
              bound="0..3 parents; quick: all card assignments for <= 1 parent (2 labelings each), 10 for 2 parents and 5 for 3 parents (5 labelings "
                    "each); thorough: all 3^(k+1) card assignments for k = 0..3 parents, 5 labelings each. Constructor "
                    "column meaning, get_values, copy, to_factor, reorder_parents (every permutation, in place and out of place), normalize, "
                    "marginalize (every parent subset, both listing orders), reduce (every assignment of every parent subset), frame + aliasing. " + common),
        Group("validity", gen_valid, check_valid, nontrivial_cpd, seed_fanout=1, engine="E3",
              bound="column-normalised CPDs with 0..2 (thorough 0..3) parents; each column in turn off by +-0.009 / 0 (valid), +-0.011 / +-0.02 / "
                    "+-0.5 (invalid), two-entry perturbations, compensating +0.02/-0.02 in two columns (invalid), all entries perturbed within 0.009"),
        Group("check_model", gen_models, check_models, nontrivial_model, seed_fanout=2, engine="E3",
              bound="all 29 DAGs on 1..3 nodes x 4 state-name styles (thorough: x 6 seeded tables), cards rotating over {1,2,3}, shuffled parent "
                    "order; correct model accepted, joint/marginals of get_state_probability by name; per node single faults: missing CPD, parent "
                    "dropped/added/replaced, parent cardinality +1/-1, parent state renamed, each column off by +-0.02 (ValueError) and +-0.005 "
                    "(accepted, joint sums to 1 within n*tol)"),
    ]
