"""C11 bounded groups (E3): HillClimbSearch / ExhaustiveSearch / TreeSearch against brute-force oracles.

Scores are taken from the scorer's `local_score(variable, parents)` as an uninterpreted decomposable function
(its value is C10's subject); everything structural is recomputed here: legality of moves, acyclicity,
enumeration of all DAGs / all spanning trees, maximisation.
"""
from __future__ import annotations

import itertools
import math

from vf.core import Group
from vf.bounded import oracles as O

TOL = 1e-8


# ----------------------------------------------------------------------------- data sets (JSON-able)
def _col_names(rng, n):
    style = rng.choice(("long", "x", "mixedlen"))
    if style == "mixedlen":
        return ["v", "wet grass", "Rain_2", "s", "cloudy"][:n]
    return O.node_names(n, style)


def _states(rng, card):
    return rng.choice(([0, 1, 2], ["lo", "mid", "hi"], [2, 0, 1], ["b", "a", "c"]))[:card]


def rand_data(rng, n, strong=False):
    """rows sampled from a random DAG model (so that there is structure to find); cards <= 3, 20..60 rows."""
    cols = _col_names(rng, n)
    order = list(range(n))
    rng.shuffle(order)
    cards = [rng.choice((2, 2, 3)) for _ in range(n)]
    states = [_states(rng, c) for c in cards]
    if strong:
        parents = {order[i]: ([order[rng.randrange(i)]] if i else []) for i in range(n)}
    else:
        parents = {order[i]: [order[j] for j in range(i) if rng.random() < 0.5][:2] for i in range(n)}
    noise = rng.choice((0.1, 0.2)) if strong else rng.choice((0.15, 0.3, 0.5))
    maps = {v: {cfg: rng.randrange(cards[v]) for cfg in itertools.product(*[range(cards[p]) for p in parents[v]])} for v in range(n)}
    nrows = rng.randint(20, 60)
    rows = []
    for _ in range(nrows):
        val = {}
        for v in order:
            k = maps[v][tuple(val[p] for p in parents[v])]
            if rng.random() < noise or not parents[v]:
                k = rng.randrange(cards[v])
            val[v] = k
        rows.append([states[v][val[v]] for v in range(n)])
    # every state of every column must occur at least twice (keeps cardinalities as designed)
    for v in range(n):
        for k, st in enumerate(states[v]):
            for r in (2 * k, 2 * k + 1):
                rows[(r + 3 * v) % nrows][v] = st
    return {"columns": cols, "rows": rows}


def _quiet():
    import logging

    logging.getLogger("pgmpy").setLevel(logging.ERROR)


def _frame(case):
    import pandas as pd

    df = pd.DataFrame(case["rows"], columns=case["columns"])
    for c in df.columns:  # pandas 3 infers the new `str` dtype, which pgmpy.utils.preprocess_data rejects; state names as python objects
        if not pd.api.types.is_numeric_dtype(df[c]):
            df[c] = df[c].astype(object)
    return df


# ----------------------------------------------------------------------------- score oracle (decomposable sum)
class Total:
    def __init__(self, scorer, nodes):
        self.scorer, self.nodes, self.memo = scorer, list(nodes), {}

    def local(self, v, parents):
        k = (v, frozenset(parents))
        if k not in self.memo:
            self.memo[k] = float(self.scorer.local_score(v, sorted(parents, key=self.nodes.index)))
        return self.memo[k]

    def prior(self, edges):
        from pgmpy.base import DAG

        g = DAG()
        g.add_nodes_from(self.nodes)
        g.add_edges_from(list(edges))
        return float(self.scorer.structure_prior(g))

    def total(self, edges, with_prior=True):
        edges = {tuple(e) for e in edges}
        s = sum(self.local(v, [a for a, b in edges if b == v]) for v in self.nodes)
        return s + (self.prior(edges) if with_prior else 0.0)


def _scorer(spec, data):
    from pgmpy.estimators import AICScore, BDeuScore, BDsScore, BicScore, K2Score

    cls = {"k2": K2Score, "bdeu": BDeuScore, "bds": BDsScore, "bic": BicScore, "aic": AICScore}
    parts = spec.split(":")
    if parts[0] == "inst":
        if len(parts) > 2:
            return cls[parts[1]](data, equivalent_sample_size=int(parts[2]))
        return cls[parts[1]](data)
    return cls[spec.lower()](data)


# ----------------------------------------------------------------------------- hill climbing
def _reach(edges, src):
    return O.descendants_or_self([list(e) for e in edges], [src])


def legal_moves(nodes, edges, fixed, black, white, max_indegree):
    """own move generator (DESIGN C11 spec `legal`): yields (kind, (X, Y), new edge set)."""
    edges = set(edges)
    mi = math.inf if max_indegree is None else max_indegree
    npar = {v: sum(1 for a, b in edges if b == v) for v in nodes}
    for X, Y in itertools.permutations(nodes, 2):
        if (X, Y) in edges:
            if (X, Y) in fixed:
                continue
            yield "-", (X, Y), edges - {(X, Y)}
            rest = edges - {(X, Y)}
            if (white is None or (Y, X) in white) and (Y, X) not in black and npar[X] + 1 <= mi and Y not in _reach(rest, X):
                yield "flip", (X, Y), rest | {(Y, X)}
        elif (Y, X) not in edges:
            if (white is None or (X, Y) in white) and (X, Y) not in black and npar[Y] + 1 <= mi and X not in _reach(edges, Y):
                yield "+", (X, Y), edges | {(X, Y)}


def backmove_data(rng, n):
    """rows where a child is a noisy sum (mod its cardinality) of up to 3 earlier columns, 60..200 rows: greedy search on such data
    regularly adds an edge that becomes redundant later, so reaching a local optimum needs a move that undoes an earlier one."""
    cols = _col_names(rng, n)
    cards = [rng.choice((2, 3)) for _ in range(n)]
    par = {i: rng.sample(range(i), rng.randint(1, min(i, 3))) for i in range(1, n)}
    rows = []
    for _ in range(rng.choice((60, 100, 200))):
        r = [0] * n
        for i in range(n):
            s = sum(r[p] * (j + 1) for j, p in enumerate(par.get(i, ())))
            r[i] = rng.randrange(cards[i]) if (i == 0 or rng.random() < 0.25) else s % cards[i]
        rows.append(r)
    return {"columns": cols, "rows": rows}


def _pair_state(edges, a, b):
    return 1 if (a, b) in edges else (2 if (b, a) in edges else 0)


def rand_hc_config(rng, cols):
    n = len(cols)
    pairs = list(itertools.permutations(cols, 2))
    start = None if rng.random() < 0.35 else O.random_dag(rng, n, rng.choice((0.2, 0.5, 0.8)), cols)
    base = {tuple(e) for e in (start or [])}
    fixed = []
    if rng.random() < 0.5:
        for a, b in rng.sample(pairs, min(len(pairs), rng.randint(1, 2))):
            if (b, a) in base or (a, b) in fixed or (b, a) in fixed:
                continue
            if O.is_acyclic(cols, list(base | {(a, b)})):
                fixed.append((a, b))
                base.add((a, b))
    black = [p for p in rng.sample(pairs, rng.randint(0, min(4, len(pairs)))) if p not in base] if rng.random() < 0.5 else None
    white = rng.sample(pairs, rng.randint(1, len(pairs))) if rng.random() < 0.35 else None
    eps = rng.choice((1e-4, 1e-4, 1e-4, 0.5, 2.0, 1e-9))
    return {
        "scoring": rng.choice(("k2", "bdeu", "bds", "bic", "aic", "K2", "BIC", "inst:k2", "inst:bdeu:5", "inst:bds:3", "inst:bic", "inst:aic")),
        "start": start, "fixed": [list(e) for e in fixed], "fixed_as": rng.choice(("set", "list")),
        "black": None if black is None else [list(e) for e in black], "white": None if white is None else [list(e) for e in white],
        "lists_as": rng.choice(("set", "list")),
        "max_indegree": rng.choice((None, None, 1, 2)), "tabu_length": rng.choice((0, 0, 0, 1, 3, 100)),
        "epsilon": eps, "max_iter": rng.choice((1e6, 1e6, 1e6, 1e6, 0, 1, 2, 3)), "use_cache": rng.random() < 0.7,
    }


def gen_hc(tier, seed):
    rng = O.mk_rng(seed, "c11-hc")
    for i in range(160 if tier == "quick" else 900):
        n = rng.choice((2, 3, 3, 4, 4, 4) if tier == "quick" else (2, 3, 3, 4, 4, 4, 5, 5))
        case = rand_data(rng, n)
        case["configs"] = [rand_hc_config(rng, case["columns"]) for _ in range(6)]
        yield case
    # tabu list disabled, data on which the search has to take a move back
    for i in range(100 if tier == "quick" else 500):
        case = backmove_data(rng, rng.choice((4, 5)))
        c = rand_hc_config(rng, case["columns"])
        c.update(scoring=rng.choice(("k2", "bdeu", "inst:bdeu:5", "bic")), start=None, fixed=[], black=None, white=None, max_indegree=None, tabu_length=0,
                 epsilon=1e-4, max_iter=1e6)
        case["configs"] = [c]
        yield case
    # all start DAGs on <= 3 nodes, tabu list disabled
    for n in (2, 3):
        for edges in O.all_dags(n, O.node_names(n, "long")):
            case = rand_data(rng, n)
            case["columns"] = O.node_names(n, "long")
            cfgs = []
            for _ in range(2):
                c = rand_hc_config(rng, case["columns"])
                c.update(start=edges, fixed=[], black=None, tabu_length=0, max_iter=1e6)
                cfgs.append(c)
            case["configs"] = cfgs
            yield case


def _as(kind, pairs):
    if pairs is None:
        return None
    t = [tuple(e) for e in pairs]
    return set(t) if kind == "set" else t


def check_hc(case):
    from pgmpy.base import DAG
    from pgmpy.estimators import HillClimbSearch

    _quiet()
    data = _frame(case)
    cols = case["columns"]
    for ci, cfg in enumerate(case["configs"]):
        scorer = _scorer(cfg["scoring"], data)
        tot = Total(scorer, cols)
        start = None
        if cfg["start"] is not None:
            start = DAG()
            start.add_nodes_from(cols)
            start.add_edges_from([tuple(e) for e in cfg["start"]])
        fixed = {tuple(e) for e in cfg["fixed"]}
        base = {tuple(e) for e in (cfg["start"] or [])} | fixed
        black = {tuple(e) for e in (cfg["black"] or [])}
        white = None if cfg["white"] is None else {tuple(e) for e in cfg["white"]}
        mi, eps, max_iter = cfg["max_indegree"], cfg["epsilon"], cfg["max_iter"]
        est = HillClimbSearch(data, use_cache=cfg["use_cache"])
        res = est.estimate(scoring_method=(scorer if cfg["scoring"].startswith("inst") else cfg["scoring"]),
                           start_dag=None if start is None else start.copy(), fixed_edges=_as(cfg["fixed_as"], cfg["fixed"]), tabu_length=cfg["tabu_length"],
                           max_indegree=mi, black_list=_as(cfg["lists_as"], cfg["black"]), white_list=_as(cfg["lists_as"], cfg["white"]), epsilon=eps,
                           max_iter=max_iter, show_progress=False)
        tag = f"config #{ci} {({k: v for k, v in cfg.items()})}"
        if not isinstance(res, DAG) or set(res.nodes()) != set(cols) or len(res.nodes()) != len(cols):
            return {"key": "estimate:nodes", "what": f"{tag}: result nodes {list(res.nodes())} != data columns {cols}"}
        E = {tuple(e) for e in res.edges()}
        head = f"{tag}: start+fixed {sorted(base)} -> result {sorted(E)}"
        if not O.is_acyclic(cols, list(E)):
            return {"key": "estimate:cyclic", "what": head}
        if not fixed <= E:
            return {"key": "estimate:fixed-edge-missing", "what": head + f" lacks fixed {sorted(fixed - E)}"}
        if (E - base) & black:
            return {"key": "estimate:black-listed-edge", "what": head + f" added black-listed {sorted((E - base) & black)}"}
        if white is not None and not (E - base) <= white:
            return {"key": "estimate:not-white-listed", "what": head + f" added {sorted((E - base) - white)} outside the white list"}
        if mi is not None:
            for v in cols:
                pa = {a for a, b in E if b == v}
                if len(pa) > mi and not pa <= {a for a, b in base if b == v}:
                    return {"key": "estimate:max-indegree", "what": head + f": node {v} got parents {sorted(pa)} (> {mi}, not a subset of its start parents)"}
        s0, s1 = tot.total(base), tot.total(E)
        if s1 < s0 - 1e-9 * max(1.0, abs(s0)):
            return {"key": "estimate:score-decreased", "what": head + f": score {s1} < start score {s0}"}
        dist = sum(1 for a, b in itertools.combinations(cols, 2) if _pair_state(E, a, b) != _pair_state(base, a, b))
        if dist > max_iter:
            return {"key": "estimate:max-iter", "what": head + f": needs >= {dist} moves, max_iter={max_iter}"}
        if (cfg["tabu_length"] == 0 and max_iter >= 1e5) or (E == base and max_iter >= 1):
            for kind, (X, Y), E2 in legal_moves(cols, E, fixed, black, white, mi):
                delta = tot.total(E2) - s1
                if delta > eps + TOL * max(1.0, abs(s1)):
                    return {"key": "estimate:not-local-optimum:" + {"+": "add", "-": "delete", "flip": "flip"}[kind],
                            "what": head + f": legal move {kind}{(X, Y)} improves the score by {delta} >= epsilon={eps}"}
    return None


# ----------------------------------------------------------------------------- exhaustive search
def gen_ex(tier, seed):
    rng = O.mk_rng(seed, "c11-ex")
    for i in range(56 if tier == "quick" else 240):
        n = rng.choice((2, 3, 3, 4))
        case = rand_data(rng, n)
        case["scoring"] = rng.choice(("default", "inst:k2", "inst:bdeu:5", "inst:bdeu:10", "inst:bic", "inst:aic", "inst:bds:10"))
        case["use_cache"] = rng.random() < 0.7
        yield case


def check_ex(case):
    from pgmpy.base import DAG
    from pgmpy.estimators import ExhaustiveSearch

    _quiet()
    data = _frame(case)
    cols = case["columns"]
    n = len(cols)
    if case["scoring"] == "default":
        scorer = _scorer("k2", data)
        est = ExhaustiveSearch(data)
    else:
        scorer = _scorer(case["scoring"], data)
        est = ExhaustiveSearch(data, scoring_method=scorer, use_cache=case["use_cache"])
    tot = Total(scorer, cols)
    # the cached scorer drops the structure prior of BDs (defect of ScoreCache.score, property C10): separate failure class
    sfx = ":bds-prior" if "bds" in case["scoring"] and (case["use_cache"] or case["scoring"] == "default") else ""
    mine = {frozenset(map(tuple, E)): tot.total(E) for E in O.all_dags(n, cols)}
    best = max(mine.values())
    res = est.estimate()
    E = frozenset(tuple(e) for e in res.edges())
    if not isinstance(res, DAG) or set(res.nodes()) != set(cols) or E not in mine:
        return {"key": "ExhaustiveSearch.estimate:not-a-dag-on-the-columns", "what": f"{case['scoring']}: nodes {list(res.nodes())} edges {sorted(E)}"}
    if mine[E] < best - 1e-9 * max(1.0, abs(best)):
        arg = max(mine, key=mine.get)
        return {"key": "ExhaustiveSearch.estimate:not-maximal" + sfx, "what": f"{case['scoring']} cache={case['use_cache']}: returned {sorted(E)} with score {mine[E]}; "
                f"{sorted(arg)} scores {best}"}
    if n <= 3:
        lst = est.all_scores()
        seen = [frozenset(tuple(e) for e in g.edges()) for _, g in lst]
        if len(seen) != len(set(seen)) or set(seen) != set(mine) or any(set(g.nodes()) != set(cols) for _, g in lst):
            return {"key": "ExhaustiveSearch.all_scores:enumeration", "what": f"{len(seen)} entries, {len(set(seen))} distinct; there are {len(mine)} DAGs on {cols}; "
                    f"missing {[sorted(x) for x in set(mine) - set(seen)][:3]} extra {[sorted(x) for x in set(seen) - set(mine)][:3]}"}
        for (s, g), k in zip(lst, seen):
            if abs(float(s) - mine[k]) > 1e-9 * max(1.0, abs(mine[k])):
                return {"key": "ExhaustiveSearch.all_scores:score" + sfx, "what": f"{case['scoring']} cache={case['use_cache']}: DAG {sorted(k)} listed with {s}, scorer gives {mine[k]}"}
        if any(lst[i][0] > lst[i + 1][0] + 1e-12 for i in range(len(lst) - 1)):
            return {"key": "ExhaustiveSearch.all_scores:order", "what": "scores not ascending"}
    return None


# ----------------------------------------------------------------------------- tree search
WEIGHT_FNS = ("mutual_info", "adjusted_mutual_info", "normalized_mutual_info")


def own_mi(xs, ys):
    n = len(xs)
    if n == 0:
        return 0.0
    cx, cy, cxy = {}, {}, {}
    for a, b in zip(xs, ys):
        cx[a] = cx.get(a, 0) + 1
        cy[b] = cy.get(b, 0) + 1
        cxy[(a, b)] = cxy.get((a, b), 0) + 1
    s = sum(c / n * math.log(c * n / (cx[a] * cy[b])) for (a, b), c in cxy.items())
    return max(0.0, s)


def pair_weight(fn, xs, ys):
    if fn == "mutual_info":
        return own_mi(xs, ys)
    from sklearn.metrics import adjusted_mutual_info_score, normalized_mutual_info_score

    return float({"adjusted_mutual_info": adjusted_mutual_info_score, "normalized_mutual_info": normalized_mutual_info_score}[fn](xs, ys))


def weights(case, fn, cols, given=None):
    """{frozenset(u,v): weight}; with `given`: sum_c p(c) * weight within the rows having class value c."""
    col = {c: [r[i] for r in case["rows"]] for i, c in enumerate(case["columns"])}
    N = len(case["rows"])
    out = {}
    for u, v in itertools.combinations(cols, 2):
        if given is None:
            out[frozenset((u, v))] = pair_weight(fn, col[u], col[v])
        else:
            w = 0.0
            for cval in sorted(set(col[given]), key=repr):
                idx = [i for i in range(N) if col[given][i] == cval]
                w += len(idx) / N * pair_weight(fn, [col[u][i] for i in idx], [col[v][i] for i in idx])
            out[frozenset((u, v))] = w
    return out


def max_spanning_weight(nodes, w):
    best = None
    pairs = list(w)
    for T in itertools.combinations(pairs, len(nodes) - 1):
        comp = {v: v for v in nodes}

        def find(x):
            while comp[x] != x:
                x = comp[x]
            return x
        ok = True
        for e in T:
            a, b = tuple(e)
            ra, rb = find(a), find(b)
            if ra == rb:
                ok = False
                break
            comp[ra] = rb
        if ok:
            s = sum(w[e] for e in T)
            best = s if best is None or s > best else best
    return best


def check_arborescence(keyp, tag, nodes, root, edges, w):
    """edges: directed edges on `nodes`; must be a max-weight spanning tree directed away from root."""
    edges = [tuple(e) for e in edges]
    par = {}
    for a, b in edges:
        par.setdefault(b, []).append(a)
    if len(edges) != len(nodes) - 1 or any(len(p) != 1 for p in par.values()) or root in par or set(par) != set(nodes) - {root} \
            or O.descendants_or_self([list(e) for e in edges], [root]) != set(nodes):
        return {"key": f"{keyp}:not-a-tree-away-from-root", "what": f"{tag}: edges {sorted(edges)} are not a spanning tree of {nodes} directed away from {root}"}
    got = sum(w[frozenset(e)] for e in edges)
    best = max_spanning_weight(nodes, w)
    if got < best - 1e-9 * max(1.0, abs(best)):
        return {"key": f"{keyp}:not-maximum-weight", "what": f"{tag}: tree {sorted(edges)} has weight {got}; the maximum over all spanning trees is {best}"}
    return None


def gen_tree(tier, seed):
    rng = O.mk_rng(seed, "c11-tree")
    for i in range(64 if tier == "quick" else 400):
        n = rng.choice((3, 3, 4, 4, 5))
        yield rand_data(rng, n, strong=rng.random() < 0.8)


def check_tree(case):
    from pgmpy.base import DAG
    from pgmpy.estimators import TreeSearch

    _quiet()
    data = _frame(case)
    cols = case["columns"]
    for fn in WEIGHT_FNS:
        w = weights(case, fn, cols)
        if min(w.values()) > 1e-9:  # the quantifier of the property: strictly positive pairwise weights
            for root in cols + [None]:
                dag = TreeSearch(data, root_node=root, n_jobs=1).estimate(estimator_type="chow-liu", edge_weights_fn=fn, show_progress=False)
                tag = f"chow-liu {fn} root={root}"
                if not isinstance(dag, DAG) or set(dag.nodes()) != set(cols):
                    return {"key": "TreeSearch.chow-liu:nodes", "what": f"{tag}: nodes {list(dag.nodes())}"}
                r = root
                if root is None:
                    sums = {c: sum(x for e, x in w.items() if c in e) for c in cols}
                    heads = [c for c in cols if not list(dag.predecessors(c))]
                    if len(heads) != 1 or sums[heads[0]] < max(sums.values()) - 1e-9:
                        return {"key": "TreeSearch.chow-liu:default-root", "what": f"{tag}: roots {heads}; weight sums {sums}"}
                    r = heads[0]
                f = check_arborescence("TreeSearch.chow-liu", tag, cols, r, dag.edges(), w)
                if f is not None:
                    return f
        for k, cls in enumerate(cols):
            feats = [c for c in cols if c != cls]
            # TAN is expensive in pgmpy (conditional weights): <= 3 columns everything, else one weight function per class node, 2 roots
            if len(cols) > 3 and WEIGHT_FNS[(k + len(case["rows"])) % 3] != fn:
                continue
            cw = weights(case, fn, feats, given=cls)
            if min(cw.values()) <= 1e-9:
                continue
            for root in (feats if len(cols) <= 3 else [feats[k % len(feats)], feats[(k + 2) % len(feats)]]):
                dag = TreeSearch(data, root_node=root, n_jobs=1).estimate(estimator_type="tan", class_node=cls, edge_weights_fn=fn, show_progress=False)
                tag = f"tan {fn} class={cls} root={root}"
                E = [tuple(e) for e in dag.edges()]
                if set(dag.nodes()) != set(cols):
                    return {"key": "TreeSearch.tan:nodes", "what": f"{tag}: nodes {list(dag.nodes())}"}
                if {(a, b) for a, b in E if a == cls} != {(cls, f_) for f_ in feats} or any(b == cls for a, b in E):
                    return {"key": "TreeSearch.tan:class-edges", "what": f"{tag}: edges {sorted(E)}: class node must be a parent of every feature and have no parent"}
                f = check_arborescence("TreeSearch.tan", tag, feats, root, [e for e in E if e[0] != cls], cw)
                if f is not None:
                    return f
    return None


# ----------------------------------------------------------------------------- exact table scores
def gen_table(tier, seed):
    """decomposable scores given by a table of dyadic per-edge bonuses: score deltas are exact, so `epsilon` can be hit exactly"""
    rng = O.mk_rng(seed, "c11-table")
    for i in range(60 if tier == "quick" else 400):
        n = rng.choice((3, 4, 4, 5))
        names = O.node_names(n, ("long", "x")[i % 2])
        bonus = [[a, b, rng.choice((-2, -1, -0.5, 0.5, 1, 1, 2, 3))] for a, b in itertools.permutations(names, 2) if rng.random() < 0.7]
        start = O.random_dag(rng, n, rng.choice((0.0, 0.3, 0.6)), names)
        yield {"names": names, "bonus": bonus, "default": rng.choice((-2, -1, -0.25)), "start": start, "epsilon": rng.choice((0.5, 1, 1, 2)),
               "use_cache": bool(i % 2), "max_indegree": rng.choice((None, None, 2))}


def check_table(case):
    import pandas as pd
    from pgmpy.base import DAG
    from pgmpy.estimators import HillClimbSearch, StructureScore

    _quiet()
    names, eps = case["names"], case["epsilon"]
    bonus = {(a, b): w for a, b, w in case["bonus"]}
    default = case["default"]

    class TableScore(StructureScore):
        def local_score(self, variable, parents):
            return sum(bonus.get((p, variable), default) for p in parents)

    data = pd.DataFrame([[(i * (j + 1)) % 2 for j in range(len(names))] for i in range(8)], columns=names)
    start = DAG()
    start.add_nodes_from(names)
    start.add_edges_from([tuple(e) for e in case["start"]])
    base = {tuple(e) for e in case["start"]}
    mi = case["max_indegree"]
    res = HillClimbSearch(data, use_cache=case["use_cache"]).estimate(scoring_method=TableScore(data), start_dag=start.copy(), tabu_length=0, epsilon=eps,
                                                                      max_indegree=mi, max_iter=10 ** 4, show_progress=False)
    E = {tuple(e) for e in res.edges()}
    tag = f"table score bonus={case['bonus']} default={default} epsilon={eps} max_indegree={mi} cache={case['use_cache']}: start {sorted(base)} -> {sorted(E)}"
    if set(res.nodes()) != set(names) or not O.is_acyclic(names, list(E)):
        return {"key": "estimate:table-score:not-a-dag-on-the-variables", "what": tag}
    total = lambda ed: sum(bonus.get((a, b), default) for a, b in ed)  # noqa
    s1 = total(E)
    if s1 < total(base):
        return {"key": "estimate:table-score:score-decreased", "what": tag}
    for kind, (X, Y), E2 in legal_moves(names, E, set(), set(), None, mi):
        delta = total(E2) - s1   # exact (dyadic) arithmetic
        if delta >= eps:
            return {"key": "estimate:table-score:not-local-optimum", "what": tag + f": legal move {kind}{(X, Y)} improves the score by {delta} >= epsilon={eps}"}
    return None


def groups(tier):
    return [
        Group("table_score", gen_table, check_table, None, seed_fanout=1, engine="E3",
              bound="60 (400) custom decomposable scores (dyadic per-edge bonus tables) on 3..5 variables, random start DAG, epsilon 0.5/1/2, tabu_length 0, "
                    "max_indegree none/2, cache on/off: exact score deltas, so moves improving by exactly epsilon are decided"),
        Group("hill_climb", gen_hc, check_hc, None, seed_fanout=2, engine="E3",
              bound="seeded discrete data sets, 2..4 columns (thorough: ..5), cards <= 3, 20..60 rows, 6 option sets each: scoring k2/bdeu/bds/bic/aic by name or "
                    "scorer instance, start DAG (none / random / every DAG on <= 3 nodes), fixed edges, black/white lists (set or list), max_indegree none/1/2, "
                    "tabu_length 0/1/3/100, epsilon 1e-9..2, max_iter 0..3 or 1e6, cache on/off; local optimality re-checked with an independent move generator "
                    "whenever the tabu list is disabled (or the result equals the start graph); 100 (500) data sets of 60..200 rows with noisy sum-mod dependencies "
                    "(search needs back-moves) with tabu_length=0"),
        Group("exhaustive", gen_ex, check_ex, None, seed_fanout=1, engine="E3",
              bound="seeded data sets on 2..4 columns; estimate() vs maximum over own enumeration of all DAGs (3/25/543); all_scores() on <= 3 columns"),
        Group("tree_search", gen_tree, check_tree, None, seed_fanout=1, engine="E3",
              bound="seeded data sets on 3..5 columns; chow-liu for every root (+ default root) and 3 weight functions; TAN for every class node "
                    "(3 columns: every root and weight function; more: 2 roots, one weight function per class node); combinations where some pairwise "
                    "weight is not strictly positive are skipped; maximum over all spanning trees by brute force"),
    ]
