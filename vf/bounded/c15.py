"""C15 bounded groups (E3): model-based exploration of edit histories on the real model classes.

A case is one operation sequence (JSON list of [op, args...]) applied to a fresh BayesianNetwork / DAG /
DynamicBayesianNetwork / MarkovNetwork / JunctionTree.  After EVERY step the runner compares the real
object with plain-python expectations (nothing below uses a pgmpy algorithm to decide what is right):

  Inv       acyclic (own Kahn check; junction tree: forest via union-find, no self loop), every CPD/factor scope
            inside the node set, at most one CPD per variable, latents inside the node set;
  frame     a step that raised leaves nodes / edges / latents / CPDs (deep snapshot, values by *named* assignment)
            unchanged (multi-element calls such as add_edges_from are read as a sequence of single operations,
            DESIGN C15, and are exempt);
  effect    an accepted step did what its name says (node/edge present or gone, nothing else touched);
  cpd       after remove_node / do every CPD that was a valid conditional distribution over [node]+parents before
            the step is one over [node]+remaining parents; when the spec-side validation says the model is
            complete and consistent, check_model() must return True;
  separation every model that was split off by copy()/do(inplace=False)/get_random_cpds(inplace=False) is
            snapshotted; later steps on the other side must not change it.

Genuine defects of the unchanged tree that the exploration keeps running into have one dedicated minimal
case each in the group `repro` (DEDICATED below); the exploration groups do not report those keys again (a
worker stops after 40 failures), every other key is reported wherever it shows up.
"""
from __future__ import annotations

import itertools

from vf.core import Group
from vf.bounded import oracles as O

# ----------------------------------------------------------------------------- fixed vocabulary
CARD = {"a1": 2, "bb": 3, "c": 2, "zz": 2, "qq": 2, "fresh": 2, "d1": 2, "e": 3, "f": 2, "g": 2}
STATES = {"a1": ["a1_no", "a1_yes"], "bb": ["lo", "mid", "hi"], "c": [1, 0], "zz": ["z0", "z1"], "qq": [0, 1], "fresh": ["f0", "f1"],
          "d1": ["off", "on"], "e": [2, 0, 1], "f": ["f0", "f1"], "g": [0, 1]}
N3 = ["a1", "bb", "c"]

CLSNAME = {"BN": "BayesianNetwork", "DAG": "DAG", "DBN": "DynamicBayesianNetwork", "MN": "MarkovNetwork",
           "JT": "JunctionTree", "CG": "ClusterGraph", "FG": "FactorGraph"}

# keys of confirmed defects (unchanged tree) -> minimal reproducing history; reported only by group `repro`
DEDICATED = {
    "BayesianNetwork.copy:latents-aliased": {"cls": "BN", "ops": [["copy", True], ["add_node", "zz", True]]},
    "BayesianNetwork.do:latents-aliased": {"cls": "BN", "ops": [["add_node", "a1", False], ["do", ["a1"], False, True], ["add_node", "zz", True]]},
    "BayesianNetwork.get_random_cpds:latents-aliased": {"cls": "BN", "ops": [["get_random_cpds", False, True], ["add_node", "zz", True]]},
    "BayesianNetwork.remove_node:raised-but-mutated:ValueError": {"cls": "BN", "ops": [
        ["add_edge", "a1", "bb"], ["add_cpds", "bb", "ok", 1], ["add_node", "c", False], ["add_cpds", "c", "ok", 2],
        ["add_edge", "a1", "c"], ["remove_node", "a1"]]},
    "BayesianNetwork.do:raised-but-mutated:AttributeError": {"cls": "BN", "ops": [
        ["add_edge", "a1", "bb"], ["add_cpds", "a1", "ok", 1], ["do", ["bb"], True, False]]},
    "DynamicBayesianNetwork.add_cpds:duplicate-cpd": {"cls": "DBN", "ops": [["add_node", "d1"], ["add_cpds", ["d1", 0], "ok", 1], ["add_cpds", ["d1", 0], "ok", 2]]},
    "DynamicBayesianNetwork.remove_node:dangling-cpd": {"cls": "DBN", "ops": [["add_node", "d1"], ["add_cpds", ["d1", 0], "ok", 1], ["remove_node", ["d1", 0]]]},
    "DynamicBayesianNetwork.copy:raised:ValueError": {"cls": "DBN", "ops": [["add_edge", ["d1", 0], ["e", 1]], ["copy", True]]},
    "BayesianNetwork.remove_node:dangling-cpd-of-non-child": {"cls": "BN", "ops": [
        ["add_edges_from", [["a1", "bb"], ["bb", "c"]]], ["add_cpds", "c", "extra", 4], ["remove_node", "a1"]]},
    "BayesianNetwork.remove_nodes_from:dangling-cpd-of-non-child": {"cls": "BN", "ops": [
        ["add_edges_from", [["a1", "bb"], ["bb", "c"]]], ["add_cpds", "c", "extra", 4], ["remove_nodes_from", ["a1", "bb"]]]},
    "DynamicBayesianNetwork.remove_node:slice-structure-broken": {"cls": "DBN", "ops": [["add_edge", ["d1", 0], ["d1", 1]], ["remove_node", ["d1", 0]]]},
    "DynamicBayesianNetwork.add_edge:cycle-accepted:after-remove_node": {"cls": "DBN", "ops": [
        ["add_edge", ["d1", 0], ["e", 0]], ["remove_node", ["d1", 0]], ["add_edge", ["e", 0], ["d1", 0]]]},
    "DynamicBayesianNetwork.copy:content-nodes:after-remove_node": {"cls": "DBN", "ops": [["add_edge", ["d1", 0], ["d1", 1]], ["remove_node", ["d1", 0]], ["copy", True]]},
    "JunctionTree.add_edge:self-loop-accepted": {"cls": "JT", "ops": [["add_edge", ["a1", "bb"], ["a1", "bb"]]]},
}


def _cn(n):
    """canonical (hashable, comparable) form of a node name."""
    if hasattr(n, "to_tuple"):
        return n.to_tuple()
    if isinstance(n, list):
        return tuple(_cn(x) for x in n)
    return n


def _key(x):
    return repr(x)


# ----------------------------------------------------------------------------- snapshots (deep, by named assignment)
def factor_entry(phi):
    """canonical deep value of a DiscreteFactor/TabularCPD: scope order, cardinalities, state names and every
    table entry addressed by state *names*."""
    import numpy as np

    variables = [_cn(v) for v in phi.variables]
    card = [int(c) for c in phi.cardinality]
    sn = {_cn(v): list(phi.state_names[v]) for v in phi.variables}
    vals = np.asarray(phi.values, dtype=float)
    order = sorted(range(len(variables)), key=lambda i: _key(variables[i]))
    table = {}
    if vals.shape == tuple(card):
        for idx in itertools.product(*[range(c) for c in card]):
            table[tuple((variables[i], _nm(sn[variables[i]], idx[i])) for i in order)] = float(vals[idx])
    else:
        table = {"shape": tuple(vals.shape), "flat": tuple(float(x) for x in vals.flatten())}
    return {"var": _cn(getattr(phi, "variable", None)) if hasattr(phi, "variable") else None, "variables": variables,
            "card": card, "states": sn, "table": table}


def _nm(lst, i):
    return lst[i] if i < len(lst) else ("#", i)


def entry_canon(e):
    return (_key(e["var"]), tuple(sorted(map(_key, e["variables"]))), tuple(e["card"][i] for i in sorted(range(len(e["card"])), key=lambda i: _key(e["variables"][i]))),
            tuple(sorted((_key(k), tuple(map(_key, v))) for k, v in e["states"].items())),
            tuple(sorted((_key(k), v) for k, v in e["table"].items())))


class Snap:
    FIELDS = ("nodes", "edges", "latents", "cpds")

    def __init__(self, m, directed):
        self.nodes = frozenset(_cn(n) for n in m.nodes())
        if directed:
            self.edges = frozenset((_cn(u), _cn(v)) for u, v in m.edges())
        else:
            self.edges = frozenset(frozenset((_cn(u), _cn(v))) for u, v in m.edges())
        lat = getattr(m, "latents", None)
        self.latents = frozenset(_cn(x) for x in lat) if lat is not None else frozenset()
        fl = getattr(m, "cpds", None)
        if fl is None:
            fl = getattr(m, "factors", [])
        self.entries = [factor_entry(f) for f in fl]
        self.cpds = tuple(sorted(entry_canon(e) for e in self.entries))

    def diff(self, other):
        return [f for f in self.FIELDS if getattr(self, f) != getattr(other, f)]

    def show(self):
        return f"nodes={sorted(self.nodes, key=_key)} edges={sorted(map(lambda e: tuple(e), self.edges), key=_key)} latents={sorted(self.latents, key=_key)} " \
               f"cpds={[(e['variables'], [round(x, 4) for x in list(e['table'].values())[:6]]) for e in self.entries]}"


# ----------------------------------------------------------------------------- spec-side predicates
def acyclic(nodes, edges):
    return O.is_acyclic(list(nodes), [e for e in edges])


def is_forest(nodes, uedges):
    parent = {n: n for n in nodes}

    def find(x):
        while parent[x] != x:
            parent[x] = parent[parent[x]]
            x = parent[x]
        return x

    for e in uedges:
        e = tuple(e)
        if len(e) == 1:
            return False
        a, b = find(e[0]), find(e[1])
        if a == b:
            return False
        parent[a] = b
    return True


def cpd_ok(entry, parents, tol=1e-8):
    """entry is a valid conditional distribution over exactly [var] + parents (as sets)."""
    if entry["var"] is None or not entry["variables"] or entry["variables"][0] != entry["var"]:
        return False
    if len(set(entry["variables"])) != len(entry["variables"]):
        return False
    if set(entry["variables"][1:]) != set(parents):
        return False
    if "shape" in entry["table"]:
        return False
    sums = {}
    for k, v in entry["table"].items():
        if not (v >= -1e-12):
            return False
        cfg = tuple(x for x in k if x[0] != entry["var"])
        sums[cfg] = sums.get(cfg, 0.0) + v
    return all(abs(s - 1.0) <= tol for s in sums.values())


def consistent_vars(snap):
    """variables whose (single) CPD is a valid conditional distribution over [var]+graph parents."""
    out = set()
    seen = {}
    for e in snap.entries:
        seen[e["var"]] = seen.get(e["var"], 0) + 1
    for e in snap.entries:
        if seen[e["var"]] == 1 and e["var"] in snap.nodes:
            ps = {u for u, v in snap.edges if v == e["var"]}
            if cpd_ok(e, ps):
                out.add(e["var"])
    return out


def spec_model_ok(snap):
    """spec-side version of 'complete and consistent': one valid CPD per node over its parents, parent
    cardinalities and state names agree between child and parent CPDs."""
    if not snap.nodes or consistent_vars(snap) != set(snap.nodes):
        return False
    by = {e["var"]: e for e in snap.entries}
    for e in snap.entries:
        for i, p in enumerate(e["variables"][1:], start=1):
            pe = by[p]
            if pe["card"][0] != e["card"][i] or pe["states"][p] != e["states"][p]:
                return False
        if any(len(e["states"][v]) != c for v, c in zip(e["variables"], e["card"])):
            return False
    return True


# ----------------------------------------------------------------------------- input construction
def mk_table(var, parents, k, card=CARD):
    rng = O.mk_rng(k, "c15cpd", _key(var), *map(_key, parents))
    cv = card[var if not isinstance(var, tuple) else var[0]]
    ncol = 1
    for p in parents:
        ncol *= card[p if not isinstance(p, tuple) else p[0]]
    cols = [O.random_column(rng, cv, zeros=True) for _ in range(ncol)]
    return [[float(cols[j][i]) for j in range(ncol)] for i in range(cv)]


def mk_cpd(var, parents, k):
    from pgmpy.factors.discrete import TabularCPD

    base = lambda v: v[0] if isinstance(v, tuple) else v
    sn = {v: list(STATES[base(v)]) for v in [var] + list(parents)}
    return TabularCPD(var, CARD[base(var)], mk_table(var, parents, k), evidence=list(parents) or None,
                      evidence_card=[CARD[base(p)] for p in parents] or None, state_names=sn)


def mk_factor(scope, k):
    from pgmpy.factors.discrete import DiscreteFactor

    rng = O.mk_rng(k, "c15phi", *map(_key, scope))
    card = [CARD.get(v, 2) for v in scope]
    n = 1
    for c in card:
        n *= c
    return DiscreteFactor(list(scope), card, [float(rng.randint(0, 9)) / 2 for _ in range(n)],
                          state_names={v: list(STATES.get(v, list(range(CARD.get(v, 2))))) for v in scope})


def _call(fn, *a, **kw):
    """run one real pgmpy call; (True, value) or (False, exception)."""
    try:
        return True, fn(*a, **kw)
    except Exception as e:  # noqa - any exception is a rejection of the operation
        return False, e


# ----------------------------------------------------------------------------- the runner
class Runner:
    def __init__(self, cls, seedtag=0):
        self.cls = cls
        self.name = CLSNAME[cls]
        self.directed = cls in ("BN", "DAG", "DBN")
        self.fails = []
        self.frozen = []  # (origin label, model, Snap)
        self.history = []
        self.removed_any = False
        self.slice_broken = False  # DBN: an earlier (inherited) remove_node left the two-slice representation inconsistent
        self.cur = self.new()

    # ---- construction
    def new(self):
        from pgmpy.base import DAG
        from pgmpy.models import BayesianNetwork, DynamicBayesianNetwork, JunctionTree, MarkovNetwork

        return {"BN": BayesianNetwork, "DAG": DAG, "DBN": DynamicBayesianNetwork, "MN": MarkovNetwork, "JT": JunctionTree}[self.cls]()

    def snap(self, m=None):
        return Snap(self.cur if m is None else m, self.directed)

    def fail(self, key, what):
        if self.cls == "DBN" and self.slice_broken and ":raised-but-mutated" not in key and ".remove_node:" not in key:
            # nx's inherited remove_node breaks the two-slice representation every DBN method relies on; consequences are keyed apart
            key += ":after-remove_node"
        self.fails.append({"key": key, "what": f"after history {self.history}: {what}"})

    # ---- invariants (inductive reading: an operation is blamed only for what it breaks)
    def inv_kinds(self, s):
        """{kind id: (key suffix, text)} of invariant violations present in snapshot s."""
        out = {}
        if self.cls in ("BN", "DBN") and not acyclic(s.nodes, s.edges):
            out["cycle"] = ("cycle-accepted", f"directed cycle in {sorted(s.edges, key=_key)}")
        # plain DAG: the statement claims acyclicity for BN/DBN only (DAG checks at construction, group init_ebunch)
        if self.cls == "JT" and not is_forest(s.nodes, s.edges):
            loops = [tuple(e) for e in s.edges if len(e) == 1]
            out["forest"] = ("self-loop-accepted" if loops else "cycle-accepted", f"not a forest: {sorted(map(tuple, s.edges), key=_key)}")
        if self.cls == "MN" and any(len(e) == 1 for e in s.edges):
            out["loop"] = ("self-loop-accepted", "self loop present")
        if self.cls in ("BN", "DBN") and not s.latents <= s.nodes:
            out["latents"] = ("latents-not-subset-of-nodes", f"latents {sorted(s.latents, key=_key)} nodes {sorted(s.nodes, key=_key)}")
        seen = set()
        for e in s.entries:
            if self.cls == "JT":
                if not any(set(e["variables"]) == set(c) for c in s.nodes):
                    out["scope:" + _key(sorted(e["variables"], key=_key))] = ("factor-scope-not-a-clique", f"factor on {e['variables']} cliques {sorted(s.nodes, key=_key)}")
                continue
            if not set(e["variables"]) <= s.nodes:
                out["scope:" + _key(e["variables"])] = ("cpd-scope-outside-nodes", f"CPD/factor scope {e['variables']} not inside nodes {sorted(s.nodes, key=_key)}")
            if self.cls in ("BN", "DBN"):
                if e["var"] in seen:
                    out["dup:" + _key(e["var"])] = ("duplicate-cpd", f"more than one CPD for {e['var']}")
                seen.add(e["var"])
        if self.cls == "DBN":
            bad = [x for x in s.nodes if not (isinstance(x, tuple) and len(x) == 2 and x[1] in (0, 1))]
            if bad:
                out["slice"] = ("slice-normalisation", f"nodes outside slices 0/1: {bad}")
            back = [e for e in s.edges if isinstance(e[0], tuple) and isinstance(e[1], tuple) and e[0][1] > e[1][1]]
            if back:
                out["backward"] = ("backward-edge", f"edges from slice 1 to slice 0: {back}")
            if not bad:
                # two-slice representation every DBN method relies on: slice-0 twin of every node, intra-slice edges in both slices
                miss = [x for x in s.nodes if (x[0], 0) not in s.nodes]
                unm = [(u, v) for (u, v) in s.edges if u[1] == v[1] and ((u[0], 1 - u[1]), (v[0], 1 - v[1])) not in s.edges]
                touched = {x for e in s.edges for x in e}
                iso1 = [x for x in s.nodes if x[1] == 1 and x not in touched]  # slice-1 nodes only ever come with an edge
                if miss or unm or iso1:
                    out["twoslice"] = ("slice-structure-broken", f"nodes without slice-0 twin {miss}; intra-slice edges without twin {unm}; edge-less slice-1 nodes {iso1}")
        return out

    def inv(self, pre, post, op, who="model"):
        a, b = self.inv_kinds(pre), self.inv_kinds(post)
        for kind, (suffix, text) in b.items():
            if kind not in a:
                if suffix == "cpd-scope-outside-nodes" and op[0].startswith("remove_node"):
                    # BN: was the CPD's variable a graph child of a removed node (handled by remove_node) or not (finding)?
                    gone = pre.nodes - post.nodes
                    ent = [e for e in post.entries if "scope:" + _key(e["variables"]) == kind]
                    child = all((g, e["var"]) in pre.edges for e in ent for g in set(e["variables"]) - post.nodes)
                    suffix = "dangling-cpd" if (child or self.cls != "BN") else "dangling-cpd-of-non-child"
                self.fail(f"{self.name}.{op[0]}:{suffix}", f"{who}: {text}")

    def check_frozen(self, op):
        for i, (origin, m, s0) in enumerate(self.frozen):
            s1 = self.snap(m)
            d = s0.diff(s1)
            if d:
                for f in d:
                    self.fail(f"{self.name}.{origin}:{f}-aliased", f"op {op} on the other side of {origin}() changed this side's {f}: "
                              f"before {s0.show()} after {s1.show()}")
                self.frozen[i] = (origin, m, s1)

    def split(self, origin, other, other_expected, switch, op, latents_must_match=True):
        """`other` was produced from self.cur by copy/do/get_random_cpds; keep both, continue on one."""
        so = self.snap(other)
        if type(other) is not type(self.cur):
            self.fail(f"{self.name}.{origin}:type", f"{origin} returned {type(other).__name__}")
        if other_expected is not None:
            for f in other_expected.diff(so):
                if f == "latents" and not so.latents and other_expected.latents:
                    # DAG.copy()/MarkovNetwork.copy() (networkx copy through self.__class__()) return a model without the
                    # latent flags.  C15 only promises that a copy shares no mutable state with its original, not that it
                    # carries the latent set; this used to be reported (':latents-dropped') and was a false alarm of the check.
                    pass
                else:
                    self.fail(f"{self.name}.{origin}:content-{f}", f"{origin}() result differs in {f}: expected {other_expected.show()} got {so.show()}")
        self.inv(self.snap(), so, [origin], who=f"{origin}() result")
        if switch:
            self.frozen.append((origin, self.cur, self.snap()))
            self.cur = other
        else:
            self.frozen.append((origin, other, so))
        self.frozen = self.frozen[-3:]

    # ---- one step
    def step(self, op):
        self.history.append(op)
        pre = self.snap()
        handler = getattr(self, "op_" + op[0])
        single, ok, val = handler(op, pre)
        post = self.snap()
        n = self.name
        if not ok:
            d = pre.diff(post)
            if d and single:
                self.fail(f"{n}.{op[0]}:raised-but-mutated:{type(val).__name__}",
                          f"{op} raised {type(val).__name__}({val}) but changed {d}: before {pre.show()} after {post.show()}")
        if op[0] not in ("copy",) and not (op[0] in ("do", "get_random_cpds") and ok and not op[-2] and op[-1]):
            self.inv(pre, post, op)
        if self.cls in ("BN",) and op[0] != "check_model" and spec_model_ok(post):
            ok2, v2 = _call(self.cur.check_model)
            if not ok2 or v2 is not True:
                self.fail(f"{n}.check_model:rejects-consistent-model", f"after {op}: every node has a valid CPD over its parents but check_model -> {v2!r}")
        self.check_frozen(op)
        if self.cls == "DBN" and "twoslice" in self.inv_kinds(self.snap()):
            self.slice_broken = True

    def run(self, ops, stop=True):
        """the exploration of a history ends at the first state that violates Inv (the induction hypothesis is gone;
        the operation that broke it has been reported)."""
        for op in ops:
            self.step(op)
            if stop and self.inv_kinds(self.snap()):
                break
        return self.fails

    # ---- operations shared by BN / DAG
    def op_add_node(self, op, pre):
        if self.cls == "DBN":
            ok, val = _call(self.cur.add_node, op[1])
            if ok and (op[1], 0) not in self.snap().nodes:
                self.fail(f"{self.name}.add_node:effect", f"{op}: node ({op[1]},0) missing")
            return True, ok, val
        if self.cls == "JT":
            node = tuple(op[1]) if isinstance(op[1], list) else op[1]
            ok, val = _call(self.cur.add_node, node)
            if ok:
                post = self.snap()
                if node not in post.nodes or post.edges != pre.edges or post.nodes - {node} != pre.nodes - {node}:
                    self.fail(f"{self.name}.add_node:effect", f"{op}")
            return True, ok, val
        if self.cls == "MN":
            ok, val = _call(self.cur.add_node, op[1])
        else:
            ok, val = _call(self.cur.add_node, op[1], latent=op[2])
        if ok:
            post = self.snap()
            want_lat = pre.latents | ({op[1]} if (self.cls in ("BN", "DAG") and op[2]) else set())
            if post.nodes != pre.nodes | {op[1]} or post.edges != pre.edges or post.latents != want_lat or post.cpds != pre.cpds:
                self.fail(f"{self.name}.add_node:effect", f"{op}: before {pre.show()} after {post.show()}")
        return True, ok, val

    def op_add_nodes_from(self, op, pre):
        ok, val = _call(self.cur.add_nodes_from, list(op[1]), latent=op[2]) if self.cls in ("BN", "DAG") else _call(self.cur.add_nodes_from, list(op[1]))
        if ok:
            post = self.snap()
            if post.nodes != pre.nodes | set(op[1]) or post.edges != pre.edges:
                self.fail(f"{self.name}.add_nodes_from:effect", f"{op}: before {pre.show()} after {post.show()}")
        return False, ok, val

    def op_add_edge(self, op, pre):
        if self.cls == "DBN":
            return self.dbn_add_edge(op, pre)
        u, v = (_cn(op[1]), _cn(op[2]))
        ok, val = _call(self.cur.add_edge, u, v)
        if ok:
            post = self.snap()
            e = (u, v) if self.directed else frozenset((u, v))
            if post.nodes != pre.nodes | {u, v} or post.edges != pre.edges | {e} or post.latents != pre.latents or post.cpds != pre.cpds:
                self.fail(f"{self.name}.add_edge:effect", f"{op}: before {pre.show()} after {post.show()}")
        return True, ok, val

    def op_add_edges_from(self, op, pre):
        eb = [(_cn(a), _cn(b)) for a, b in op[1]]
        if len(op) > 2:   # weights= branch of DAG.add_edges_from (a separate loop in the source)
            ok, val = _call(self.cur.add_edges_from, eb, weights=list(op[2]))
            if ok and any(self.cur.edges[a, b].get("weight") != w for (a, b), w in zip(eb, op[2])):
                self.fail(f"{self.name}.add_edges_from:weights", f"{op}: edge data {[self.cur.edges[a, b] for a, b in eb]}")
        else:
            ok, val = _call(self.cur.add_edges_from, eb)
        post = self.snap()
        mk = (lambda a, b: (a, b)) if self.directed else (lambda a, b: frozenset((a, b)))
        if ok and self.cls != "DBN" and post.edges != pre.edges | {mk(a, b) for a, b in eb}:
            self.fail(f"{self.name}.add_edges_from:effect", f"{op}: before {pre.show()} after {post.show()}")
        if not ok and self.cls != "DBN":
            # sequence reading: some prefix of the list was applied, nothing else
            if not any(post.edges == pre.edges | {mk(a, b) for a, b in eb[:i]} for i in range(len(eb) + 1)) or post.cpds != pre.cpds or post.latents != pre.latents:
                self.fail(f"{self.name}.add_edges_from:raised-but-not-a-prefix", f"{op}: before {pre.show()} after {post.show()}")
        return False, ok, val

    def op_remove_node(self, op, pre):
        x = _cn(op[1])
        cons = consistent_vars(pre) if self.cls in ("BN", "DBN") else set()
        ok, val = _call(self.cur.remove_node, x)
        if ok:
            self.removed_any = True
            post = self.snap()
            mk_in = (lambda e: x in e)
            if post.nodes != pre.nodes - {x} or post.edges != {e for e in pre.edges if not mk_in(e)}:
                self.fail(f"{self.name}.remove_node:effect", f"{op}: before {pre.show()} after {post.show()}")
            if self.cls == "BN":
                if post.latents != pre.latents - {x}:
                    self.fail(f"{self.name}.remove_node:latents", f"{op}: latents before {sorted(pre.latents)} after {sorted(post.latents)}")
                self.cpd_after(op, pre, post, cons - {x}, "remove_node")
                untouched = [e for e in pre.entries if e["var"] != x and x not in e["variables"]]
                for e in untouched:
                    if entry_canon(e) not in post.cpds:
                        self.fail(f"{self.name}.remove_node:unrelated-cpd-changed", f"{op}: CPD of {e['var']} (scope {e['variables']}) changed")
        return True, ok, val

    def op_remove_nodes_from(self, op, pre):
        xs = [_cn(x) for x in op[1]]
        cons = consistent_vars(pre) if self.cls == "BN" else set()
        ok, val = _call(self.cur.remove_nodes_from, xs)
        if ok:
            self.removed_any = True
            post = self.snap()
            if post.nodes != pre.nodes - set(xs):
                self.fail(f"{self.name}.remove_nodes_from:effect", f"{op}: before {pre.show()} after {post.show()}")
            if self.cls == "BN":
                self.cpd_after(op, pre, post, cons - set(xs), "remove_nodes_from")
        return False, ok, val

    def cpd_after(self, op, pre, post, must, opname, who="model"):
        now = consistent_vars(post)
        for v in sorted(must, key=_key):
            if v not in now:
                e = [x for x in post.entries if x["var"] == v]
                ps = sorted((a for a, b in post.edges if b == v), key=_key)
                self.fail(f"{self.name}.{opname}:cpd-not-valid-over-remaining-parents",
                          f"{op}: {who}: CPD of {v} was a valid conditional distribution over its parents before; now scope "
                          f"{[x['variables'] for x in e]} table {[x['table'] for x in e]} vs remaining parents {ps}")

    def op_do(self, op, pre):
        nodes = [_cn(x) for x in op[1]] if isinstance(op[1], list) else op[1]
        nl = nodes if isinstance(nodes, list) else [nodes]
        inplace, switch = op[2], op[3]
        cons = consistent_vars(pre) if self.cls == "BN" else set()
        ok, val = _call(self.cur.do, nodes, inplace=inplace)
        if not ok:
            return True, ok, val
        want_edges = {e for e in pre.edges if e[1] not in nl}
        if inplace:
            post = self.snap()
            if val is not self.cur:
                self.fail(f"{self.name}.do:inplace-returns-other-object", f"{op}")
            res_s = post
        else:
            post = self.snap()
            if pre.diff(post):
                self.fail(f"{self.name}.do:not-inplace-but-mutated", f"{op}: changed {pre.diff(post)} of the original: before {pre.show()} after {post.show()}")
            res_s = self.snap(val)
        if res_s.nodes != pre.nodes or res_s.edges != want_edges:
            self.fail(f"{self.name}.do:effect", f"{op}: result edges {sorted(res_s.edges)} expected {sorted(want_edges)}")
        if res_s.latents != pre.latents:
            if not res_s.latents:
                pass  # DAG.do goes through DAG.copy(): latent flags not carried over (not promised by C15/C13, see above)
            else:
                self.fail(f"{self.name}.do:latents", f"{op}: result latents {sorted(res_s.latents)} original {sorted(pre.latents)}")
        if self.cls == "BN":
            self.cpd_after(op, pre, res_s, cons, "do", who="result")
            for e in pre.entries:
                if e["var"] not in nl and entry_canon(e) not in res_s.cpds:
                    self.fail(f"{self.name}.do:unrelated-cpd-changed", f"{op}: CPD of {e['var']} changed")
        if not inplace:
            self.split("do", val, None, switch, op)
        return True, ok, val

    def op_copy(self, op, pre):
        ok, val = _call(self.cur.copy)
        if not ok:
            self.fail(f"{self.name}.copy:raised:{type(val).__name__}", f"copy() of {pre.show()} raised {val!r}")
            return True, ok, val
        if val is self.cur:
            self.fail(f"{self.name}.copy:returns-self", "copy() returned the object itself")
            return True, ok, val
        self.split("copy", val, pre, op[1], op)
        return True, ok, val

    # ---- BN only
    def parents(self, v):
        return [_cn(p) for p in self.cur.predecessors(v)] if v in self.cur.nodes() else []

    def op_add_cpds(self, op, pre):
        from pgmpy.factors.discrete import DiscreteFactor

        v, kind, k = _cn(op[1]), op[2], op[3]
        rng = O.mk_rng(k, "c15par", _key(v))
        ps = self.parents(v)
        rng.shuffle(ps)
        base = v[0] if isinstance(v, tuple) else v
        other = ("qq", 0) if isinstance(v, tuple) else "qq"
        if kind == "ok":
            cpds = [mk_cpd(v, ps, k)]
        elif kind == "noparents":
            cpds = [mk_cpd(v, [], k)]
        elif kind == "extra":
            cand = [x for x in sorted(pre.nodes, key=_key) if x != v and x not in ps]
            cpds = [mk_cpd(v, ps + cand[:1], k)]
        elif kind == "unknownvar":
            cpds = [mk_cpd(other, [], k)]
        elif kind == "unknownev":
            cpds = [mk_cpd(v, ps + [other], k)]
        elif kind == "notcpd":
            cpds = [DiscreteFactor([v], [CARD[base]], [1.0] * CARD[base])]
        elif kind == "two":  # a valid one followed by one for an unknown variable (sequence reading)
            cpds = [mk_cpd(v, ps, k), mk_cpd(other, [], k)]
        else:
            raise ValueError(kind)
        want = [factor_entry(c) for c in cpds]
        ok, val = _call(self.cur.add_cpds, *cpds)
        if ok:
            post = self.snap()
            if post.nodes != pre.nodes or post.edges != pre.edges or post.latents != pre.latents:
                self.fail(f"{self.name}.add_cpds:effect", f"{op}: graph changed")
            for w in want:
                if entry_canon(w) not in post.cpds:
                    self.fail(f"{self.name}.add_cpds:effect", f"{op}: the CPD added for {w['var']} is not in the model afterwards")
            for e in pre.entries:
                if e["var"] not in [w["var"] for w in want] and entry_canon(e) not in post.cpds:
                    self.fail(f"{self.name}.add_cpds:unrelated-cpd-changed", f"{op}: CPD of {e['var']} changed")
        return len(cpds) == 1, ok, val

    def op_remove_cpds(self, op, pre):
        v = _cn(op[1])
        ok, val = _call(self.cur.remove_cpds, v)
        if ok:
            post = self.snap()
            gone = [e for e in pre.entries if e["var"] == v]
            left = sorted(entry_canon(e) for e in pre.entries if e["var"] != v)
            if not gone or post.nodes != pre.nodes or post.edges != pre.edges or post.latents != pre.latents or \
                    (self.cls == "BN" and list(post.cpds) != left) or (self.cls == "DBN" and len(post.cpds) != len(pre.cpds) - 1):
                self.fail(f"{self.name}.remove_cpds:effect", f"{op}: before {pre.show()} after {post.show()}")
        return True, ok, val

    def op_get_random_cpds(self, op, pre):
        import numpy as np

        inplace, switch = op[1], op[2]
        np.random.seed(len(self.history) * 7919 % 100003)
        ns = {v: CARD.get(v, 2) for v in pre.nodes}
        ok, val = _call(self.cur.get_random_cpds, n_states=ns, inplace=inplace)
        if not ok:
            return True, ok, val
        post = self.snap()
        if inplace:
            res, res_s = self.cur, post
        else:
            if pre.diff(post):
                self.fail(f"{self.name}.get_random_cpds:not-inplace-but-mutated", f"{op}: changed {pre.diff(post)}")
            res, res_s = val, self.snap(val)
        if res_s.nodes != pre.nodes or res_s.edges != pre.edges or res_s.latents != pre.latents:
            self.fail(f"{self.name}.get_random_cpds:effect", f"{op}: graph/latents changed: before {pre.show()} after {res_s.show()}")
        if consistent_vars(res_s) != set(pre.nodes):
            self.fail(f"{self.name}.get_random_cpds:cpd-not-valid-over-parents", f"{op}: {res_s.show()}")
        if not inplace:
            self.split("get_random_cpds", val, None, switch, op)
        return True, ok, val

    def op_check_model(self, op, pre):
        ok, val = _call(self.cur.check_model)
        post = self.snap()
        if pre.diff(post):
            self.fail(f"{self.name}.check_model:mutates", f"changed {pre.diff(post)}")
        if self.cls == "BN":
            want = spec_model_ok(pre)
            if want and not (ok and val is True):
                self.fail(f"{self.name}.check_model:rejects-consistent-model", f"{pre.show()} -> {val!r}")
            if ok and not want and pre.nodes and (set(e["var"] for e in pre.entries) != set(pre.nodes) or
                                                  any(set(e["variables"][1:]) != {u for u, w in pre.edges if w == e["var"]} for e in pre.entries)):
                self.fail(f"{self.name}.check_model:accepts-inconsistent-model", f"{pre.show()} accepted")
        return False, True, None

    def op_mutate_cpd(self, op, pre):
        """edit a CPD object of the current model directly (allowed to the user: cpd.values is public)."""
        fl = getattr(self.cur, "cpds", None)
        if fl is None:
            fl = getattr(self.cur, "factors", [])
        if not fl:
            return False, True, None
        c = fl[op[1] % len(fl)]
        if op[2] == "values":
            c.values[...] = c.values * 0.5 + 0.125
        elif op[2] == "normalize":
            ok, val = _call(c.normalize, inplace=True)
            return False, True, None
        return False, True, None

    # ---- DBN
    def dbn_add_edge(self, op, pre):
        a, b = op[1], op[2]
        ta = tuple(a) if isinstance(a, list) else a
        tb = tuple(b) if isinstance(b, list) else b
        ok, val = _call(self.cur.add_edge, ta, tb)
        if ok:
            post = self.snap()
            good = isinstance(ta, tuple) and isinstance(tb, tuple) and len(ta) == 2 and len(tb) == 2 and \
                isinstance(ta[1], int) and isinstance(tb[1], int) and not isinstance(ta[1], bool) and not isinstance(tb[1], bool)
            if not good or not (tb[1] - ta[1] in (0, 1)):
                self.fail(f"{self.name}.add_edge:malformed-accepted", f"{op} accepted; edges now {sorted(post.edges)}")
                return True, ok, val
            if tb[1] == ta[1]:
                new = {((ta[0], 0), (tb[0], 0)), ((ta[0], 1), (tb[0], 1))}
                nn = {(ta[0], 0), (tb[0], 0), (ta[0], 1), (tb[0], 1)}
            else:
                new = {((ta[0], 0), (tb[0], 1))}
                nn = {(ta[0], 0), (tb[0], 1), (tb[0], 0)}
            if post.edges != pre.edges | new or not (pre.nodes | nn) <= post.nodes or not post.nodes <= (pre.nodes | nn | {(ta[0], 1)}) or post.cpds != pre.cpds:
                self.fail(f"{self.name}.add_edge:effect", f"{op}: expected new edges {sorted(new)}; before {pre.show()} after {post.show()}")
        return True, ok, val

    # ---- MN / JT factors
    def op_add_factors(self, op, pre):
        scope, k = [_cn(x) for x in op[1]], op[2]
        phi = mk_factor(scope, k)
        want = entry_canon(factor_entry(phi))
        ok, val = _call(self.cur.add_factors, phi)
        if ok:
            post = self.snap()
            if post.nodes != pre.nodes or post.edges != pre.edges or sorted(post.cpds) != sorted(list(pre.cpds) + [want]):
                self.fail(f"{self.name}.add_factors:effect", f"{op}: before {pre.show()} after {post.show()}")
        return True, ok, val

    def op_remove_factors(self, op, pre):
        fl = self.cur.factors
        if not fl:
            phi = mk_factor(["a1"], 0)
        else:
            phi = fl[op[1] % len(fl)]
        ok, val = _call(self.cur.remove_factors, phi)
        if ok:
            post = self.snap()
            if post.nodes != pre.nodes or post.edges != pre.edges or len(post.cpds) != len(pre.cpds) - 1:
                self.fail(f"{self.name}.remove_factors:effect", f"{op}: before {pre.show()} after {post.show()}")
        return True, ok, val


# ----------------------------------------------------------------------------- alphabets
def alphabet(cls, tier):
    th = tier != "quick"
    A = []
    if cls in ("BN", "DAG"):
        nodes = N3 + (["zz"] if th else [])
        A += [["add_node", v, False] for v in N3[:2]] + [["add_node", "c", True], ["add_node", "zz", True]]
        A += [["add_nodes_from", ["a1", "bb", "c"], False]]
        A += [["add_edge", u, v] for u in nodes for v in nodes]
        A += [["add_edges_from", [["a1", "bb"], ["bb", "c"], ["c", "a1"]]]]
        A += [["add_edges_from", [["a1", "bb"], ["bb", "c"], ["c", "a1"]], [0.5, 2, 0.25]], ["add_edges_from", [["c", "bb"], ["bb", "bb"]], [1, 2]],
              ["add_edges_from", [["c", "a1"]], [1, 2]]]
        A += [["remove_node", v] for v in N3] + [["remove_node", "qq"]]
        A += [["do", [v], ip, sw] for v in (N3 if th else ["bb", "c"]) for ip, sw in ((True, False), (False, True), (False, False))]
        A += [["do", ["bb", "c"], True, False], ["do", "qq", True, False], ["do", ["bb", "qq"], False, True]]
        A += [["copy", True], ["copy", False]]
        if cls == "BN":
            A += [["remove_nodes_from", ["a1", "bb"]]]
            A += [["add_cpds", v, "ok", 1] for v in N3] + [["add_cpds", "bb", "ok", 2], ["add_cpds", "bb", "noparents", 3], ["add_cpds", "c", "extra", 4],
                                                            ["add_cpds", "c", "unknownvar", 5], ["add_cpds", "c", "unknownev", 6], ["add_cpds", "a1", "notcpd", 7],
                                                            ["add_cpds", "a1", "two", 8]]
            A += [["remove_cpds", v] for v in (N3 if th else ["a1", "bb"])] + [["remove_cpds", "qq"]]
            A += [["get_random_cpds", True, False], ["get_random_cpds", False, True]]
            A += [["check_model"], ["mutate_cpd", 0, "values"], ["mutate_cpd", 1, "normalize"]]
    elif cls == "DBN":
        names = ["d1", "e"]
        sl = (0, 1, 2)
        A += [["add_node", n] for n in names]
        A += [["add_edge", [n, t], [n2, t2]] for n in names for t in sl for n2 in names for t2 in sl]
        A += [["add_edge", ["e", 0], ["f", 0]], ["add_edge", ["f", 0], ["d1", 0]], ["add_edge", ["f", 1], ["d1", 1]], ["add_edge", ["f", 0], ["f", 1]]]
        A += [["add_edge", "d1", "e"], ["add_edge", ["d1", "x"], ["e", 0]], ["add_edge", ["d1", 0, 0], ["e", 0]], ["add_edge", ["d1", -1], ["e", 0]]]
        A += [["add_edges_from", [[["d1", 0], ["e", 0]], [["e", 0], ["f", 0]], [["f", 0], ["d1", 0]]]]]
        A += [["add_cpds", [n, t], "ok", 1] for n in names for t in (0, 1)] + [["add_cpds", ["e", 0], "ok", 2], ["add_cpds", ["e", 0], "unknownvar", 3],
                                                                               ["add_cpds", ["e", 1], "unknownev", 4], ["add_cpds", ["d1", 0], "noparents", 5]]
        A += [["remove_cpds", ["d1", 0]], ["remove_cpds", ["e", 1]]]
        A += [["remove_node", ["d1", 0]], ["remove_node", ["e", 1]], ["remove_node", ["qq", 0]]]
        A += [["copy", True], ["copy", False], ["check_model"], ["mutate_cpd", 0, "values"]]
    elif cls == "MN":
        nodes = N3
        A += [["add_node", v] for v in nodes] + [["add_nodes_from", ["a1", "bb"], False]]
        A += [["add_edge", u, v] for u in nodes for v in nodes]
        A += [["add_edges_from", [["a1", "bb"], ["c", "c"]]]]
        A += [["add_factors", s, i] for i, s in enumerate((["a1"], ["a1", "bb"], ["bb", "c"], ["c", "qq"], ["qq"]))]
        A += [["remove_factors", 0], ["remove_factors", 1]]
        A += [["copy", True], ["copy", False], ["mutate_cpd", 0, "values"], ["mutate_cpd", 1, "normalize"]]
    elif cls == "JT":
        cl = [["a1", "bb"], ["bb", "c"], ["a1", "c"], ["c", "zz"], ["zz"]]
        A += [["add_node", c] for c in cl[:4]] + [["add_node", "a1"]]
        A += [["add_edge", u, v] for u in cl for v in cl]
        A += [["add_edges_from", [[cl[0], cl[1]], [cl[1], cl[2]], [cl[2], cl[0]]]]]
        A += [["add_factors", s, i] for i, s in enumerate((["a1", "bb"], ["c", "bb"], ["a1"], ["qq"]))]
        A += [["remove_factors", 0]]
        A += [["copy", True], ["copy", False], ["mutate_cpd", 0, "values"]]
    return A


# states reached by longer (selected) histories; all short continuations are enumerated from them
SEEDS = {
    "BN": [
        [["add_edges_from", [["a1", "bb"], ["bb", "c"]]], ["add_cpds", "a1", "ok", 11], ["add_cpds", "bb", "ok", 12], ["add_cpds", "c", "ok", 13]],
        [["add_node", "bb", True], ["add_edges_from", [["a1", "c"], ["bb", "c"], ["a1", "bb"]]], ["add_cpds", "a1", "ok", 14], ["add_cpds", "bb", "ok", 15], ["add_cpds", "c", "ok", 16]],
        [["add_edges_from", [["bb", "a1"], ["bb", "c"], ["zz", "c"]]], ["add_node", "zz", True], ["get_random_cpds", True, False]],
        [["add_edges_from", [["a1", "bb"], ["a1", "c"]]], ["add_cpds", "bb", "ok", 17], ["add_cpds", "c", "noparents", 18]],
    ],
    "DAG": [[["add_node", "bb", True], ["add_edges_from", [["a1", "bb"], ["bb", "c"]]]]],
    "DBN": [
        [["add_edges_from", [[["d1", 0], ["e", 0]], [["d1", 0], ["d1", 1]], [["e", 0], ["e", 1]]]], ["add_cpds", ["d1", 0], "ok", 21], ["add_cpds", ["e", 0], "ok", 22],
         ["add_cpds", ["d1", 1], "ok", 23], ["add_cpds", ["e", 1], "ok", 24]],
    ],
    "MN": [[["add_edges_from", [["a1", "bb"], ["bb", "c"]]], ["add_factors", ["a1", "bb"], 31], ["add_factors", ["bb", "c"], 32]]],
    "JT": [[["add_edges_from", [[["a1", "bb"], ["bb", "c"]], [["bb", "c"], ["c", "zz"]]]], ["add_factors", ["a1", "bb"], 41], ["add_factors", ["bb", "c"], 42], ["add_factors", ["c", "zz"], 43]]],
}


def _seqs(A, n):
    for r in range(1, n + 1):
        for s in itertools.product(A, repeat=r):
            yield list(s)


def gen_histories(cls):
    def gen(tier, seed):
        A = alphabet(cls, tier)
        th = tier != "quick"
        depth0 = {"BN": 3 if th else 2, "DAG": 3, "DBN": 3 if th else 2, "MN": 3, "JT": 3}[cls]
        depth1 = {"BN": 2, "DAG": 2, "DBN": 2, "MN": 2, "JT": 2}[cls]
        for s in _seqs(A, depth0):
            yield {"cls": cls, "ops": s}
        if not th and depth0 == 2:
            # quick: a seed-rotated third of all length-3 histories
            for i, s in enumerate(itertools.product(A, repeat=3)):
                if (i + seed) % (3 if cls == "BN" else 4) == 0:
                    yield {"cls": cls, "ops": list(s)}
        for pre in SEEDS[cls]:
            yield {"cls": cls, "ops": pre}
            for s in _seqs(A, depth1):
                yield {"cls": cls, "ops": pre + s}
        rng = O.mk_rng(seed, "c15", cls)
        Afull = alphabet(cls, "thorough")
        for k in range(40 if not th else 600):
            n = 30
            ops = []
            for i in range(n):
                op = rng.choice(Afull)
                # bias: removals are frequent in the alphabet; keep histories growing
                if op[0].startswith("remove_node") and rng.random() < 0.6:
                    op = rng.choice(Afull)
                if op[0] == "add_cpds":
                    op = op[:3] + [rng.randint(0, 10 ** 6)]
                ops.append(op)
            yield {"cls": cls, "ops": ops}
    return gen


def check_history(case):
    r = Runner(case["cls"])
    fails = r.run(case["ops"])
    for f in fails:
        if f["key"] not in DEDICATED:
            return f
    return None


def gen_repro(tier, seed):
    for key, c in DEDICATED.items():
        yield {"expect": key, **c}


def check_repro(case):
    r = Runner(case["cls"])
    fails = r.run(case["ops"], stop=False)
    for f in fails:
        if f["key"] == case["expect"]:
            return f
    for f in fails:
        if f["key"] not in DEDICATED:
            return f
    return None


# ----------------------------------------------------------------------------- constructors with an edge list
def gen_init(tier, seed):
    names = N3
    pairs = [(u, v) for u in names for v in names]
    for r in range(0, 4):
        for eb in itertools.combinations(pairs, r):
            yield {"ebunch": [list(e) for e in eb]}
    yield {"ebunch": [["a1", "bb"], ["bb", "c"], ["c", "zz"], ["zz", "a1"]]}


def check_init(case):
    from pgmpy.base import DAG
    from pgmpy.models import BayesianNetwork

    eb = [tuple(e) for e in case["ebunch"]]
    nodes = sorted({x for e in eb for x in e})
    cyc = not O.is_acyclic(nodes, eb)
    for cls in (DAG, BayesianNetwork):
        for lat in (set(), set(nodes[:1])):
            ok, val = _call(cls, eb, latents=lat) if lat else _call(cls, eb)
            if ok and cyc:
                return {"key": f"{cls.__name__}.__init__:cycle-accepted", "what": f"{cls.__name__}({eb}) accepted a cyclic edge list"}
            if not ok and not cyc:
                return {"key": f"{cls.__name__}.__init__:acyclic-rejected", "what": f"{cls.__name__}({eb}) raised {val!r}"}
            if ok:
                if set(val.edges()) != set(eb) or set(val.nodes()) != set(nodes) or set(val.latents) != set(lat):
                    return {"key": f"{cls.__name__}.__init__:content", "what": f"{cls.__name__}({eb}, latents={lat}): edges {list(val.edges())} latents {val.latents}"}
                if lat and val.latents is lat:
                    return {"key": f"{cls.__name__}.__init__:latents-aliased", "what": "constructor keeps the caller's latents set"}
    # the default `latents=set()` argument must not be shared between instances
    a, b = BayesianNetwork(), BayesianNetwork()
    a.add_node("zz", latent=True)
    if b.latents:
        return {"key": "BayesianNetwork.__init__:default-latents-shared", "what": "latent added to one fresh model shows in another"}
    return None


# ----------------------------------------------------------------------------- copy separation on complete models
ASPECTS = {
    "BN": ["content", "values", "normalize", "marginalize", "cardinality", "add_node_latent", "add_edge", "add_cpds", "remove_cpds", "do", "remove_node", "random_cpds"],
    "DAG": ["content", "add_node_latent", "add_edge", "do", "remove_node"],
    "DBN": ["content", "values", "normalize", "add_edge", "add_cpds", "remove_cpds"],
    "MN": ["content", "values", "normalize", "add_edge", "add_factors", "remove_factors"],
    "JT": ["content", "values", "normalize", "add_node", "add_edge", "remove_factors"],
    "CG": ["content", "values", "normalize", "add_node", "add_edge", "remove_factors"],
    "FG": ["content", "values", "normalize", "add_node", "remove_factors"],
}


def gen_copy(tier, seed):
    rng = O.mk_rng(seed, "c15copy")
    n_each = 4 if tier == "quick" else 30
    for cls in ("BN", "DBN", "MN", "JT", "CG", "FG", "DAG"):
        for k in range(n_each):
            sd = rng.randint(0, 10 ** 9)
            for asp in ASPECTS[cls]:
                for direction in (0, 1):
                    yield {"cls": cls, "seed": sd, "n": 3 + (k % 2), "direction": direction, "aspect": asp}
    # cluster graph / junction tree with an isolated clique (copy must keep it), with and without a factor
    for cls in ("CG", "JT"):
        for n in (0, 1):
            yield {"cls": cls, "seed": 1, "n": n, "direction": 0, "aspect": "content"}


def _bn_from_seed(seed, n):
    rng = O.mk_rng(seed, "copybn")
    names = ["a1", "bb", "c", "zz"][:n]
    edges = O.random_dag(rng, n, 0.6, names)
    if not edges:
        edges = [[names[0], names[1]]]
    spec = O.random_bn_spec(rng, names, edges, cards={v: CARD[v] for v in names}, style="str")
    lat = [names[rng.randrange(n)]]
    return spec, lat


def _ve_answers(m, nodes):
    from pgmpy.inference import VariableElimination

    ve = VariableElimination(m)
    out = {}
    for v in nodes:
        phi = ve.query([v], show_progress=False)
        out[v] = {s: float(phi.values[i]) for i, s in enumerate(phi.state_names[v])}
    return out


def _factors_of(m):
    fl = getattr(m, "cpds", None)
    return fl if fl is not None else m.factors


def _undirected_models(cls, seed, n):
    from pgmpy.models import ClusterGraph, FactorGraph, JunctionTree, MarkovNetwork

    rng = O.mk_rng(seed, "copyund", cls)
    names = ["a1", "bb", "c", "zz"][:max(n, 2)]
    if cls == "MN":
        m = MarkovNetwork(latents=[names[0]])
        m.add_nodes_from(names)
        es = [(names[i], names[i + 1]) for i in range(len(names) - 1)]
        m.add_edges_from(es)
        m.add_factors(*[mk_factor(list(e), rng.randint(0, 999)) for e in es], mk_factor([names[0]], 5))
        return m
    if cls in ("JT", "CG"):
        m = JunctionTree() if cls == "JT" else ClusterGraph()
        if n <= 1:
            m.add_node(("a1", "bb"))
            if n == 1:
                m.add_factors(mk_factor(["a1", "bb"], 3))
            return m
        cl = [(names[i], names[i + 1]) for i in range(len(names) - 1)]
        m.add_nodes_from(cl)
        m.add_edges_from([(cl[i], cl[i + 1]) for i in range(len(cl) - 1)])
        m.add_factors(*[mk_factor(list(c), rng.randint(0, 999)) for c in cl])
        return m
    if cls == "FG":
        m = FactorGraph()
        m.add_nodes_from(names)
        for i in range(len(names) - 1):
            phi = mk_factor([names[i], names[i + 1]], rng.randint(0, 999))
            m.add_factors(phi)
            m.add_node(phi)
            m.add_edges_from([(names[i], phi), (names[i + 1], phi)])
        return m
    raise ValueError(cls)


class FGSnap:
    """FactorGraph: nodes are variables and factor objects; snapshot factor nodes by value."""

    def __init__(self, m):
        from pgmpy.factors.discrete import DiscreteFactor

        self.var_nodes = frozenset(n for n in m.nodes() if not isinstance(n, DiscreteFactor))
        fn = [n for n in m.nodes() if isinstance(n, DiscreteFactor)]
        self.factor_nodes = tuple(sorted(entry_canon(factor_entry(f)) for f in fn))
        self.edges = tuple(sorted(_key(sorted((_key(entry_canon(factor_entry(x))) if isinstance(x, DiscreteFactor) else _key(x)) for x in e)) for e in m.edges()))
        self.cpds = tuple(sorted(entry_canon(factor_entry(f)) for f in m.factors))
        self.latents = frozenset()

    def diff(self, o):
        return [f for f in ("var_nodes", "factor_nodes", "edges", "cpds") if getattr(self, f) != getattr(o, f)]


def check_copy(case):
    """one model, one copy, ONE kind of edit (case['aspect']) on one side (case['direction']); the other side must keep
    its nodes, edges, latents, CPD/factor values (by named assignment) and - for BayesianNetwork - its query answers."""
    import numpy as np

    cls, seed, n, asp = case["cls"], case["seed"], case["n"], case["aspect"]
    name = CLSNAME[cls]
    directed = cls in ("BN", "DBN", "DAG")
    snapf = (lambda m: FGSnap(m)) if cls == "FG" else (lambda m: Snap(m, directed))
    spec = None
    if cls in ("BN", "DAG"):
        spec, lat = _bn_from_seed(seed, n)
        if cls == "BN":
            m = O.make_bn(spec, latents=lat)
        else:
            from pgmpy.base import DAG

            m = DAG(latents=set(lat))
            m.add_nodes_from(spec["nodes"])
            m.add_edges_from([tuple(e) for e in spec["edges"]])
    elif cls == "DBN":
        r = Runner("DBN")
        r.run(SEEDS["DBN"][0] if seed % 2 else SEEDS["DBN"][0][:1] + [["add_cpds", ["d1", 0], "ok", seed], ["add_cpds", ["e", 0], "ok", seed + 1]])
        m = r.cur
    else:
        m = _undirected_models(cls, seed, n)
    s_m = snapf(m)
    ok, m2 = _call(m.copy)
    if not ok:
        return {"key": f"{name}.copy:raised:{type(m2).__name__}", "what": f"copy() of a valid model ({s_m.show() if cls != 'FG' else ''}) raised {m2!r}"}
    if type(m2) is not type(m) or m2 is m:
        return {"key": f"{name}.copy:type", "what": f"copy() returned {type(m2).__name__}"}
    s_2 = snapf(m2)
    for f in s_m.diff(s_2):
        if f == "latents" and not s_2.latents:
            continue  # latent flags not carried over by networkx-based copies: not promised by C15 (see above)
        return {"key": f"{name}.copy:content-{f}", "what": f"copy differs from its original in {f}: original {s_m.show() if cls != 'FG' else ''} copy {s_2.show() if cls != 'FG' else ''}"}
    if snapf(m).diff(s_m):
        return {"key": f"{name}.copy:mutates-original", "what": "copy() changed the original"}
    exp = None
    if cls == "BN":
        exp = {v: {k[0]: float(p) for k, p in O.posterior(spec, [v]).items()} for v in spec["nodes"]}
        if asp == "content":
            for who, mm in (("original", m), ("copy", m2)):
                got = _ve_answers(mm, spec["nodes"])
                for v in exp:
                    if any(not O.close(got[v][s], exp[v][s], 1e-8) for s in exp[v]):
                        return {"key": f"{name}.copy:query-answer", "what": f"{who}: P({v}) = {got[v]} expected {exp[v]}"}
    if asp == "content":
        return None
    # edited side A, observed side B
    A, B = (m2, m) if case["direction"] == 0 else (m, m2)
    sideA = "copy" if case["direction"] == 0 else "original"
    s_B = snapf(B)

    def e_values():
        for f in _factors_of(A):
            f.values[...] = 0.25

    def e_normalize():
        for f in _factors_of(A):
            f.values[...] = np.arange(f.values.size, dtype=float).reshape(f.values.shape) + 1.0
            f.normalize(inplace=True)

    def e_marg():
        for f in _factors_of(A):
            if len(f.variables) > 1:
                f.marginalize([f.variables[-1]], inplace=True)

    def e_card():
        for f in _factors_of(A):
            f.cardinality[...] = 7

    first_clique = lambda: [c for c in A.nodes() if "a1" in c][0]
    edits = {
        "values": e_values, "normalize": e_normalize, "marginalize": e_marg, "cardinality": e_card,
        "add_node_latent": lambda: A.add_node("fresh", latent=True),
        "random_cpds": lambda: A.get_random_cpds(n_states={v: CARD[v] for v in A.nodes()}, inplace=True),
    }
    if cls in ("BN", "DAG"):
        edits.update({
            "add_edge": lambda: A.add_edge("fresh", spec["nodes"][0]),
            "add_cpds": lambda: A.add_cpds(mk_cpd(spec["nodes"][0], O.parents_of(spec["edges"], spec["nodes"][0]), 77)),
            "remove_cpds": lambda: A.remove_cpds(A.cpds[-1]),
            "do": lambda: A.do([spec["edges"][0][1]], inplace=True),
            "remove_node": lambda: A.remove_node(spec["edges"][0][0]),
        })
    elif cls == "DBN":
        edits.update({
            "add_edge": lambda: A.add_edge(("e", 0), ("g", 0)),
            "add_cpds": lambda: A.add_cpds(mk_cpd(("d1", 0), [], 5)),
            "remove_cpds": lambda: A.remove_cpds(A.cpds[0]),
        })
    elif cls == "MN":
        edits.update({
            "add_edge": lambda: A.add_edge("a1", "fresh"),
            "add_factors": lambda: A.add_factors(mk_factor(["a1", "bb"], 3)),
            "remove_factors": lambda: A.remove_factors(A.factors[0]),
        })
    elif cls in ("JT", "CG"):
        edits.update({
            "add_node": lambda: A.add_node(("a1", "fresh")),
            "add_edge": lambda: A.add_edge(("a1", "fresh"), first_clique()),
            "remove_factors": lambda: A.remove_factors(A.factors[0]),
        })
    elif cls == "FG":
        edits.update({
            "add_node": lambda: A.add_node("fresh"),
            "remove_factors": lambda: A.remove_factors(A.factors[0]),
        })
    s_A = snapf(A)
    ok, val = _call(edits[asp])
    label = asp + ("" if ok else f" (raised {type(val).__name__}: {val})")
    if snapf(A).diff(s_A) == [] and ok and cls != "FG":
        # the edit happened to be a no-op on this model (e.g. add_cpds with a CPD equal to the one already there): nothing to observe on
        # the other side, the case says nothing about aliasing
        return None
    d = snapf(B).diff(s_B)
    if d:
        return {"key": f"{name}.copy:{d[0]}-aliased", "what": f"edit `{label}` on the {sideA} changed {d} of the other object"}
    if exp is not None:
        got = _ve_answers(B, spec["nodes"])
        for v in exp:
            if any(not O.close(got[v][s], exp[v][s], 1e-8) for s in exp[v]):
                return {"key": f"{name}.copy:query-answer-changed", "what": f"edit `{label}` on the {sideA} changed P({v}) of the other object to {got[v]}"}
    return None


def nontrivial(case):
    return len(case.get("ops", [1, 2])) >= 2


def groups(tier):
    gs = []
    for cls in ("BN", "DAG", "DBN", "MN", "JT"):
        A = alphabet(cls, tier)
        gs.append(Group(f"history_{cls}", gen_histories(cls), check_history, nontrivial, engine="E3",
                        bound=f"{CLSNAME[cls]}: every operation sequence of length <= 2 (quick; + one third/quarter of length 3, rotating with the seed; "
                              f"BN/DBN thorough and DAG/MN/JT always: all of length <= 3) over {len(A)} operations on a 3-4 name alphabet incl. invalid "
                              f"arguments; all continuations of length <= 2 from {len(SEEDS[cls])} populated states; 40 (600) seeded random histories "
                              "of length 30. Keys listed in DEDICATED (confirmed defects) are reported by group repro only."))
    gs.append(Group("repro", gen_repro, check_repro, lambda c: True, engine="E3", bound="one minimal history per confirmed defect"))
    gs.append(Group("init_ebunch", gen_init, check_init, lambda c: len(c["ebunch"]) >= 1, engine="E3",
                    bound="DAG(ebunch)/BayesianNetwork(ebunch) for every edge list of <= 3 ordered pairs (incl. self loops) over 3 names, with/without latents"))
    gs.append(Group("copy_separation", gen_copy, check_copy, lambda c: True, seed_fanout=2, engine="E3",
                    bound="6 (40) seeded complete models per class BN/DBN/MN/JT/ClusterGraph/FactorGraph/DAG: copy content, type, query answers vs brute-force "
                          "oracle, then in-place CPD/factor edits and structural edits on one side must not change the other side"))
    return gs
