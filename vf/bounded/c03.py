"""C03 bounded groups (E3): MAP queries return a maximiser of the exact posterior.

map_query (VariableElimination with every order option, BeliefPropagation, VariableElimination on a Markov
network), BayesianNetwork.predict, and the two DiscreteFactor primitives the decoding rests on
(assignment = mixed-radix decoding through state names, maximize = point-wise max by name).
Models and the brute-force oracle are shared with C01 (vf.bounded.c01.Joint: exact Fractions, no pgmpy).
Ties are free: the *posterior value* of the returned assignment is compared with the maximum.
"""
from __future__ import annotations

import itertools
from fractions import Fraction

from vf.core import Group
from vf.bounded import oracles as O
from vf.bounded import c01 as M

TOL = 1e-9


def gen_models(tier, seed):
    return M.gen_models(tier, seed, salt="c03", n_random=(20 if tier == "quick" else 200))


def is_connected(spec):
    nodes = list(spec["nodes"])
    adj = {v: set() for v in nodes}
    for u, v in spec["edges"]:
        adj[u].add(v)
        adj[v].add(u)
    seen, stack = {nodes[0]}, [nodes[0]]
    while stack:
        for w in adj[stack.pop()]:
            if w not in seen:
                seen.add(w)
                stack.append(w)
    return len(seen) == len(nodes)


def gen_connected(tier, seed):
    for c in gen_models(tier, seed):
        if is_connected(c["spec"]):
            yield c
    # models whose moral graph has a chordless 4-cycle: triangulation adds a fill-in edge, so some clique contains a
    # variable that no factor assigned to that clique mentions (the situation of finding BP state-name loss)
    rng = O.mk_rng(seed, "c03-fillin")
    pool = ["epsilon", "alpha", "delta", "beta", "gamma", "x0", "x1", "x2", "x3", "x4", "zeta", "eta"]
    for i in range(8 if tier == "quick" else 40):
        e, a, d, b, g = rng.sample(pool, 5)
        edges = [[e, a], [e, d], [a, b], [b, g], [d, g]]
        names = [e, a, d, b, g]
        rng.shuffle(names)
        cards = {v: rng.choice((2, 3)) for v in names}
        yield M._case(rng, names, edges, cards, ("str", "mixed", "perm", "rot")[i % 4], ("pos", "zeros")[i % 2], "sampled")


# ----------------------------------------------------------------------------- MAP result check
def check_map(res, Q, spec, post, fn, desc):
    if not isinstance(res, dict):
        return {"key": f"{fn}:type", "what": f"{desc}: returned {type(res).__name__}"}
    if len(res) != len(Q) or set(res) != set(Q):
        return {"key": f"{fn}:keys", "what": f"{desc}: assigned variables {sorted(res)}, requested {sorted(Q)}"}
    for v in Q:
        if not any(M._same_name(res[v], s) for s in spec["states"][v]):
            return {"key": f"{fn}:state-name", "what": f"{desc}: {v} -> {res[v]!r} is not one of its state names {spec['states'][v]}"}
    # normalise numpy scalars to the model's own label objects
    key = tuple(next(s for s in spec["states"][v] if M._same_name(res[v], s)) for v in Q)
    best = max(post.values())
    if float(best - post[key]) > TOL:
        arg = [dict(zip(Q, k)) for k, p in post.items() if p == best][0]
        return {"key": f"{fn}:not-a-maximiser", "what": f"{desc}: returned {res} with posterior {post[key]} = {float(post[key])!r}, "
                                                        f"but {arg} has {best} = {float(best)!r}"}
    return None


def _weights(vlist):
    weights = {}
    for v, ws in (vlist or []):
        weights[v] = [a * b for a, b in zip(weights.get(v, [1] * len(ws)), ws)]
    return weights or None


def map_orders(nodes, Q, E, level, rng):
    rest = [v for v in nodes if v not in Q and v not in E]
    perms = list(itertools.permutations(rest)) if len(rest) <= 3 else [tuple(rng.sample(rest, len(rest))) for _ in range(2)]
    if level != "full" and len(perms) > 2:
        perms = rng.sample(perms, 2)
    opts = [("default", "default"), ("none", None)] + [("heuristic", h) for h in M.HEURISTICS] + [("explicit", list(p)) for p in perms]
    if level != "full":
        opts = opts[:1] + rng.sample(opts[1:], 3)
    return opts


def check_ve_map(case):
    from pgmpy.inference import VariableElimination

    spec = O.spec_from_json(case["spec"])
    rng = O.mk_rng(case["qseed"], "map")
    level = case["level"]
    J = M.Joint(spec)
    nodes = list(spec["nodes"])
    model = O.make_bn(spec)
    vlists = M.virtual_lists(spec, rng, "sampled")
    k = 0
    for Q, E in M.qe_pairs(nodes, level, rng, max_pairs=50):
        for ev in M.evidence_assignments(J, E, level, rng):
            post = J.posterior(Q, ev)
            if post is None:
                continue
            for lab, order in map_orders(nodes, Q, E, level, rng):
                kw = {} if order == "default" else {"elimination_order": order}
                res = VariableElimination(model).map_query(list(Q), evidence=dict(ev) or None, show_progress=False, **kw)
                f = check_map(res, Q, spec, post, f"VE.map_query:{lab}", f"map_query({Q}, evidence={ev}, elimination_order={order!r})")
                if f:
                    return f
            # virtual evidence (fresh engine: _virtual_evidence rebinds the engine, see C16)
            k += 1
            vlist = vlists[k % len(vlists)]
            postv = J.posterior(Q, ev, _weights(vlist))
            if postv is not None:
                order = (None,) + M.HEURISTICS
                order = order[k % len(order)]
                res = VariableElimination(model).map_query(list(Q), evidence=dict(ev) or None, virtual_evidence=M.make_virtual(spec, vlist),
                                                           elimination_order=order, show_progress=False)
                f = check_map(res, Q, spec, postv, "VE.map_query:virtual",
                              f"map_query({Q}, evidence={ev}, virtual={[(v, [str(x) for x in ws]) for v, ws in vlist]}, elimination_order={order!r})")
                if f:
                    return f
    return None


def check_bp_map(case):
    from pgmpy.inference import BeliefPropagation

    spec = O.spec_from_json(case["spec"])
    rng = O.mk_rng(case["qseed"], "bp")
    level = case["level"]
    J = M.Joint(spec)
    nodes = list(spec["nodes"])
    model = O.make_bn(spec)
    vlists = M.virtual_lists(spec, rng, "sampled")
    k = 0
    deferred = None  # a lost-state-name failure does not stop the sweep: optimality failures are reported first

    def one(Q, ev, vlist, warm=None):
        post = J.posterior(Q, ev, _weights(vlist))
        if post is None:
            return None
        fn = "BP.map_query:virtual" if vlist else "BP.map_query"
        desc = f"BeliefPropagation.map_query({Q}, evidence={ev}" + (f", virtual={[(v, [str(x) for x in ws]) for v, ws in vlist]})" if vlist else ")")
        try:
            eng = BeliefPropagation(model)
            if warm == "max_calibrate":   # an engine whose clique beliefs come from an earlier max-calibration / sum query
                eng.max_calibrate()
                fn, desc = fn + ":after-max_calibrate", "after max_calibrate(): " + desc
            elif warm == "query":
                eng.query([nodes[k % len(nodes)]], show_progress=False)
                fn, desc = fn + ":after-query", f"after query([{nodes[k % len(nodes)]!r}]): " + desc
            res = eng.map_query(list(Q), evidence=dict(ev) or None, show_progress=False,
                                virtual_evidence=M.make_virtual(spec, vlist) if vlist else None)
        except KeyError as e:
            if any(M._same_name(e.args[0], s) for s in ev.values()) if e.args else False:
                return {"key": "BP.map_query:state-name:evidence-state-unknown", "what": f"{desc}: KeyError {e} for a valid state name given as evidence"}
            raise
        f = check_map(res, Q, spec, post, fn, desc)
        if f and f["key"].endswith("not-a-maximiser"):
            # classification only: with integer state names in non-default order (e.g. [2, 1, 0]) the loss of state names
            # inside the clique tree is not visible as an invalid label; it silently selects the wrong evidence / result state.
            # The clique tree built for this model (same process, same hash seed) shows whether labels were replaced.
            lost = []
            if vlist:
                eng = BeliefPropagation(model)
                eng._virtual_evidence(M.make_virtual(spec, vlist))
                jt = BeliefPropagation(eng.model).junction_tree
            else:
                jt = BeliefPropagation(model).junction_tree
            for phi in jt.get_factors():
                for v in phi.variables:
                    if v in spec["states"] and not M._names_equal(list(phi.state_names[v]), list(spec["states"][v])):
                        lost.append((tuple(phi.variables), v, list(phi.state_names[v])))
            if lost:
                f["key"] = fn + ":state-name:relabelled"
                f["what"] += f" [clique potentials carry default labels instead of the model's state names: {lost[:3]}]"
        return f

    for Q, E in M.qe_pairs(nodes, level, rng, max_pairs=40):
        for ev in M.evidence_assignments(J, E, level, rng):
            k += 1
            for vlist in ([None, vlists[k % len(vlists)]] if k % 3 == 0 else [None]):
                for warm in ((None, ("max_calibrate", "query")[(k // 2) % 2]) if (vlist is None and k % 2 == 0) else (None,)):
                    f = one(Q, ev, vlist, warm)
                    if f and ":state-name" in f["key"]:
                        deferred = deferred or f
                    elif f:
                        return f
    return deferred


def make_markov(spec, rng):
    """Markov network whose factor product is the BN joint: one factor per family, axes shuffled, moral-graph edges."""
    from pgmpy.factors.discrete import DiscreteFactor
    from pgmpy.models import MarkovNetwork

    mn = MarkovNetwork()
    mn.add_nodes_from(spec["nodes"])
    factors = []
    for v in spec["nodes"]:
        scope = [v] + list(spec["cpd"][v]["parents"])
        rng.shuffle(scope)
        for a, b in itertools.combinations(scope, 2):
            mn.add_edge(a, b)
        vals = [float(O.cpd_value(spec, v, dict(zip(scope, combo)))) for combo in itertools.product(*[spec["states"][u] for u in scope])]
        factors.append(DiscreteFactor(scope, [len(spec["states"][u]) for u in scope], vals, state_names={u: list(spec["states"][u]) for u in scope}))
    mn.add_factors(*factors)
    return mn


def check_markov_map(case):
    from pgmpy.inference import VariableElimination

    spec = O.spec_from_json(case["spec"])
    rng = O.mk_rng(case["qseed"], "markov")
    level = case["level"]
    J = M.Joint(spec)
    nodes = list(spec["nodes"])
    mn = make_markov(spec, rng)
    for Q, E in M.qe_pairs(nodes, level, rng, max_pairs=40):
        for ev in M.evidence_assignments(J, E, level, rng):
            post = J.posterior(Q, ev)
            if post is None:
                continue
            opts = map_orders(nodes, Q, E, level, rng)
            opts = [o for o in opts if o[0] in ("default", "none", "explicit")]
            for lab, order in opts:
                kw = {} if order == "default" else {"elimination_order": order}
                res = VariableElimination(mn).map_query(list(Q), evidence=dict(ev) or None, show_progress=False, **kw)
                f = check_map(res, Q, spec, post, f"VE.map_query:markov:{lab}", f"MarkovNetwork map_query({Q}, evidence={ev}, elimination_order={order!r})")
                if f:
                    return f
    return None


def check_predict(case):
    spec = O.spec_from_json(case["spec"])
    rng = O.mk_rng(case["qseed"], "predict")
    level = case["level"]
    J = M.Joint(spec)
    nodes = list(spec["nodes"])
    if len(nodes) < 2:
        return None
    model = O.make_bn(spec)
    subsets = [list(c) for r in range(1, len(nodes)) for c in itertools.combinations(nodes, r)]
    if level != "full":
        subsets = rng.sample(subsets, min(len(subsets), 8))
    for D in subsets:
        rows = [dict(zip(D, k)) for k, p in J.marginal(D).items() if p > 0]
        if len(rows) > 6:
            rows = rng.sample(rows, 6)
        rows = rows + rows[:1]  # duplicate row: predict de-duplicates and merges back
        rng.shuffle(rows)
        data = M.make_frame(spec, D, rows)
        got = model.predict(data, n_jobs=1)
        missing = [v for v in nodes if v not in D]
        if sorted(got.columns) != sorted(missing) or len(got) != len(rows):
            return {"key": "predict:layout", "what": f"data columns {D}, {len(rows)} rows: got columns {list(got.columns)} and {len(got)} rows"}
        for i, r in enumerate(rows):
            res = {v: got.iloc[i][v] for v in missing}
            res = {v: (x.item() if hasattr(x, "item") else x) for v, x in res.items()}
            f = check_map(res, missing, spec, J.posterior(missing, r), "predict", f"predict row {i} = {r}")
            if f:
                return f
    return None


# ----------------------------------------------------------------------------- DiscreteFactor primitives
def gen_factors(tier, seed):
    rng = O.mk_rng(seed, "c03-factors")
    k = 0
    for rank in (1, 2, 3):
        for cards in itertools.product((1, 2, 3), repeat=rank):
            for style in M.STYLES:
                k += 1
                names = rng.sample(["v10", "v2", "alpha", "b", "zeta_long", "v1"], rank)
                n = 1
                for c in cards:
                    n *= c
                vals = [rng.randint(-3, 6) if k % 2 else Fraction(rng.randint(0, 8), 8) for _ in range(n)]
                yield {"variables": names, "cards": list(cards), "style": style if k % 3 else "default", "values": [str(x) for x in vals]}


def _mk_factor(case, order=None):
    """factor with the case's named values, axes in `order` (a permutation of the variables)."""
    from pgmpy.factors.discrete import DiscreteFactor

    vs, cards = case["variables"], case["cards"]
    states = {v: (list(range(c)) if case["style"] == "default" else O.state_names(v, c, case["style"])) for v, c in zip(vs, cards)}
    table = {}
    for combo, x in zip(itertools.product(*[states[v] for v in vs]), case["values"]):
        table[combo] = Fraction(x)
    order = list(order or vs)
    vals = [float(table[tuple(dict(zip(order, combo))[v] for v in vs)]) for combo in itertools.product(*[states[v] for v in order])]
    kw = {} if case["style"] == "default" else {"state_names": {v: list(states[v]) for v in order}}
    return DiscreteFactor(order, [len(states[v]) for v in order], vals, **kw), states, table


def check_assignment(case):
    phi, states, _ = _mk_factor(case)
    vs, cards = case["variables"], case["cards"]
    n = 1
    for c in cards:
        n *= c

    def expected(i):
        digits = []
        for c in reversed(cards):
            digits.append(i % c)
            i //= c
        digits.reverse()
        return [(v, states[v][d]) for v, d in zip(vs, digits)]

    def same(got, want):
        return len(got) == len(want) and all(len(g) == 2 and g[0] == w[0] and M._same_name(g[1], w[1]) for g, w in zip(got, want))

    for i in range(n):
        got = phi.assignment([i])
        if not (isinstance(got, list) and len(got) == 1 and same(got[0], expected(i))):
            return {"key": "assignment:decode", "what": f"variables {vs} cards {cards} states {states}: assignment([{i}]) = {got}, mixed-radix decoding gives {expected(i)}"}
    idx = list(range(n)) + list(reversed(range(n)))
    got = phi.assignment(idx)
    if len(got) != len(idx) or not all(same(g, expected(i)) for g, i in zip(got, idx)):
        return {"key": "assignment:decode-batch", "what": f"variables {vs} cards {cards}: assignment({idx}) = {got}"}
    import numpy as np

    got = phi.assignment(np.array(idx))
    if len(got) != len(idx) or not all(same(g, expected(i)) for g, i in zip(got, idx)):
        return {"key": "assignment:decode-batch", "what": f"variables {vs} cards {cards}: assignment(np.array({idx})) = {got}"}
    for bad, cls in ((n, "overflow"), (n + 1, "overflow"), (-1, "negative"), (-n, "negative"), (-n - 1, "negative")):
        for idxs in ([bad], [0, bad]):
            try:
                got = phi.assignment(idxs)
            except (IndexError, ValueError):
                continue
            return {"key": f"assignment:{cls}-index-accepted",
                    "what": f"variables {vs} cards {cards} (valid flat indices 0..{n - 1}): assignment({idxs}) returned {got} instead of raising"}
    return None


def check_maximize(case):
    vs = case["variables"]
    for order in itertools.permutations(vs):
        for r in range(1, len(vs) + 1):
            for elim in itertools.permutations(vs, r):
                for inplace in (False, True):
                    phi, states, table = _mk_factor(case, order)
                    before = phi.values.copy()
                    res = phi.maximize(list(elim), inplace=inplace)
                    out = phi if inplace else res
                    desc = f"factor over {list(order)} cards {[len(states[v]) for v in order]}, maximize({list(elim)}, inplace={inplace})"
                    if inplace and res is not None:
                        return {"key": "maximize:inplace-return", "what": f"{desc}: returned {type(res).__name__}"}
                    if not inplace and (list(phi.variables) != list(order) or phi.values.shape != before.shape or (phi.values != before).any()):
                        return {"key": "maximize:mutated-self", "what": f"{desc}: the original factor changed"}
                    keep = [v for v in vs if v not in elim]
                    if sorted(out.variables) != sorted(keep):
                        return {"key": "maximize:scope", "what": f"{desc}: result scope {out.variables}, expected {keep}"}
                    for v in out.variables:
                        if not M._names_equal(list(out.state_names[v]), states[v]):
                            return {"key": "maximize:state_names", "what": f"{desc}: state names of {v}: {out.state_names[v]} != {states[v]}"}
                    if tuple(out.values.shape) != tuple(len(states[v]) for v in out.variables) or \
                            tuple(int(c) for c in out.cardinality) != tuple(len(states[v]) for v in out.variables):
                        return {"key": "maximize:shape", "what": f"{desc}: result variables {out.variables} with cardinality {list(out.cardinality)} "
                                                                 f"and value shape {tuple(out.values.shape)}"}
                    for combo in itertools.product(*[states[v] for v in keep]):
                        a = dict(zip(keep, combo))
                        want = max(x for k, x in table.items() if all(dict(zip(vs, k))[v] == a[v] for v in keep))
                        got = float(out.values[tuple(out.state_names[v].index(a[v]) for v in out.variables)]) if keep else float(out.values)
                        if abs(got - float(want)) > 1e-12:
                            return {"key": "maximize:value", "what": f"{desc}: value at {a} is {got!r}, point-wise max is {want}"}
    return None


def groups(tier):
    quick = tier == "quick"
    fan = 4 if quick else 6
    dags = "all DAGs <= 3 nodes" if quick else "all DAGs <= 4 nodes"
    variants = ("3 random cardinality vectors from {1,2,3} per DAG" if quick else
                "every cardinality vector from {1,2,3}^n for n <= 3, one random vector per 4-node DAG")
    rnd = f"{20 if quick else 200} seeded random DAGs on {'4-6' if quick else '5-6'} nodes"
    common = (f"{dags} ({variants}), {rnd}; state names int/str/mixed/reversed-int/rotating; CPDs positive / with exact zeros / deterministic (many ties); "
              f"{fan} hash seeds per case; posterior value of the returned assignment vs exact maximum (Fractions, 1e-9), ties free; P(e) = 0 skipped")
    pairs = ("models <= 3 nodes: every disjoint (query, evidence) pair and every evidence assignment; larger: <= 50 sampled pairs, <= 2 evidence assignments")
    return [
        Group("ve_map", gen_models, check_ve_map, M.nontrivial, seed_fanout=fan, engine="E3",
              bound=common + "; " + pairs + "; elimination_order in {default, None, 4 heuristics, every explicit permutation} (larger: default + 3 sampled); "
                                            "one virtual-evidence list (<= 2 variables) per (query, evidence assignment); fresh engine per query"),
        Group("bp_map", gen_connected, check_bp_map, M.nontrivial, seed_fanout=fan, engine="E3",
              bound=common + "; " + pairs + "; CONNECTED models only (BeliefPropagation refuses models whose clique tree is disconnected: "
                                            "'No sepset found' at construction); virtual evidence on every third query; fresh engine per query, and for every second query additionally an engine "
                                            "warmed by max_calibrate() or by a sum-product query"),
        Group("markov_map", gen_models, check_markov_map, M.nontrivial, seed_fanout=fan, engine="E3",
              bound=common + "; VariableElimination.map_query on the Markov network of family factors (moral graph, shuffled factor axes) of the same models; "
                             "orders default / None / explicit permutations; hard evidence only"),
        Group("predict", gen_models, check_predict, M.nontrivial, seed_fanout=fan, engine="E3",
              bound=common + "; BayesianNetwork.predict(data, n_jobs=1) for every non-empty proper column subset (larger models: 8 sampled), <= 6 rows with "
                             "P(row) > 0 plus a duplicate, shuffled; default algorithm (VariableElimination)"),
        Group("factor_assignment", gen_factors, check_assignment, lambda c: max(c["cards"]) > 1, seed_fanout=1, engine="E3",
              bound="every rank 1..3, every cardinality vector from {1,2,3}^rank, 4 state-name styles + default names, every flat index singly, "
                    "batched (list and ndarray); indices n, n+1, -1, -n, -n-1 must be rejected"),
        Group("factor_maximize", gen_factors, check_maximize, lambda c: max(c["cards"]) > 1, seed_fanout=1, engine="E3",
              bound="same factors (integer values with ties and negatives / dyadic fractions); every axis order of the factor, every ordered non-empty "
                    "sub-list of variables to maximise out (including all of them), inplace True/False"),
    ]
