"""C02 bounded groups (E3): junction-tree belief propagation vs. brute-force joints.

A case is one model (Bayesian network, Markov network, factor graph or junction tree) in a plain
JSON spec; the check builds the real pgmpy object, runs BeliefPropagation.calibrate / max_calibrate /
query on it and compares with exact-rational (Fraction) marginals, max-marginals and posteriors of
the brute-force joint (product of all factors over all assignments) - written here, independent of
pgmpy.  Everything is compared by *named* assignment.

Model spec (JSON-able):
  {"kind": "bn", "bn": <oracles BN spec, Fractions as 'a/b'>, "ve": [[var, [w_state0, ...]], ...]}
  {"kind": "mn"|"fg", "vars": [[name, [state,...]],...], "edges": [[u,v],...],
   "factors": [{"scope": [...], "values": ['a/b', ...]}]}      values row-major, last scope var fastest
  {"kind": "jt", "vars": ..., "cliques": [[...],...], "tree": [[i,j],...], "factors": [one per clique]}
"""
from __future__ import annotations

import itertools
import math
from fractions import Fraction

from vf.core import Group
from vf.bounded import oracles as O

TOL = 1e-8


# ----------------------------------------------------------------------------- spec side (no pgmpy)
class Joint:
    """brute-force joint of a factor model: dict full-assignment tuple -> Fraction."""

    def __init__(self, vars_, factors):
        # vars_: list of (name, states); factors: list of (scope, {tuple(states): Fraction})
        self.names = [v for v, _ in vars_]
        self.states = {v: list(s) for v, s in vars_}
        self.factors = factors
        self.table = {}
        pos = {v: i for i, v in enumerate(self.names)}
        for combo in itertools.product(*[self.states[v] for v in self.names]):
            p = Fraction(1)
            for scope, tab in factors:
                p *= tab[tuple(combo[pos[v]] for v in scope)]
                if p == 0:
                    break
            self.table[combo] = p
        self.pos = pos

    def marg(self, scope, op="sum", evidence=None, weight=None):
        """unnormalised (max-)marginal over `scope` as dict tuple(states) -> Fraction."""
        evidence = evidence or {}
        out = {k: Fraction(0) for k in itertools.product(*[self.states[v] for v in scope])}
        idx = [self.pos[v] for v in scope]
        ev = [(self.pos[v], s) for v, s in evidence.items()]
        for combo, p in self.table.items():
            if any(combo[i] != s for i, s in ev):
                continue
            if weight is not None:
                p = p * weight(combo)
            k = tuple(combo[i] for i in idx)
            if op == "sum":
                out[k] += p
            else:
                out[k] = max(out[k], p)
        return out

    def posterior(self, query, evidence=None, weight=None):
        m = self.marg(query, "sum", evidence, weight)
        z = sum(m.values())
        if z == 0:
            return None
        return {k: v / z for k, v in m.items()}


def _factor_tables(vars_, factors_js):
    st = {v: list(s) for v, s in vars_}
    out = []
    for f in factors_js:
        keys = list(itertools.product(*[st[v] for v in f["scope"]]))
        vals = [Fraction(x) for x in f["values"]]
        assert len(keys) == len(vals)
        out.append((list(f["scope"]), dict(zip(keys, vals))))
    return out


def joint_of(case):
    if case["kind"] == "bn":
        spec = O.spec_from_json(case["bn"])
        vars_ = [(v, spec["states"][v]) for v in spec["nodes"]]
        facs = []
        for v in spec["nodes"]:
            scope = [v] + list(spec["cpd"][v]["parents"])
            tab = {}
            for a in O.all_assignments(spec, scope):
                tab[tuple(a[x] for x in scope)] = O.cpd_value(spec, v, a)
            facs.append((scope, tab))
        return Joint(vars_, facs)
    vars_ = [(v, s) for v, s in case["vars"]]
    return Joint(vars_, _factor_tables(vars_, case["factors"]))


def rip_ok(cliques, edges):
    """tree + running intersection: for every variable the cliques containing it induce a connected subtree."""
    cliques = list(cliques)
    n = len(cliques)
    if len(edges) != n - 1:
        return False
    adj = {c: set() for c in cliques}
    for a, b in edges:
        if a not in adj or b not in adj:
            return False
        adj[a].add(b)
        adj[b].add(a)

    def connected(sub):
        sub = set(sub)
        if not sub:
            return True
        seen, stack = set(), [next(iter(sub))]
        while stack:
            c = stack.pop()
            if c in seen:
                continue
            seen.add(c)
            stack.extend(x for x in adj[c] if x in sub and x not in seen)
        return seen == sub

    if not connected(cliques):
        return False
    for v in {x for c in cliques for x in c}:
        if not connected([c for c in cliques if v in c]):
            return False
    return True


def is_chordal(nodes, edges):
    """perfect-elimination-order search by brute force (<= 6 nodes)."""
    adj = {v: set() for v in nodes}
    for a, b in edges:
        adj[a].add(b)
        adj[b].add(a)
    left = set(nodes)
    while left:
        for v in sorted(left, key=repr):
            nb = adj[v] & left
            if all(b in adj[a] for a, b in itertools.combinations(nb, 2)):
                left.remove(v)
                break
        else:
            return False
    return True


# ----------------------------------------------------------------------------- pgmpy side
def _mk_factor(f, states):
    import numpy as np
    from pgmpy.factors.discrete import DiscreteFactor

    card = [len(states[v]) for v in f["scope"]]
    vals = np.array([float(Fraction(x)) for x in f["values"]], dtype=float).reshape(card)
    return DiscreteFactor(list(f["scope"]), card, vals, state_names={v: list(states[v]) for v in f["scope"]})


def build_model(case):
    kind = case["kind"]
    if kind == "bn":
        return O.make_bn(O.spec_from_json(case["bn"]))
    states = {v: list(s) for v, s in case["vars"]}
    facs = [_mk_factor(f, states) for f in case["factors"]]
    if kind == "mn":
        from pgmpy.models import MarkovNetwork

        m = MarkovNetwork()
        m.add_nodes_from([v for v, _ in case["vars"]])
        m.add_edges_from([tuple(e) for e in case["edges"]])
        m.add_factors(*facs)
        return m
    if kind == "fg":
        from pgmpy.models import FactorGraph

        m = FactorGraph()
        m.add_nodes_from([v for v, _ in case["vars"]])
        m.add_nodes_from(facs)
        for phi in facs:
            for v in phi.scope():
                m.add_edge(v, phi)
        m.add_factors(*facs)
        return m
    if kind == "jt":
        from pgmpy.models import JunctionTree

        m = JunctionTree()
        cl = [tuple(c) for c in case["cliques"]]
        m.add_nodes_from(cl)
        for i, j in case["tree"]:
            m.add_edge(cl[i], cl[j])
        m.add_factors(*facs)
        return m
    raise ValueError(kind)


def fresh_model(case):
    model = build_model(case)
    if case.get("heuristic"):
        # Markov network triangulated in place with the named heuristic before belief propagation
        model.triangulate(heuristic=case["heuristic"], inplace=True)
    return model


def _named_values(phi):
    """DiscreteFactor -> (variables, dict tuple(state names) -> float) via public attributes."""
    vs = list(phi.variables)
    out = {}
    for idx in itertools.product(*[range(int(c)) for c in phi.cardinality]):
        key = tuple(phi.state_names[v][i] for v, i in zip(vs, idx))
        out[key] = float(phi.values[idx])
    return vs, out


def _reorder(vs, tab, scope):
    perm = [vs.index(v) for v in scope]
    return {tuple(k[i] for i in perm): x for k, x in tab.items()}


def compare(phi, scope, want, states, proportional):
    """None if the factor equals (or is proportional to, with a positive constant) `want` on `scope`."""
    if set(phi.variables) != set(scope) or len(phi.variables) != len(scope):
        return "scope", f"factor scope {list(phi.variables)} != {list(scope)}"
    for v in scope:
        if sorted(map(repr, phi.state_names[v])) != sorted(map(repr, states[v])):
            return "state-names", f"state names of {v!r} are {phi.state_names[v]} but the model has {states[v]}"
    vs, tab = _named_values(phi)
    got = _reorder(vs, tab, list(scope))
    if any(math.isnan(x) or math.isinf(x) for x in got.values()):
        return "nan", f"non-finite entries {got}"
    sw = sum(want.values())
    k = 1.0
    if proportional:
        sg = sum(got.values())
        if sw == 0:
            k = 0.0
        elif not sg > 0:
            return "values", f"got {got}, expected a positive multiple of {_fmt(want)}"
        else:
            k = sg / float(sw)
    scale = max([abs(k * float(x)) for x in want.values()] + [1e-300])
    for key, w in want.items():
        if abs(got[key] - k * float(w)) > TOL * (scale if proportional else 1.0):
            return "values", f"at {dict(zip(scope, key))}: got {got[key]!r}, expected {k!r} * {w} (all got: {got}; expected ∝ {_fmt(want)})"
    return None


def _fmt(d):
    return {k: str(v) for k, v in d.items()}


def _model_states(case):
    if case["kind"] == "bn":
        return {v: list(s) for v, s in case["bn"]["states"].items()}
    return {v: list(s) for v, s in case["vars"]}


def _model_edges(case):
    """interaction graph of the model."""
    if case["kind"] == "bn":
        spec = case["bn"]
        scopes = [[v] + list(spec["cpd"][v]["parents"]) for v in spec["nodes"]]
    else:
        scopes = [f["scope"] for f in case["factors"]]
    e = set()
    for s in scopes:
        for a, b in itertools.combinations(s, 2):
            e.add(frozenset((a, b)))
    return e


# ----------------------------------------------------------------------------- checks
def _check_tree(bp, J, case):
    """junction-tree structure + clique-potential product == product of the model's factors."""
    jt = bp.junction_tree
    cliques = list(jt.nodes())
    if {x for c in cliques for x in c} != set(J.names):
        return {"key": "junction_tree:cover", "what": f"cliques {cliques} do not cover the variables {J.names}"}
    if any(len(set(c)) != len(c) for c in cliques):
        return {"key": "junction_tree:cover", "what": f"clique with repeated variable: {cliques}"}
    if not rip_ok(cliques, list(jt.edges())):
        return {"key": "junction_tree:running-intersection", "what": f"cliques {cliques}, edges {list(jt.edges())}: not a tree with the running-intersection property"}
    for a, b in _model_edges(case):
        if not any(a in c and b in c for c in cliques):
            return {"key": "junction_tree:family-preservation", "what": f"interacting variables {a!r},{b!r} share no clique in {cliques}"}
    # product of the clique potentials, by named assignment (this needs correct state names in every potential)
    pots = []
    for c in cliques:
        phi = jt.get_factors(c)
        if set(phi.variables) != set(c):
            return {"key": "junction_tree:potential-scope", "what": f"clique {c} carries a potential over {phi.variables}"}
        pots.append(phi)
    bad_names = None
    for phi in pots:
        for v in phi.variables:
            # all factors of the model list the states of v in the same order and products are positional,
            # so the potential must carry exactly that list
            if list(phi.state_names[v]) != list(J.states[v]) or [type(x) for x in phi.state_names[v]] != [type(x) for x in J.states[v]]:
                bad_names = (tuple(phi.variables), v, phi.state_names[v])
    # compare the product positionally when state names are broken (so that the two defects get separate keys)
    worst = None
    zsum = 0.0
    for combo, p in J.table.items():
        a = dict(zip(J.names, combo))
        prod = 1.0
        for phi in pots:
            idx = tuple(J.states[v].index(a[v]) for v in phi.variables)
            prod *= float(phi.values[idx])
        zsum += prod
        if abs(prod - float(p)) > TOL * max(1.0, abs(float(p))):
            worst = worst or (a, prod, p)
    if worst:
        a, prod, p = worst
        # diagnosis: does the tree equal the product in which every group of *equal* factors is used once?
        key = "to_junction_tree:potential-product"
        if case["kind"] != "jt":
            uniq = []
            for scope, tab in J.factors:
                if not any(set(scope) == set(s2) and all(tab[k] == t2[tuple(dict(zip(scope, k))[v] for v in s2)] for k in tab) for s2, t2 in uniq):
                    uniq.append((scope, tab))
            if len(uniq) < len(J.factors):
                J1 = Joint([(v, J.states[v]) for v in J.names], uniq)
                if all(abs(_prod_at(pots, J, combo) - float(q)) <= TOL * max(1.0, float(q)) for combo, q in J1.table.items()):
                    key = "to_junction_tree:equal-factors-used-once"
        return {"key": key, "what": f"product of clique potentials at {a} is {prod!r}, product of the model's factors is {p} "
                f"(partition function {zsum!r} vs {sum(J.table.values())})"}
    if bad_names:
        return {"key": "to_junction_tree:potential-state-names", "what": f"clique potential over {bad_names[0]} names the states of {bad_names[1]!r} {bad_names[2]} "
                f"but the model's factors name them {J.states[bad_names[1]]}"}
    return None


def _bad_potential_names(bp, J):
    """query() rebuilds the junction tree from model.copy(); the rebuilt tree may assign factors differently."""
    jt = bp.junction_tree
    for c in jt.nodes():
        phi = jt.get_factors(c)
        for v in phi.variables:
            if list(phi.state_names[v]) != list(J.states[v]) or [type(x) for x in phi.state_names[v]] != [type(x) for x in J.states[v]]:
                return {"key": "to_junction_tree:potential-state-names",
                        "what": f"(tree rebuilt by query() from model.copy()) clique potential over {tuple(phi.variables)} names the states of {v!r} "
                                f"{phi.state_names[v]} but the model's factors name them {J.states[v]}"}
    return None


def _prod_at(pots, J, combo):
    a = dict(zip(J.names, combo))
    prod = 1.0
    for phi in pots:
        prod *= float(phi.values[tuple(J.states[v].index(a[v]) for v in phi.variables)])
    return prod


def _check_calibration(bp, J, op, tag):
    """after (max_)calibrate: clique/sepset beliefs ∝ (max-)marginals, adjacent cliques agree, convergence test is consistent."""
    jt = bp.junction_tree
    cb, sb = bp.get_clique_beliefs(), bp.get_sepset_beliefs()
    if set(cb) != set(jt.nodes()):
        return {"key": f"{tag}:clique-beliefs:keys", "what": f"belief keys {list(cb)} != cliques {list(jt.nodes())}"}
    if set(sb) != {frozenset(e) for e in jt.edges()}:
        return {"key": f"{tag}:sepset-beliefs:keys", "what": f"sepset keys {list(sb)} != edges {list(jt.edges())}"}
    kop = "sum" if op == "marginalize" else "max"
    ratios = []
    for c, phi in cb.items():
        want = J.marg(list(c), kop)
        bad = compare(phi, list(c), want, J.states, True)
        if bad:
            return {"key": f"{tag}:clique-belief:{bad[0]}", "what": f"clique {c}: {bad[1]}"}
        if sum(want.values()) > 0:
            ratios.append((c, float(phi.values.sum() if kop == "sum" else phi.values.max()) / float(sum(want.values()) if kop == "sum" else max(want.values()))))
    for e, phi in sb.items():
        c1, c2 = tuple(e)
        sep = [v for v in c1 if v in c2]
        if phi is None:
            return {"key": f"{tag}:sepset-belief:missing", "what": f"edge {c1}-{c2}: sepset belief is None after calibration"}
        want = J.marg(sep, kop)
        bad = compare(phi, sep, want, J.states, True)
        if bad:
            return {"key": f"{tag}:sepset-belief:{bad[0]}", "what": f"edge {c1}-{c2} sepset {sep}: {bad[1]}"}
        # agreement: both cliques (max-)marginalised onto the sepset equal the sepset belief (same constant)
        for c in (c1, c2):
            vs, tab = _named_values(cb[c])
            proj = {}
            for k, x in tab.items():
                kk = tuple(k[vs.index(v)] for v in sep)
                proj[kk] = (proj.get(kk, 0.0) + x) if kop == "sum" else max(proj.get(kk, 0.0), x)
            svs, stab = _named_values(phi)
            stab = _reorder(svs, stab, sep)
            scale = max([abs(x) for x in stab.values()] + [abs(x) for x in proj.values()] + [1e-300])
            for kk in proj:
                if abs(proj[kk] - stab[kk]) > TOL * scale:
                    return {"key": f"{tag}:sepset-agreement", "what": f"clique {c} projected on sepset {sep} gives {proj}, sepset belief is {stab}"}
    if ratios:
        lo, hi = min(r for _, r in ratios), max(r for _, r in ratios)
        if hi - lo > 1e-7 * max(abs(hi), 1e-300):
            return {"key": f"{tag}:clique-belief:constants-differ", "what": f"proportionality constants differ between cliques: {ratios}"}
    # the library's own calibration test must accept a calibrated tree and reject a perturbed one
    if len(cb) > 1:
        if not bp._is_converged(operation=op):
            return {"key": f"{tag}:_is_converged:rejects-calibrated", "what": "the tree is calibrated (checked above) but _is_converged returns False"}
        c0 = sorted(cb, key=repr)[0]
        saved = cb[c0]
        pert = saved.copy()
        flat = pert.values.reshape(-1)
        if flat.size > 1 and float(flat.max()) > 0:
            i = int(flat.argmax())
            pert.values = pert.values.copy()
            pert.values.reshape(-1)[i] *= 1.5
            vs_other = [v for v in c0 if any(v in c for c in cb if c != c0)]
            bp.clique_beliefs[c0] = pert
            conv = bp._is_converged(operation=op)
            bp.clique_beliefs[c0] = saved
            # the perturbed entry changes the projection on every sepset of c0 (strictly larger max / sum)
            if conv and vs_other:
                return {"key": f"{tag}:_is_converged:accepts-uncalibrated", "what": f"belief of {c0} multiplied by 1.5 at its maximum entry; _is_converged still True"}
    return None


def _queries(case, J, rng, budget):
    """(variables, evidence dict, joint flag, virtual evidence or None) tuples."""
    names = list(J.names)
    out = []
    for r in (1, 2, 3):
        for Q in itertools.combinations(names, r):
            rest = [v for v in names if v not in Q]
            for er in (0, 1, 2):
                for E in itertools.combinations(rest, er):
                    out.append((list(Q), list(E)))
    rng.shuffle(out)
    # keep all single-variable / single-evidence queries first (they decide in- vs out-of-clique paths)
    out.sort(key=lambda qe: (len(qe[0]) + len(qe[1]) > 3,))
    res = []
    for i, (Q, E) in enumerate(out[:budget]):
        if rng.random() < 0.5:
            Q = Q[::-1]
        ev = {v: rng.choice(J.states[v]) for v in E}
        for v, st in (case.get("prefer_ev") or {}).items():   # evidence states that make a rare configuration the dominant one
            if v in ev and i % 4 != 3:
                ev[v] = J.states[v][st]
        res.append((Q, ev, i % 3 != 2, None))
    return res


def _ve_factors(case, rng_salt):
    return case.get("ve") or []


def _mk_virtual(case, ve):
    from pgmpy.factors.discrete import TabularCPD

    st = _model_states(case)
    out = []
    for v, w in ve:
        out.append(TabularCPD(v, len(st[v]), [[float(Fraction(x))] for x in w], state_names={v: list(st[v])}))
    return out


def _cmp_query(res, Q, want, J, joint, who):
    if joint:
        bad = compare(res, Q, want, J.states, False)
        if bad:
            return {"key": f"{who}:posterior:{bad[0]}", "what": bad[1]}
        return None
    if not isinstance(res, dict) or set(res) != set(Q):
        return {"key": f"{who}:joint-false:keys", "what": f"joint=False returned {type(res).__name__} with keys {list(res) if isinstance(res, dict) else None}, expected {Q}"}
    for v in Q:
        w1 = {}
        for k, x in want.items():
            kk = (k[Q.index(v)],)
            w1[kk] = w1.get(kk, Fraction(0)) + x
        bad = compare(res[v], [v], w1, J.states, False)
        if bad:
            return {"key": f"{who}:posterior:{bad[0]}", "what": f"joint=False, variable {v!r}: {bad[1]}"}
    return None


def check_model(case):
    from pgmpy.inference import BeliefPropagation, VariableElimination

    J = joint_of(case)
    rng = O.mk_rng(case.get("qseed", 0), "c02q")
    model = fresh_model(case)
    if case.get("heuristic"):
        if set(model.nodes()) != set(J.names) or not is_chordal(list(model.nodes()), [tuple(e) for e in model.edges()]):
            return {"key": "triangulate:not-chordal", "what": f"heuristic {case['heuristic']}: edges {sorted(map(sorted, model.edges()))} are not chordal"}
        if not {frozenset(e) for e in case["edges"]} <= {frozenset(e) for e in model.edges()}:
            return {"key": "triangulate:lost-edge", "what": f"heuristic {case['heuristic']}: original edges missing in {list(model.edges())}"}
    try:
        bp = BeliefPropagation(model)
    except Exception as e:  # noqa - the property says every connected model is supported
        return {"key": f"init:raised:{type(e).__name__}", "what": f"BeliefPropagation(model) raised {type(e).__name__}: {e}"}
    r = _check_tree(bp, J, case)
    if r:
        return r
    bp.calibrate()
    r = _check_calibration(bp, J, "marginalize", "calibrate")
    if r:
        return r
    bp2 = BeliefPropagation(fresh_model(case))
    r = _check_tree(bp2, J, case)
    if r:
        return r
    bp2.max_calibrate()
    r = _check_calibration(bp2, J, "maximize", "max_calibrate")
    if r:
        return r
    # a posterior (sum) query on an object that was max-calibrated before must not reuse the max-beliefs
    for Q, ev, joint, _ in list(_queries(case, J, O.mk_rng(case.get("qseed", 0), "after-max"), 8))[:8]:
        want = J.posterior(Q, ev)
        if want is None:
            continue
        desc = f"max_calibrate(); query(variables={Q}, evidence={ev}, joint={joint})"
        try:
            got = bp2.query(variables=list(Q), evidence=dict(ev) if ev else None, joint=joint, show_progress=False)
        except Exception as e:  # noqa
            return {"key": f"query-after-max_calibrate:raised:{type(e).__name__}", "what": f"{desc} raised {type(e).__name__}: {e}"}
        r = _cmp_query(got, Q, want, J, joint, "query-after-max_calibrate")
        if r:
            r["what"] = desc + ": " + r["what"]
            return r
    # ---- queries: one long-lived object (query() must restore it) and VariableElimination as a second opinion
    ve_obj = VariableElimination(fresh_model(case))
    ve_fail = None
    nodes_before = sorted(map(repr, bp.model.nodes()))
    for Q, ev, joint, _ in _queries(case, J, rng, case.get("nq", 24)):
        want = J.posterior(Q, ev)
        if want is None:
            continue
        desc = f"query(variables={Q}, evidence={ev}, joint={joint})"
        r = _bad_potential_names(bp, J)
        if r:
            return r
        try:
            got = bp.query(variables=list(Q), evidence=dict(ev) if ev else None, joint=joint, show_progress=False)
        except Exception as e:  # noqa
            return {"key": f"query:raised:{type(e).__name__}", "what": f"{desc} raised {type(e).__name__}: {e}"}
        r = _cmp_query(got, Q, want, J, joint, "query")
        if r:
            r["what"] = desc + ": " + r["what"]
            return r
        if ve_fail is None and case.get("ve_check", True):
            # second opinion; a failure of VariableElimination itself is reported only if belief propagation passed everything
            try:
                got = ve_obj.query(variables=list(Q), evidence=dict(ev) if ev else None, joint=joint, show_progress=False)
            except Exception as e:  # noqa
                ve_fail = {"key": f"VariableElimination.query:{case['kind']}:raised:{type(e).__name__}",
                           "what": f"VariableElimination.{desc} raised {type(e).__name__}: {e}"}
                continue
            if case["kind"] in ("mn", "fg"):
                # VariableElimination returns unnormalised factors for undirected models; normalise
                got = got.normalize(inplace=False) if joint else {v: f.normalize(inplace=False) for v, f in got.items()}
            r = _cmp_query(got, Q, want, J, joint, "VariableElimination.query")
            if r:
                r["what"] = "VariableElimination." + desc + ": " + r["what"]
                ve_fail = r
    if sorted(map(repr, bp.model.nodes())) != nodes_before:
        return {"key": "query:model-not-restored", "what": f"model nodes after the queries: {list(bp.model.nodes())}"}
    # ---- virtual evidence (Bayesian networks only: the other model kinds ignore the argument)
    if case["kind"] == "bn" and case.get("ve"):
        pos = J.pos
        st = J.states
        wmap = {v: [Fraction(x) for x in w] for v, w in case["ve"]}

        def weight(combo):
            p = Fraction(1)
            for v, w in wmap.items():
                p *= w[st[v].index(combo[pos[v]])]
            return p

        bpv = BeliefPropagation(fresh_model(case))
        for Q, ev, joint, _ in _queries(case, J, rng, 6):
            want = J.posterior(Q, ev, weight)
            if want is None:
                continue
            desc = f"query(variables={Q}, evidence={ev}, virtual_evidence={case['ve']}, joint={joint})"
            if case.get("qseed", 0) % 2:
                bpv = BeliefPropagation(fresh_model(case))  # odd cases: fresh object per query; even: one long-lived object
            try:
                got = bpv.query(variables=list(Q), evidence=dict(ev) if ev else None, virtual_evidence=_mk_virtual(case, case["ve"]),
                                joint=joint, show_progress=False)
            except Exception as e:  # noqa
                return {"key": f"query:virtual-evidence:raised:{type(e).__name__}", "what": f"{desc} raised {type(e).__name__}: {e}"}
            r = _cmp_query(got, Q, want, J, joint, "query:virtual-evidence")
            if r:
                r["what"] = desc + ": " + r["what"]
                return r
            got = VariableElimination(build_model(case)).query(variables=list(Q), evidence=dict(ev) if ev else None,
                                                               virtual_evidence=_mk_virtual(case, case["ve"]), joint=joint, show_progress=False)
            r = _cmp_query(got, Q, want, J, joint, "VariableElimination.query:virtual-evidence")
            if r:
                r["what"] = desc + ": " + r["what"]
                return r
        # a plain query on the object that has answered virtual-evidence queries
        Q = [names_last for names_last in J.names][-1:]
        want = J.posterior(Q, {})
        try:
            got = bpv.query(variables=list(Q), show_progress=False)
        except Exception as e:  # noqa
            return {"key": f"query:after-virtual-evidence:raised:{type(e).__name__}", "what": f"query({Q}) after a virtual-evidence query raised {type(e).__name__}: {e}"}
        r = _cmp_query(got, Q, want, J, True, "query:after-virtual-evidence")
        if r:
            return r
    return ve_fail


# ----------------------------------------------------------------------------- generators
NAMES = ["rain", "B", "sprinkler_on", "x3", "wet", "Z9"]
INT_NAMES = [10, 2, 33, 4, 0, 7]


def _connected(nodes, edges):
    adj = {v: set() for v in nodes}
    for a, b in edges:
        adj[a].add(b)
        adj[b].add(a)
    seen, stack = set(), [nodes[0]]
    while stack:
        v = stack.pop()
        if v in seen:
            continue
        seen.add(v)
        stack.extend(adj[v] - seen)
    return len(seen) == len(nodes)


def connected_graphs(names):
    pairs = list(itertools.combinations(names, 2))
    for mask in range(1 << len(pairs)):
        edges = [list(p) for i, p in enumerate(pairs) if mask >> i & 1]
        if _connected(names, edges):
            yield edges


def _cards(rng, nodes, allow_one=False):
    pool = (2, 2, 3, 3, 1) if allow_one else (2, 2, 3)
    cards = {v: rng.choice(pool) for v in nodes}
    if len(nodes) > 1 and len(set(cards.values())) == 1 and rng.random() < 0.7:
        cards[nodes[0]] = 3 if cards[nodes[0]] != 3 else 2
    return cards


def _states(rng, nodes, cards, style):
    out = []
    for v in nodes:
        s = style if style != "vary" else rng.choice(("int", "str", "mixed", "perm"))
        out.append([v, O.state_names(v, cards[v], s)])
    return out


def _rand_values(rng, n, zeros):
    while True:
        vals = [rng.randint(0 if zeros and rng.random() < 0.4 else 1, 6) for _ in range(n)]
        if sum(vals) > 0:
            break
    den = rng.choice((1, 1, 1, 3, 7))
    return [str(Fraction(x, den)) for x in vals]


def _rand_factor(rng, scope, cards, zeros=False):
    scope = list(scope)
    rng.shuffle(scope)
    n = 1
    for v in scope:
        n *= cards[v]
    return {"scope": scope, "values": _rand_values(rng, n, zeros)}


def gen_bn(tier, seed):
    rng = O.mk_rng(seed, "c02bn")
    sizes = (1, 2, 3) if tier == "quick" else (1, 2, 3)
    k = 0
    for n in sizes:
        names = NAMES[:n]
        for edges in O.all_dags(n, names):
            if not _connected(names, edges):
                continue
            for style in ("str", "int", "mixed"):
                for rep in range(2):
                    k += 1
                    yield _bn_case(rng, names, edges, style, zeros=(k % 3 == 0), allow_one=(k % 4 == 1), qseed=k)
    for i in range(6 if tier == "quick" else 24):
        k += 1
        yield _rare_bn_case(rng, 3 + i % 2, ("str", "int", "mixed")[i % 3], k)
    # four-node networks: seeded sample (quick) / all 446 connected DAGs (thorough)
    names = NAMES[:4]
    dags = [e for e in O.all_dags(4, names) if _connected(names, e)]
    if tier == "quick":
        dags = rng.sample(dags, 72)
    for edges in dags:
        k += 1
        yield _bn_case(rng, names, edges, ("str", "int", "mixed")[k % 3], zeros=(k % 3 == 0), allow_one=(k % 5 == 1), qseed=k,
                       nq=16 if tier == "quick" else 24)


def _rare_bn_case(rng, n, style, qseed):
    """chain v0 -> v1 -> ... whose second variable has a state of prior mass ~2^-33 that dominates once v0's rare state is observed:
    sepset beliefs then carry entries far below any absolute closeness tolerance which still decide the posterior."""
    names = NAMES[:n]
    edges = [[names[i], names[i + 1]] for i in range(n - 1)]
    cards = {v: rng.choice((2, 3)) for v in names}
    cards[names[0]] = 2
    spec = O.random_bn_spec(rng, names, edges, cards, style, zeros=False, parent_shuffle=False)
    eps = Fraction(1, 2 ** 33)
    a, b = names[0], names[1]
    spec["cpd"][a]["table"] = [[1 - eps], [eps]]
    tb = spec["cpd"][b]["table"]
    last = cards[b] - 1
    tb[0][0] += tb[last][0] - eps
    tb[last][0] = eps
    rest = [Fraction(1, 10 * last)] * last
    for i in range(last):
        tb[i][1] = rest[i]
    tb[last][1] = Fraction(9, 10)
    return {"kind": "bn", "bn": O.spec_to_json(spec), "ve": [], "qseed": qseed, "nq": 24, "prefer_ev": {a: 1}}


def _bn_case(rng, names, edges, style, zeros, allow_one, qseed, nq=24):
    cards = _cards(rng, names, allow_one)
    spec = O.random_bn_spec(rng, names, edges, cards, style, zeros=zeros)
    # virtual evidence on one or two variables, weights in (0, 1]
    ve = []
    for v in rng.sample(names, min(len(names), rng.choice((1, 1, 2)))):
        ve.append([v, [str(Fraction(rng.randint(1, 9), 10)) for _ in range(cards[v])]])
    return {"kind": "bn", "bn": O.spec_to_json(spec), "ve": ve, "qseed": qseed, "nq": nq}


def _mn_factors(rng, names, edges, cards, mode, zeros):
    facs = []
    if mode in ("full", "dup", "dup3"):
        for e in edges:
            facs.append(_rand_factor(rng, e, cards, zeros))
        for v in names:
            if rng.random() < 0.5 or not edges:
                facs.append(_rand_factor(rng, [v], cards, zeros))
        if mode in ("dup", "dup3"):
            f = dict(rng.choice(facs))
            for _ in range(1 if mode == "dup" else 2):
                facs.insert(rng.randrange(len(facs) + 1), {"scope": list(f["scope"]), "values": list(f["values"])})
    elif mode == "sparse":
        # pairwise factors on a random subset of the edges only; the other variables get unary factors,
        # so that some cliques receive factors that do not mention all of their variables
        keep = [e for e in edges if rng.random() < 0.5]
        for e in keep:
            facs.append(_rand_factor(rng, e, cards, zeros))
        covered = {v for e in keep for v in e}
        for v in names:
            if v not in covered or rng.random() < 0.3:
                facs.append(_rand_factor(rng, [v], cards, zeros))
    elif mode == "tri":
        # maximal cliques of the graph get one factor each (ternary where there is a triangle)
        E = {frozenset(e) for e in edges}
        done = set()
        for r in (4, 3, 2):
            for c in itertools.combinations(names, r):
                if all(frozenset(p) in E for p in itertools.combinations(c, 2)) and not any(set(c) <= d for d in done):
                    done.add(frozenset(c))
                    facs.append(_rand_factor(rng, c, cards, zeros))
        if not edges:
            facs.append(_rand_factor(rng, names, cards, zeros))
    rng.shuffle(facs)
    return facs


def gen_mn(tier, seed, modes=("full", "tri"), reps=None):
    rng = O.mk_rng(seed, "c02mn", *modes)
    k = 0
    reps = reps or (2 if tier == "quick" else 3)
    for n in (1, 2, 3, 4):
        for edges0 in connected_graphs(list(range(n))):
            if "dup" in modes and n == 4 and len(edges0) not in (3, 6):
                continue  # equal-factor layouts: all graphs <= 3 nodes, trees and the complete graph on 4 nodes
            for mode in modes * reps:
                k += 1
                names = (INT_NAMES if k % 5 == 0 else NAMES)[:n]
                edges = [[names[a], names[b]] for a, b in edges0]
                style = ("str", "int", "mixed", "vary")[k % 4]
                cards = _cards(rng, names, allow_one=(k % 7 == 3))
                yield {"kind": "mn", "vars": _states(rng, names, cards, style), "edges": edges,
                       "factors": _mn_factors(rng, names, edges, cards, mode, zeros=(k % 3 == 0)), "mode": mode, "qseed": k,
                       "nq": 14 if tier == "quick" else 24}


def gen_mn_chain(tier, seed):
    """long thin models: chains (and one caterpillar) of 6..8 binary variables - the clique tree is a path of 5..7 cliques, so that
    messages have to travel many hops in both passes"""
    rng = O.mk_rng(seed, "c02chain")
    k = 0
    for n in (6, 7, 8):
        for style, names in (("int", list(range(n))), ("str", [f"v{i:02d}" for i in range(n)]), ("int", list(range(n - 1, -1, -1)))):
            for rep in range(1 if tier == "quick" else 3):
                k += 1
                order = names[:]
                if rep:
                    rng.shuffle(order)
                edges = [[order[i], order[i + 1]] for i in range(n - 1)]
                cards = {v: 2 for v in names}
                add_order = edges[:]
                rng.shuffle(add_order)
                yield {"kind": "mn", "vars": _states(rng, names, cards, style if style != "int" else "int"), "edges": add_order,
                       "factors": _mn_factors(rng, names, edges, cards, "full", zeros=False), "mode": "full", "qseed": k, "nq": 20}


def gen_mn_sparse(tier, seed):
    return gen_mn(tier, seed, ("sparse",), 1)


def gen_mn_equal(tier, seed):
    return gen_mn(tier, seed, ("dup", "dup3"), 1)


def gen_heur(tier, seed):
    """non-chordal Markov networks triangulated with every heuristic H1..H6."""
    rng = O.mk_rng(seed, "c02h")
    graphs = []
    for names in (NAMES[:4], NAMES[:5]):
        for edges in connected_graphs(names):
            if not is_chordal(names, [tuple(e) for e in edges]):
                graphs.append((names, edges))
    if tier == "quick":
        four = [g for g in graphs if len(g[0]) == 4]
        graphs = four + rng.sample([g for g in graphs if len(g[0]) == 5], 6)
    else:
        graphs = [g for g in graphs if len(g[0]) == 4] + rng.sample([g for g in graphs if len(g[0]) == 5], 30)
    k = 0
    for names, edges in graphs:
        cards = _cards(rng, names)
        # two of three graphs use the default-looking int labels: they are blind to the (separately reported) missing state
        # names in clique potentials, so that the numerics of every heuristic are exercised on all of them
        vars_ = _states(rng, names, cards, ("int", "str", "int", "int", "mixed", "int")[(k // 6) % 6])
        facs = _mn_factors(rng, names, edges, cards, "full", zeros=False)
        for h in ("H1", "H2", "H3", "H4", "H5", "H6"):
            k += 1
            yield {"kind": "mn", "vars": vars_, "edges": edges, "factors": facs, "heuristic": h, "qseed": k, "nq": 6}


def gen_fg(tier, seed, with_ve=False):
    rng = O.mk_rng(seed, "c02fg", with_ve)
    k = 0
    for n in (1, 2, 3, 4):
        names = NAMES[:n]
        for edges in connected_graphs(names):
            if with_ve and (n == 4 and len(edges) != 6 or k >= 12):
                continue
            for mode in ("full", "tri") + (("sparse",) if tier != "quick" and k % 3 == 0 else ()):
                k += 1
                style = ("str", "int", "mixed", "vary")[k % 4]
                cards = _cards(rng, names)
                facs = _mn_factors(rng, names, edges, cards, mode, zeros=(k % 4 == 0))
                # the variable interaction graph must stay connected (sparse mode may cut it)
                if not _connected(names, [list(p) for f in facs for p in itertools.combinations(f["scope"], 2)]):
                    continue
                yield {"kind": "fg", "vars": _states(rng, names, cards, style), "edges": edges, "factors": facs, "mode": mode, "qseed": k,
                       "nq": (10 if tier == "quick" else 20) if not with_ve else 4, "ve_check": with_ve}


def gen_fg_ve(tier, seed):
    return gen_fg(tier, seed, True)


def gen_jt(tier, seed):
    rng = O.mk_rng(seed, "c02jt")
    for k in range(80 if tier == "quick" else 240):
        base_names = INT_NAMES if k % 5 == 4 else NAMES
        pool = base_names[:]
        rng.shuffle(pool)
        ncl = rng.choice((1, 2, 2, 3, 3, 4))
        first = [pool.pop() for _ in range(rng.choice((1, 2, 2, 3)))]
        cliques, tree = [first], []
        while len(cliques) < ncl and pool:
            i = rng.randrange(len(cliques))
            base = cliques[i]
            sep = rng.sample(base, rng.randint(1, min(2, len(base))))
            new = [pool.pop() for _ in range(min(len(pool), rng.choice((1, 1, 2))))]
            c = sep + new
            rng.shuffle(c)
            cliques.append(c)
            tree.append([i, len(cliques) - 1] if rng.random() < 0.5 else [len(cliques) - 1, i])
        names = [v for v in base_names if any(v in c for c in cliques)]
        cards = _cards(rng, names, allow_one=(k % 7 == 2))
        facs = [_rand_factor(rng, c, cards, zeros=(k % 3 == 0)) for c in cliques]
        yield {"kind": "jt", "vars": _states(rng, names, cards, ("str", "int", "mixed", "vary")[k % 4]), "cliques": cliques, "tree": tree,
               "factors": facs, "qseed": k, "nq": 12 if tier == "quick" else 24}


def nontrivial(case):
    if case["kind"] == "bn":
        return len(case["bn"]["edges"]) >= 1
    return len(case["vars"]) >= 2


def groups(tier):
    fan = 4 if tier == "quick" else 16
    return [
        Group("bn", gen_bn, check_model, nontrivial, seed_fanout=fan, engine="E3",
              bound="all connected DAGs <= 3 nodes x state-name styles str/int/mixed, cards in {1,2,3}, zeros in 1/3 of the CPDs; 72 seeded (thorough: all 446) "
                    "connected 4-node DAGs; 6 (24) chains with a state of prior mass 2^-33 that dominates under the preferred evidence; per model: tree structure, calibrate + max_calibrate beliefs vs brute-force (max-)marginals, "
                    "<= 24 (variables, evidence-by-state-name, joint) queries with |variables| <= 3, |evidence| <= 2, virtual evidence on 1-2 variables; "
                    "VariableElimination cross-check"),
        Group("mn", gen_mn, check_model, nontrivial, seed_fanout=fan, engine="E3",
              bound="MarkovNetworks on every connected graph <= 4 nodes x 2 (3) draws x factor layouts {pairwise on all edges + some unary, one factor per "
                    "maximal clique}, cards in {1,2,3}, str/int/mixed/permuted state names, str and int node names; same checks; "
                    "no virtual evidence (the argument is ignored for undirected models)"),
        Group("mn_sparse", gen_mn_sparse, check_model, nontrivial, seed_fanout=fan, engine="E3",
              bound="same graphs, pairwise factors on a random subset of the edges + unary factors (cliques that get no factor mentioning one of their variables)"),
        Group("mn_chain", gen_mn_chain, check_model, nontrivial, seed_fanout=fan, engine="E3",
              bound="chains of 6, 7, 8 binary variables (integer labels ascending / descending, string labels; thorough: shuffled orders): clique "
                    "trees that are paths of 5..7 cliques; same checks"),
        Group("mn_equal", gen_mn_equal, check_model, nontrivial, seed_fanout=min(fan, 4), engine="E3",
              bound="same graphs, one factor present two or three times (equal scope and values)"),
        Group("mn_heuristics", gen_heur, check_model, nontrivial, seed_fanout=fan, engine="E3",
              bound="all non-chordal connected graphs on 4 nodes and 6 (30) seeded ones on 5 nodes, triangulate(H1..H6, inplace) then the same checks; "
                    "4 of 6 graphs with int state labels"),
        Group("fg", gen_fg, check_model, nontrivial, seed_fanout=fan, engine="E3",
              bound="FactorGraphs derived from every connected graph <= 4 nodes (unary+pairwise, maximal-clique factors; thorough: 1/3 sparse); same checks, "
                    "without the VariableElimination cross-check"),
        Group("fg_ve", gen_fg_ve, check_model, nontrivial, seed_fanout=1, engine="E3",
              bound="a handful of the FactorGraphs, with the VariableElimination cross-check"),
        Group("jt", gen_jt, check_model, nontrivial, seed_fanout=fan, engine="E3",
              bound="80 (240) seeded JunctionTrees given directly: 1-4 cliques of 1-4 variables with the running-intersection property, "
                    "factor scope order != clique order; same checks"),
    ]
