"""C06 bounded groups (E3): parameter learning of the real pgmpy estimators vs. closed forms on naive counts.

Oracle side (independent of pgmpy): rows are counted in plain Python into a dict (child state, parent configuration by
NAME) -> Fraction (weights optional); expected CPDs are exact Fractions:

  MLE      count(child, parents) / count(parents); uniform where count(parents) == 0
  Bayesian (count + pseudo) / (count(parents) + sum_k pseudo), pseudo = 1 (K2), ess/(r q) (BDeu), given (dirichlet)
  fit_update(new, n_prev) = Bayesian with pseudo = old_cpd(child | parents) * n_prev, looked up BY PARENT NAME
  EM: observed-data log-likelihood sum_rows log sum_latent prod_v P(v | pa(v)) read off the returned CPDs

CPDs returned by pgmpy are read by named assignment (cpd.variables / cpd.state_names / cpd.values only), so any
mis-alignment of states or parent configurations shows up regardless of the evidence order pgmpy chooses.
"""
from __future__ import annotations

import itertools
import math
from fractions import Fraction

from vf.core import Group
from vf.bounded import oracles as O

COLS = ["zed", "alpha", "Mu", "b2"]      # column order != sorted order; upper case sorts first
DEDICATED = ("fit_update:parent-order", "isolated-nodes", "pandas-str-dtype", "max_iter-0")


def _quiet():
    import logging

    logging.getLogger("pgmpy").setLevel(logging.ERROR)


class Fails:
    """collects failures of one case; result() prefers a failure that is not one of the dedicated finding classes."""

    def __init__(self):
        self.items = []

    def add(self, key, what):
        if len(self.items) < 50:
            self.items.append({"key": key, "what": what})

    def result(self):
        for f in self.items:
            if not f["key"].endswith(DEDICATED):
                return f
        return self.items[0] if self.items else None


# ----------------------------------------------------------------------------- frames
def state_label(col, k, kind):
    if kind == "bigint":      # labels beyond 2**24: distinct as integers and as float64, not as float32
        return 1700000001 + k
    return k if kind == "int" else f"{col[0]}{'qrs'[k]}"


def make_df(case, rows=None, cols=None, weights="case"):
    """kinds: int (int64), str (object dtype), cat (Categorical, categories in REVERSE sorted order), pdstr (pandas default
    string dtype).  A `_weight` column is appended when the case has weights."""
    import pandas as pd

    rows = case["rows"] if rows is None else rows
    cols_all = case["cols"]
    data = {}
    for c in (cols or cols_all):
        i = cols_all.index(c)
        vals = [r[i] for r in rows]
        kind = case["kinds"][c]
        if kind in ("int", "bigint"):
            data[c] = pd.Series(vals, dtype="int64")
        elif kind == "str":
            data[c] = pd.Series(vals, dtype=object)
        elif kind == "pdstr":
            data[c] = pd.Series(vals)
        else:
            cats = case["declared"].get(c) or sorted(set(vals))
            data[c] = pd.Categorical(vals, categories=list(reversed(cats)))
    df = pd.DataFrame(data)
    w = case.get("weights") if weights == "case" else weights
    if w is not None:
        df["_weight"] = [float(Fraction(x)) for x in w]
    return df


def states_of(case):
    out = {}
    for i, c in enumerate(case["cols"]):
        out[c] = list(case["declared"][c]) if c in case["declared"] else sorted({r[i] for r in case["rows"]})
    return out


def counts(case, states, v, ps, rows=None, weights=None):
    """{parent configuration (tuple in ps order): [count of each declared state of v]} over ALL configurations."""
    cols = case["cols"]
    rows = case["rows"] if rows is None else rows
    vi, pi = cols.index(v), [cols.index(p) for p in ps]
    N = {c: {s: Fraction(0) for s in states[v]} for c in itertools.product(*[states[p] for p in ps])}
    for k, r in enumerate(rows):
        N[tuple(r[i] for i in pi)][r[vi]] += Fraction(weights[k]) if weights is not None else 1
    return {c: [N[c][s] for s in states[v]] for c in N}


def expected_cpd(N, pseudo=None):
    """N: cfg -> [counts]; pseudo: None (MLE), number, or cfg -> [pseudo counts].  Returns cfg -> [Fractions]."""
    out = {}
    for cfg, col in N.items():
        r = len(col)
        if pseudo is None:
            tot = sum(col)
            out[cfg] = [n / tot for n in col] if tot != 0 else [Fraction(1, r)] * r
        else:
            ps = pseudo[cfg] if isinstance(pseudo, dict) else [pseudo] * r
            tot = sum(col) + sum(ps)
            out[cfg] = [(n + a) / tot for n, a in zip(col, ps)]
    return out


def cpd_lookup(cpd, v, ps, states):
    """pgmpy CPD -> {cfg (tuple in ps order): [P(state | cfg) for the declared states of v]} via names only."""
    vars_ = list(cpd.variables)
    idx = {x: {s: k for k, s in enumerate(cpd.state_names[x])} for x in vars_}
    out = {}
    for cfg in itertools.product(*[states[p] for p in ps]):
        asg = dict(zip(ps, cfg))
        col = []
        for s in states[v]:
            asg[v] = s
            col.append(float(cpd.values[tuple(idx[x][asg[x]] for x in vars_)]))
        out[cfg] = col
    return out


def compare_cpd(cpd, v, ps, states, want, tol=1e-9):
    """None or a description of the first difference (structure first, then numbers)."""
    if cpd is None:
        return "no CPD returned"
    if cpd.variable != v or list(cpd.variables)[0] != v:
        return f"CPD is for {cpd.variable!r}"
    if set(list(cpd.variables)[1:]) != set(ps) or len(cpd.variables) != len(ps) + 1:
        return f"CPD evidence {list(cpd.variables)[1:]} != parents {ps}"
    for x in [v] + list(ps):
        if list(cpd.state_names[x]) != list(states[x]):
            return f"state names of {x!r} are {cpd.state_names[x]}, declared {states[x]}"
    if [int(c) for c in cpd.cardinality] != [len(states[x]) for x in cpd.variables]:
        return f"cardinality {list(cpd.cardinality)}"
    got = cpd_lookup(cpd, v, ps, states)
    for cfg, col in want.items():
        for k, p in enumerate(col):
            if not abs(got[cfg][k] - float(p)) <= tol:
                return f"P({v}={states[v][k]!r} | {dict(zip(ps, cfg))}) = {got[cfg][k]!r}, expected {p} = {float(p)!r}"
    return None


def seeded_frame(rng, ncols, lo=4, hi=30, weights=None, kinds=("int", "str", "cat")):
    cols = COLS[:ncols]
    knd, declared, gen_states = {}, {}, {}
    for c in cols:
        kind = rng.choice(kinds)
        if kind == "int" and rng.random() < 0.2:
            kind = "bigint"
        card = rng.choice((1, 2, 2, 2, 3, 3))
        knd[c] = kind
        sts = [state_label(c, k, kind) for k in range(3)]
        gen_states[c] = sts[:card]
        mode = rng.choice(("none", "same", "extra", "extra"))
        if mode == "same":
            declared[c] = sts[:card]
        elif mode == "extra":
            declared[c] = sts[:min(3, card + 1)] if rng.random() < 0.6 else list(reversed(sts[:min(3, card + 1)]))
    n = rng.randint(lo, hi)
    protos = [[rng.choice(gen_states[c]) for c in cols] for _ in range(rng.randint(1, 5))]
    rows = []
    for _ in range(n):
        r = list(rng.choice(protos))
        if rng.random() < 0.4:
            j = rng.randrange(ncols)
            r[j] = rng.choice(gen_states[cols[j]])
        rows.append(r)
    w = None
    if weights if weights is not None else rng.random() < 0.3:
        w = [rng.choice(("1", "2", "1/2", "3/2", "0", "1/4", "5")) for _ in rows]
    return {"cols": cols, "kinds": knd, "declared": declared, "rows": rows, "weights": w, "seed": rng.randrange(10 ** 6)}


def tiny_frames():
    """every multiset of <= 3 rows over three binary int columns; declared states rotate none / [0,1] / one column [0,1,2]."""
    space = list(itertools.product((0, 1), repeat=3))
    idx = 0
    for n in (1, 2, 3):
        for combo in itertools.combinations_with_replacement(space, n):
            idx += 1
            mode = idx % 3
            declared = {}
            if mode == 1:
                declared = {c: [0, 1] for c in COLS[:3]}
            elif mode == 2:
                declared = {COLS[idx % 3]: [0, 1, 2], COLS[(idx + 1) % 3]: [1, 0]}
            yield {"cols": COLS[:3], "kinds": {c: "int" for c in COLS[:3]}, "declared": declared,
                   "rows": [list(r) for r in combo], "weights": None, "seed": idx}


# ----------------------------------------------------------------------------- group: estimators / model.fit on all DAGs
def gen_fit(tier, seed):
    for i, fr in enumerate(tiny_frames()):
        if tier != "quick" or i % 3 == 0:
            fr["dags"] = "all"
            yield fr
    rng = O.mk_rng(seed, "c06-fit")
    for k in range(44 if tier == "quick" else 400):
        four = tier != "quick" and k % 5 == 0
        fr = seeded_frame(rng, 4 if four else rng.choice((2, 3, 3, 3)))
        fr["dags"] = 12 if four else "all"
        if k % 22 == 5:
            fr["n_jobs"] = 2
        yield fr


PRIORS = ("K2", "BDeu", "dirichlet-scalar", "dirichlet-table", "BDeu-dict")


def prior_setup(kind, rng, cols, edges, states):
    """-> (fit kwargs, {node: pseudo spec for the oracle (number or cfg->list, cfg in sorted(parents) order)})."""
    kw, ps = {}, {}
    par = {v: sorted(O.parents_of(edges, v)) for v in cols}
    q = {v: math.prod(len(states[p]) for p in par[v]) for v in cols}
    if kind == "K2":
        kw = {"prior_type": "K2"}
        ps = {v: Fraction(1) for v in cols}
    elif kind == "BDeu":
        ess = rng.choice((1, 5, 10, 3))
        kw = {"prior_type": "BDeu", "equivalent_sample_size": ess}
        ps = {v: Fraction(ess, len(states[v]) * q[v]) for v in cols}
    elif kind == "BDeu-dict":
        ess = {v: rng.choice((1, 2, 7)) for v in cols}
        kw = {"prior_type": "BDeu", "equivalent_sample_size": dict(ess)}
        ps = {v: Fraction(ess[v], len(states[v]) * q[v]) for v in cols}
    elif kind == "dirichlet-scalar":
        a = rng.choice((1, 2, 0.5))
        kw = {"prior_type": "dirichlet", "pseudo_counts": a}
        ps = {v: Fraction(a) for v in cols}
    else:
        tab, ps = {}, {}
        for v in cols:
            cfgs = list(itertools.product(*[states[p] for p in par[v]]))
            t = {c: [Fraction(rng.choice((1, 2, 3, 5)), rng.choice((1, 2))) for _ in states[v]] for c in cfgs}
            ps[v] = t
            tab[v] = [[float(t[c][k]) for c in cfgs] for k in range(len(states[v]))]
        kw = {"prior_type": "dirichlet", "pseudo_counts": tab}
    return kw, ps


def build_bn(cols, edges, rng=None):
    from pgmpy.models import BayesianNetwork

    nodes, ed = list(cols), [tuple(e) for e in edges]
    if rng is not None:
        rng.shuffle(nodes)
        rng.shuffle(ed)
    m = BayesianNetwork()
    m.add_nodes_from(nodes)
    m.add_edges_from(ed)
    return m


class RealCodeError(Exception):
    pass


def _fit(m, df, n_jobs, **kw):
    """model.fit; an exception coming back from a joblib worker process (n_jobs=2) has no pgmpy frame in its traceback, so it is
    re-raised from a pgmpy-free frame with the remote traceback text attached and turned into a violation by check_fit."""
    if n_jobs == 1:
        return m.fit(df, n_jobs=1, **kw)
    try:
        return m.fit(df, n_jobs=n_jobs, **kw)
    except Exception as e:  # noqa
        raise RealCodeError(f"{type(e).__name__}: {e}") from e


def check_fit(case):
    try:
        return _check_fit(case)
    except RealCodeError as e:
        return {"key": "fit:n_jobs-2:raised", "what": f"model.fit(n_jobs=2) raised {e}"}


def _check_fit(case):
    _quiet()
    import networkx as nx
    from pgmpy.estimators import BayesianEstimator, MaximumLikelihoodEstimator

    F = Fails()
    cols = case["cols"]
    rng = O.mk_rng(case["seed"], "fit")
    states = states_of(case)
    w = case.get("weights")
    wkw = {"weighted": True} if w is not None else {}
    rows2 = list(range(len(case["rows"])))
    rng.shuffle(rows2)
    # two views of the same data: as given / rows shuffled + columns reversed
    df_a = make_df(case)
    df_b = make_df(case, rows=[case["rows"][i] for i in rows2], cols=list(reversed(cols)),
                   weights=[w[i] for i in rows2] if w is not None else None)
    dags = list(O.all_dags(len(cols), cols))
    if case["dags"] != "all":
        dags = rng.sample(dags, case["dags"])
    sn_kw = {"state_names": states}
    for i, edges in enumerate(dags):
        df = df_b if i % 2 else df_a
        par = {v: sorted(O.parents_of(edges, v)) for v in cols}
        N = {v: counts(case, states, v, par[v], weights=w) for v in cols}
        want_mle = {v: expected_cpd(N[v]) for v in cols}
        n_jobs = 2 if (case.get("n_jobs") == 2 and i < 2) else 1
        # --- MLE: estimate_cpd per node, get_parameters, model.fit end-to-end
        m = build_bn(cols, edges, rng)
        est = MaximumLikelihoodEstimator(m, df, **sn_kw)
        for v in cols:
            d = compare_cpd(est.estimate_cpd(v, **wkw), v, par[v], states, want_mle[v])
            if d:
                F.add("MLE.estimate_cpd:value", f"edges {edges} node {v!r}: {d}")
        got = _fit(m, df, n_jobs, **sn_kw, **wkw)
        fitted = got if got is not None else m
        if len(fitted.get_cpds()) != len(cols):
            F.add("fit:cpd-count", f"edges {edges}: {len(fitted.get_cpds())} CPDs for {len(cols)} nodes")
        for v in cols:
            d = compare_cpd(fitted.get_cpds(v), v, par[v], states, want_mle[v])
            if d:
                F.add("fit:MLE", f"edges {edges} node {v!r} (n_jobs={n_jobs}): {d}")
        try:
            ok = fitted.check_model()
        except ValueError as e:
            ok = e
        if ok is not True:
            F.add("fit:check_model", f"edges {edges}: fitted model does not validate: {ok}")
        # --- Bayesian: one prior type per DAG in rotation
        kind = PRIORS[(i + case["seed"]) % len(PRIORS)]
        kw, pseudo = prior_setup(kind, rng, cols, edges, states)
        want_b = {v: expected_cpd(N[v], pseudo[v]) for v in cols}
        m2 = build_bn(cols, edges, rng)
        be = BayesianEstimator(m2, df, **sn_kw)
        isolated = [v for v in cols if not any(v in e for e in edges)]
        for v in cols:
            kw1 = dict(kw)
            for k in ("equivalent_sample_size", "pseudo_counts"):
                if isinstance(kw1.get(k), dict):
                    kw1[k] = kw1[k][v]
            try:
                cpd = be.estimate_cpd(v, **kw1, **wkw)
            except nx.NetworkXError as e:
                if v not in isolated:
                    raise
                F.add("BayesianEstimator.estimate_cpd:isolated-nodes", f"edges {edges} on nodes {cols}: estimate_cpd({v!r}) raises {type(e).__name__}: {e}")
                continue
            d = compare_cpd(cpd, v, par[v], states, want_b[v])
            if d:
                F.add(f"BayesianEstimator.estimate_cpd:{kind}", f"edges {edges} node {v!r} {kw1}: {d}")
        _fit(m2, df, n_jobs, estimator=BayesianEstimator, **sn_kw, **kw, **wkw)
        dropped = [v for v in isolated if m2.get_cpds(v) is None]
        if dropped:
            F.add("fit:Bayesian:isolated-nodes", f"edges {edges} on nodes {cols}: fit(estimator=BayesianEstimator) leaves {dropped} without CPD")
        for v in cols:
            d = None if v in dropped else compare_cpd(m2.get_cpds(v), v, par[v], states, want_b[v])
            if d:
                F.add(f"fit:Bayesian:{kind}", f"edges {edges} node {v!r} {kw}: {d}")
        try:
            ok = True if dropped else m2.check_model()
        except ValueError as e:
            ok = e
        if ok is not True:
            F.add("fit:check_model", f"edges {edges} ({kind}): fitted model does not validate: {ok}")
        # --- explicit metamorphic comparison on the other view of the data (first DAGs only; the oracle is order-free anyway)
        if i < 3:
            other = df_a if i % 2 else df_b
            m3 = build_bn(cols, [e for e in reversed(edges)], None)
            m3.fit(other, **sn_kw, **wkw)
            for v in cols:
                d1, d2 = (compare_cpd(x.get_cpds(v), v, par[v], states, want_mle[v]) for x in (m3, fitted))
                if d1 and not d2:
                    F.add("fit:row-column-edge-order", f"edges {edges} node {v!r}: CPD changes when rows are shuffled, columns reversed and the edge list reversed: {d1}")
    return F.result()


# ----------------------------------------------------------------------------- group: DAG.fit / estimators given a plain DAG
def gen_dagfit(tier, seed):
    rng = O.mk_rng(seed, "c06-dagfit")
    for k in range(2 if tier == "quick" else 8):
        fr = seeded_frame(rng, 3, lo=6, hi=15, weights=False)
        for n in (1, 2, 3):
            for edges in O.all_dags(n, fr["cols"][:n]):
                c = dict(fr)
                c["cols"] = fr["cols"][:n]
                c["rows"] = [r[:n] for r in fr["rows"]]
                c["kinds"] = {x: fr["kinds"][x] for x in c["cols"]}
                c["declared"] = {x: s for x, s in fr["declared"].items() if x in c["cols"]}
                c["edges"] = edges
                yield c
    # default pandas string dtype (what pd.DataFrame({"a": ["x", "y"]}) gives)
    for k in range(2):
        fr = seeded_frame(rng, 2, lo=5, hi=8, weights=False, kinds=("pdstr",))
        fr["declared"] = {}
        fr["edges"] = [[fr["cols"][0], fr["cols"][1]]]
        yield fr


def check_dagfit(case):
    """pgmpy.base.DAG (not BayesianNetwork) as the model: DAG.fit returns a network with one correct CPD per node."""
    _quiet()
    from pgmpy.base import DAG
    from pgmpy.estimators import BayesianEstimator, MaximumLikelihoodEstimator

    F = Fails()
    cols, edges = case["cols"], case["edges"]
    states = states_of(case)
    try:
        df = make_df(case)
        g = DAG()
        g.add_nodes_from(cols)
        g.add_edges_from([tuple(e) for e in edges])
        isolated = [v for v in cols if not any(v in e for e in edges)]
        par = {v: sorted(O.parents_of(edges, v)) for v in cols}
        N = {v: counts(case, states, v, par[v]) for v in cols}
        variants = [("DAG.fit", lambda: g.fit(df, state_names=states).get_cpds(), None),
                    ("DAG.fit(BayesianEstimator)", lambda: g.fit(df, estimator=BayesianEstimator, state_names=states, prior_type="K2").get_cpds(), Fraction(1)),
                    ("MaximumLikelihoodEstimator(DAG)", lambda: MaximumLikelihoodEstimator(g, df, state_names=states).get_parameters(), None),
                    ("BayesianEstimator(DAG)", lambda: BayesianEstimator(g, df, state_names=states).get_parameters(prior_type="K2"), Fraction(1))]
        for name, run, pseudo in variants:
            cpds = {c.variable: c for c in run()}
            missing = [v for v in cols if v not in cpds]
            if missing:
                key = f"{name}:isolated-nodes" if set(missing) <= set(isolated) else f"{name}:missing-cpd"
                F.add(key, f"edges {edges} on nodes {cols}: no CPD for {missing}")
            for v in cols:
                if v in cpds:
                    d = compare_cpd(cpds[v], v, par[v], states, expected_cpd(N[v], pseudo))
                    if d:
                        F.add(f"{name}:value", f"edges {edges} node {v!r}: {d}")
    except ValueError as e:
        if "Couldn't infer datatype" in str(e) and "pdstr" in case["kinds"].values():
            return {"key": "fit:pandas-str-dtype", "what": f"data frame with pandas' default string dtype is rejected: {e}"}
        raise
    return F.result()


# ----------------------------------------------------------------------------- group: fit_update
def gen_fit_update(tier, seed):
    rng = O.mk_rng(seed, "c06-fu")
    k = 0
    for n in (1, 2, 3, 3, 3, 4):
        names = COLS[:n]
        dl = list(O.all_dags(n, names))
        if n == 4:
            dl = rng.sample(dl, 25 if tier == "quick" else 150)
        for edges in dl:
            k += 1
            style = ("int", "str", "perm")[k % 3]
            cards = {v: rng.choice((2, 2, 3)) for v in names}
            spec = O.random_bn_spec(rng, names, edges, cards=cards, style=style, zeros=(k % 4 == 0), parent_shuffle=False)
            for v in names:   # evidence order: sorted for half of the models, reverse-sorted / shuffled otherwise
                ps = sorted(spec["cpd"][v]["parents"])
                if k % 2:
                    ps = list(reversed(ps)) if k % 4 == 1 else rng.sample(ps, len(ps))
                ncol = math.prod(cards[p] for p in ps)
                colv = [O.random_column(rng, cards[v], k % 4 == 0) for _ in range(ncol)]
                spec["cpd"][v] = {"parents": ps, "table": [[colv[j][i] for j in range(ncol)] for i in range(cards[v])]}
            nrows = rng.randint(1, 12)
            rows = [[rng.choice(spec["states"][v][: rng.choice((1, 2, 3))]) for v in names] for _ in range(nrows)]
            colorder = rng.sample(names, n)
            yield {"spec": O.spec_to_json(spec), "rows": rows, "colorder": colorder, "n_prev": rng.choice((None, 1, 7, 100)), "style": style}


def check_fit_update(case):
    _quiet()
    import pandas as pd

    spec = O.spec_from_json(case["spec"])
    names, edges, states = spec["nodes"], spec["edges"], spec["states"]
    m = O.make_bn(spec)
    fr = {"cols": names, "rows": case["rows"]}
    data = {}
    for c in case["colorder"]:
        vals = [r[names.index(c)] for r in case["rows"]]
        data[c] = pd.Series(vals, dtype=object if case["style"] == "str" else "int64")
    df = pd.DataFrame(data)
    n_prev = case["n_prev"]
    m.fit_update(df, n_prev_samples=n_prev)
    npv = len(case["rows"]) if n_prev is None else n_prev
    F = Fails()
    for v in names:
        old = spec["cpd"][v]
        ps = sorted(old["parents"])
        N = counts(fr, states, v, ps)
        cfgs_old = list(itertools.product(*[states[p] for p in old["parents"]]))
        by_name, as_laid_out = {}, {}
        for j, cfg in enumerate(itertools.product(*[states[p] for p in ps])):
            asg = dict(zip(ps, cfg))
            jo = cfgs_old.index(tuple(asg[p] for p in old["parents"]))
            by_name[cfg] = [old["table"][k][jo] * npv for k in range(len(states[v]))]
            as_laid_out[cfg] = [old["table"][k][j] * npv for k in range(len(states[v]))]   # column j taken positionally
        d = compare_cpd(m.get_cpds(v), v, ps, states, expected_cpd(N, by_name))
        if d and not any(v in e for e in edges) and compare_cpd(m.get_cpds(v), v, ps, states, {(): [old["table"][k][0] for k in range(len(states[v]))]}) is None:
            F.add("fit_update:isolated-nodes", f"node {v!r} has no edges; its CPD is not updated at all: {d}")
        elif d:
            positional = old["parents"] != ps and compare_cpd(m.get_cpds(v), v, ps, states, expected_cpd(N, as_laid_out)) is None
            F.add("fit_update:parent-order" if positional else "fit_update:value",
                  f"node {v!r}, previous CPD evidence order {old['parents']}, n_prev={npv}: {d}"
                  + (" (pseudo-counts were taken column-by-column from the old table although the estimator uses sorted parents)" if positional else ""))
    try:
        ok = m.check_model()
    except ValueError as e:
        ok = e
    if ok is not True:
        F.add("fit_update:check_model", f"updated model does not validate: {ok}")
    return F.result()


# ----------------------------------------------------------------------------- group: EM
EM_TEMPLATES = [   # edges over observed x,y,(z) and the latent "Lat"
    (2, [["Lat", "x"], ["Lat", "y"]]),
    (3, [["Lat", "x"], ["Lat", "y"], ["Lat", "z"]]),
    (2, [["x", "Lat"], ["Lat", "y"]]),
    (2, [["Lat", "x"], ["Lat", "y"], ["x", "y"]]),
    (3, [["x", "y"], ["Lat", "y"], ["Lat", "z"]]),
    (3, [["z", "Lat"], ["x", "Lat"], ["Lat", "y"]]),
]


def gen_em(tier, seed):
    rng = O.mk_rng(seed, "c06-em")
    # (a) no latent variable: EM == MLE
    for k in range(6 if tier == "quick" else 30):
        fr = seeded_frame(rng, rng.choice((2, 3)), lo=4, hi=12, weights=False)
        dl = list(O.all_dags(len(fr["cols"]), fr["cols"]))
        fr.update(mode="nolatent", edges=rng.choice(dl), max_iter=rng.choice((1, 2)))
        yield fr
    # (b) one latent variable
    for k in range(26 if tier == "quick" else 150):
        nobs, tmpl = EM_TEMPLATES[k % len(EM_TEMPLATES)]
        fr = seeded_frame(rng, nobs, lo=6, hi=16, weights=False, kinds=("int", "int", "str"))
        ren = dict(zip(["x", "y", "z"], fr["cols"]))
        edges = [[ren.get(a, a), ren.get(b, b)] for a, b in tmpl]
        lcard = 3 if k % 5 == 4 else 2
        states = states_of(fr)
        states["Lat"] = list(range(lcard))
        mode = "init" if k % 3 else "seed"
        init = {}
        if mode == "init":
            for v in ["Lat"] + O.children_of(edges, "Lat"):
                ps = O.parents_of(edges, v)
                rng.shuffle(ps)
                ncol = math.prod(len(states[p]) for p in ps)
                colv = [O.random_column(rng, len(states[v])) for _ in range(ncol)]
                init[v] = {"parents": ps, "table": [[str(colv[j][i]) for j in range(ncol)] for i in range(len(states[v]))]}
        fr.update(mode=mode, edges=edges, latent_card=lcard, init=init, em_seed=rng.randrange(1000), K=3 if tier == "quick" else 5,
                  iter0=(k % 12 == 1))   # max_iter=0 itself is called on every 12th model only (input-independent behaviour)
        yield fr


def loglik(case, states, edges, P):
    """observed-data log-likelihood; P(v, state, {parent: state}) -> probability."""
    cols = case["cols"]
    nodes = cols + (["Lat"] if any("Lat" in e for e in edges) else [])
    par = {v: O.parents_of(edges, v) for v in nodes}
    tot = 0.0
    for r in case["rows"]:
        asg = dict(zip(cols, r))
        s = 0.0
        for l in (states["Lat"] if "Lat" in nodes else [None]):
            asg["Lat"] = l
            p = 1.0
            for v in nodes:
                p *= P(v, asg[v], {q: asg[q] for q in par[v]})
            s += p
        tot += math.log(s) if s > 0 else float("-inf")
    return tot


def cpd_prob(cpds):
    by = {c.variable: c for c in cpds}

    def P(v, s, pa):
        c = by[v]
        asg = dict(pa)
        asg[v] = s
        return float(c.values[tuple(list(c.state_names[x]).index(asg[x]) for x in c.variables)])
    return P


def check_em(case):
    _quiet()
    from pgmpy.estimators import ExpectationMaximization
    from pgmpy.factors.discrete import TabularCPD
    from pgmpy.models import BayesianNetwork

    cols, edges = case["cols"], case["edges"]
    states = states_of(case)
    df = make_df(case)
    F = Fails()
    if case["mode"] == "nolatent":
        m = build_bn(cols, edges)
        cpds = ExpectationMaximization(m, df, state_names=states).get_parameters(max_iter=case["max_iter"], show_progress=False)
        by = {c.variable: c for c in cpds}
        if sorted(by) != sorted(cols) or len(cpds) != len(cols):
            return {"key": "EM:no-latent:cpd-set", "what": f"CPDs for {[c.variable for c in cpds]}, nodes {cols}"}
        for v in cols:
            ps = sorted(O.parents_of(edges, v))
            d = compare_cpd(by[v], v, ps, states, expected_cpd(counts(case, states, v, ps)))
            if d:
                return {"key": "EM:no-latent:not-MLE", "what": f"edges {edges} node {v!r}: {d}"}
        return None
    lcard = case["latent_card"]
    states["Lat"] = list(range(lcard))
    nodes = cols + ["Lat"]

    def run(k):
        m = BayesianNetwork([tuple(e) for e in edges], latents={"Lat"})
        init = {}
        for v, c in case["init"].items():
            ps = c["parents"]
            init[v] = TabularCPD(v, len(states[v]), [[float(Fraction(x)) for x in row] for row in c["table"]], evidence=ps or None,
                                 evidence_card=[len(states[p]) for p in ps] or None, state_names={x: list(states[x]) for x in [v] + ps})
        em = ExpectationMaximization(m, df, state_names={c: states[c] for c in cols})
        return em.get_parameters(latent_card={"Lat": lcard}, max_iter=k, seed=case["em_seed"], init_cpds=init, show_progress=False)

    lls = []
    if case["mode"] == "init":
        # iteration 0: init CPDs for the latent part, maximum likelihood for the rest
        def P0(v, s, pa):
            if v in case["init"]:
                c = case["init"][v]
                j = 0
                for p in c["parents"]:
                    j = j * len(states[p]) + states[p].index(pa[p])
                return float(Fraction(c["table"][states[v].index(s)][j]))
            ps = sorted(pa)
            return float(expected_cpd(counts(case, states, v, ps))[tuple(pa[p] for p in ps)][states[v].index(s)])
        lls.append(loglik(case, states, edges, P0))
        try:
            c0 = run(0) if case.get("iter0") else None
            if c0 is None:
                raise StopIteration
            l0 = loglik(case, states, edges, cpd_prob(c0))
            if not O.close(l0, lls[0], 1e-9):
                F.add("EM:max_iter-0-value", f"max_iter=0 returns parameters with log-likelihood {l0!r}, initial parameters have {lls[0]!r}")
        except StopIteration:
            pass
        except UnboundLocalError as e:
            F.add("EM.get_parameters:max_iter-0", f"max_iter=0 does not return the initial parameters: {type(e).__name__}: {e}")
    for k in range(1, case["K"] + 1):
        cpds = run(k)
        if sorted(c.variable for c in cpds) != sorted(nodes):
            F.add("EM:cpd-set", f"max_iter={k}: CPDs for {[c.variable for c in cpds]}, nodes {nodes}")
            break
        for c in cpds:
            ps = list(c.variables)[1:]
            if set(ps) != set(O.parents_of(edges, c.variable)) or any(list(c.state_names[x]) != list(states[x]) for x in c.variables):
                F.add("EM:cpd-structure", f"max_iter={k}: CPD of {c.variable!r} has evidence {ps} / state names {c.state_names}")
            colsum = c.values.reshape(c.values.shape[0], -1).sum(axis=0)
            if any(abs(float(x) - 1.0) > 1e-9 for x in colsum):
                F.add("EM:cpd-not-normalised", f"max_iter={k}: CPD of {c.variable!r} columns sum to {colsum}")
        lls.append(loglik(case, states, edges, cpd_prob(cpds)))
    for a in range(len(lls) - 1):
        if not lls[a + 1] >= lls[a] - 1e-9 * max(1.0, abs(lls[a])):
            off = 0 if case["mode"] == "init" else 1
            F.add("EM:likelihood-decreased", f"edges {edges} latent_card={lcard} mode={case['mode']}: observed-data log-likelihood by iteration "
                                             f"(first entry = iteration {off}): {lls}")
            break
    return F.result()


def nontrivial(case):
    if "spec" in case:
        return len(case["spec"]["edges"]) >= 1 and len(case["rows"]) >= 2
    return len(case["rows"]) >= 2 and len({tuple(r) for r in case["rows"]}) >= 2


def groups(tier):
    return [
        Group("fit", gen_fit, check_fit, nontrivial, engine="E3",
              bound="frames: every 3rd (thorough: every) multiset of <= 3 rows over 3 binary columns + 44 (400) seeded frames (2-3 columns, thorough "
                    "1/5 with 4; <= 30 rows; cards 1..3; int / object / categorical columns; declared extra and re-ordered states; 30% with a "
                    "_weight column incl. zero weights) x ALL DAGs on the columns (12 sampled for 4 columns), node and edge insertion order "
                    "shuffled, alternately on the frame as given and on rows-shuffled/columns-reversed: MLE + one of K2/BDeu/BDeu-per-node/"
                    "dirichlet scalar/dirichlet table per DAG; estimate_cpd per node, model.fit end-to-end, check_model; n_jobs=2 on 2 frames"),
        Group("dag_fit", gen_dagfit, check_dagfit, nontrivial, engine="E3",
              bound="2 (8) seeded frames x all DAGs on 1..3 nodes given as pgmpy.base.DAG: DAG.fit, DAG.fit(BayesianEstimator), both estimators "
                    "constructed on the DAG; 2 frames with pandas' default string dtype"),
        Group("fit_update", gen_fit_update, check_fit_update, nontrivial, engine="E3",
              bound="all DAGs <= 3 nodes (3-node DAGs three times) + 25 (150) four-node DAGs; cards 2..3; int / str / permuted-int state names; "
                    "previous CPDs with evidence order sorted (half) / reverse-sorted / shuffled, optional zeros; 1-12 new rows; n_prev in "
                    "{None,1,7,100}; data columns shuffled"),
        Group("em", gen_em, check_em, nontrivial, engine="E3",
              bound="6 (30) latent-free models: EM == MLE; 26 (150) models from 6 templates with one latent variable (card 2, every 5th card 3), "
                    "6-16 rows, init_cpds (2/3) or seeded random init (1/3): log-likelihood of iteration 0 (oracle, from init_cpds + MLE) and of get_parameters(max_iter=1..3 (5)) non-decreasing, tolerance 1e-9; "
                    "get_parameters(max_iter=0) itself is called on every 12th model"),
    ]
