"""C18 bounded groups (E3): independence reasoning - I-equivalence, semi-graphoid closure, numeric
independence checks on explicit joint tables, (minimal) I-maps.

Oracles (independent of pgmpy): O.skeleton / O.vstructures / O.dconnected for graphs; an own semi-graphoid
saturation (`saturate`) for closures; exact Fraction joint tables (`Table`) for numeric independence.
"""
from __future__ import annotations

import itertools
from fractions import Fraction

from vf.core import Group
from vf.bounded import oracles as O


def _subsets(xs, lo=0, hi=None):
    xs = list(xs)
    hi = len(xs) if hi is None else min(hi, len(xs))
    for r in range(lo, hi + 1):
        for c in itertools.combinations(xs, r):
            yield list(c)


# ============================================================================= 1. I-equivalence
NAMES4 = ["alpha", "B", "c3", "delta"]
_SIG_CACHE = {}


def _dsep_signature(nodes, edges):
    """set of all d-separation statements (x, y | Z) of the DAG by trail enumeration."""
    out = set()
    for x, y in itertools.combinations(nodes, 2):
        rest = [v for v in nodes if v not in (x, y)]
        for Z in _subsets(rest):
            if not O.dconnected(nodes, edges, x, y, set(Z)):
                out.add((x, y, frozenset(Z)))
    return frozenset(out)


def _dag_table(n):
    """all DAGs on NAMES4[:n] with (skeleton, v-structures, d-separation signature)."""
    if n not in _SIG_CACHE:
        names = NAMES4[:n]
        rows = []
        for edges in O.all_dags(n, names):
            sk, vs = O.skeleton(edges), O.vstructures(edges)
            sig = _dsep_signature(names, edges)
            rows.append((edges, sk, vs, sig))
        # the two textbook characterisations must agree (checks the oracle itself; a failure is a checker fault)
        for a in rows:
            for b in rows:
                assert ((a[1] == b[1] and a[2] == b[2]) == (a[3] == b[3])), ("oracle self-check", a[0], b[0])
        _SIG_CACHE[n] = rows
    return _SIG_CACHE[n]


def gen_ieq(tier, seed):
    for n in (1, 2, 3, 4):
        names = NAMES4[:n]
        for i, edges in enumerate(O.all_dags(n, names)):
            yield {"mode": "all", "n": n, "nodes": names, "A": edges}
    rng = O.mk_rng(seed, "c18-ieq")
    for k in range(40 if tier == "quick" else 600):
        n = rng.choice((5, 5, 6))
        names = O.node_names(n, "long")
        A = O.random_dag(rng, n, rng.choice((0.3, 0.5, 0.7)), names)
        Bs = []
        for _ in range(12):
            order = names[:]
            rng.shuffle(order)
            pos = {v: i for i, v in enumerate(order)}
            Bs.append([[u, v] if pos[u] < pos[v] else [v, u] for u, v in A])  # same skeleton, other orientation
        # a few near misses: drop / add one edge
        if A:
            Bs.append(A[1:])
        Bs.append([e for e in A])
        yield {"mode": "pairs", "n": n, "nodes": names, "A": A, "Bs": Bs}


def _mk_dag(nodes, edges, cls=None):
    from pgmpy.base import DAG

    g = (cls or DAG)()
    g.add_nodes_from(nodes)
    g.add_edges_from([tuple(e) for e in edges])
    return g


def check_ieq(case):
    nodes, A = case["nodes"], case["A"]
    if case["mode"] == "all":
        rows = _dag_table(case["n"])
        others = [(r[0], r[1], r[2]) for r in rows]
    else:
        others = [(b, O.skeleton(b), O.vstructures(b)) for b in case["Bs"]]
    skA, vsA = O.skeleton(A), O.vstructures(A)
    gA = _mk_dag(nodes, A)
    # get_immoralities against the definition
    want_imm = {tuple(sorted(ab)) for ab, c in vsA}
    got_imm = gA.get_immoralities()
    if set(got_imm) != want_imm:
        return {"key": "get_immoralities:result", "what": f"edges {A}: got {sorted(got_imm)}, definition gives {sorted(want_imm)}"}
    if set(gA.edges()) != {tuple(e) for e in A}:
        return {"key": "get_immoralities:mutated-self", "what": "edges changed"}
    try:
        gA.is_iequivalent([tuple(e) for e in A])
        return {"key": "is_iequivalent:no-typeerror", "what": "a plain edge list was accepted as model"}
    except TypeError:
        pass
    from pgmpy.models import BayesianNetwork

    # the same graph built with another edge insertion order (parents of a collider then come in another order) is I-equivalent to itself
    gR = _mk_dag(nodes, list(reversed(A)))
    if gA.is_iequivalent(gR) is not True or gR.is_iequivalent(gA) is not True:
        return {"key": "is_iequivalent:false-negative", "what": f"A={A}: not reported I-equivalent to the same graph built in reversed edge order"}
    deferred = None  # the class seen on the unchanged tree is reported only if nothing else fails for this A
    for j, (B, skB, vsB) in enumerate(others):
        gB = _mk_dag(nodes, B, BayesianNetwork if j % 5 == 3 else None)
        want = skA == skB and vsA == vsB
        got = gA.is_iequivalent(gB)
        if got is not True and got is not False:
            return {"key": "is_iequivalent:not-bool", "what": f"returned {got!r}"}
        if got != want:
            if got:
                # class seen on the unchanged tree: skeleton equal, the same *unordered parent pairs* collide, but at different children
                same_pairs = skA == skB and {ab for ab, c in vsA} == {ab for ab, c in vsB}
                f = {"key": "is_iequivalent:false-positive" if same_pairs else "is_iequivalent:false-positive-other",
                     "what": f"A={A} B={B}: reported I-equivalent, but v-structures differ: {sorted(map(str, vsA ^ vsB))} "
                             f"(skeleton equal: {skA == skB})"}
                if same_pairs:
                    deferred = deferred or f
                    continue
                return f
            return {"key": "is_iequivalent:false-negative", "what": f"A={A} B={B}: same skeleton and v-structures but reported not equivalent"}
    return deferred


# ============================================================================= 2. semi-graphoid closure
UNIV4 = ["Xa", "yy", "W", "long_name"]
UNIV5 = UNIV4 + ["v5"]


def canon(x, y, z):
    x, y, z = frozenset(x), frozenset(y), frozenset(z)
    return (frozenset((x, y)), z)


def all_statements(universe):
    """every (X, Y, Z): X, Y non-empty, pairwise disjoint; one representative per symmetric pair."""
    seen, out = set(), []
    for assign in itertools.product((0, 1, 2, 3), repeat=len(universe)):
        X = [v for v, a in zip(universe, assign) if a == 1]
        Y = [v for v, a in zip(universe, assign) if a == 2]
        Z = [v for v, a in zip(universe, assign) if a == 3]
        if X and Y:
            c = canon(X, Y, Z)
            if c not in seen:
                seen.add(c)
                out.append([X, Y, Z])
    return out


def _oriented(s):
    pair, z = s
    a, b = tuple(pair) if len(pair) == 2 else (next(iter(pair)),) * 2
    return ((a, b, z), (b, a, z))


def _proper_nonempty_subsets(s):
    s = sorted(s)
    for r in range(1, len(s)):
        for c in itertools.combinations(s, r):
            yield frozenset(c)


def saturate(stmts, contraction="exact"):
    """least set containing stmts closed under symmetry (built into canon), decomposition, weak union and contraction.

    contraction = "exact":   X _|_ Y | Z  and  X _|_ W | Z u Y   =>  X _|_ Y u W | Z        (the axiom)
                  "nonempty-context": the axiom restricted to Z != {}                      (classification of misses only)
                  "loose":   additionally accepts Y, Z strict disjoint subsets of the second context (classification of
                             unsound answers only; this is *not* an axiom)."""
    S = set(stmts)
    while True:
        new = set()
        byX = {}
        for s in S:
            for X, Y, Z in _oriented(s):
                byX.setdefault(X, []).append((Y, Z))
                for Y1 in _proper_nonempty_subsets(Y):
                    new.add(canon(X, Y1, Z))  # decomposition
                    new.add(canon(X, Y1, Z | (Y - Y1)))  # weak union
        for X, lst in byX.items():
            for Y, Z in lst:
                for W, YZ in lst:
                    ok = YZ == (Y | Z)
                    if contraction == "nonempty-context":
                        ok = ok and len(Z) > 0
                    if contraction == "loose":
                        ok = ok or (Y < YZ and Z < YZ and Y.isdisjoint(Z))
                    if ok and W.isdisjoint(Y):
                        new.add(canon(X, Y | W, Z))  # contraction
        if new <= S:
            return S
        S |= new


def gen_closure(tier, seed):
    st4 = all_statements(UNIV4)
    for s in st4:
        yield {"universe": UNIV4, "stmts": [s], "form": 0}
    for i, (a, b) in enumerate(itertools.combinations(st4, 2)):
        yield {"universe": UNIV4, "stmts": [a, b], "form": i % 4}
    rng = O.mk_rng(seed, "c18-closure")
    st5 = all_statements(UNIV5)
    for k in range(60 if tier == "quick" else 1500):
        if rng.random() < 0.5:
            yield {"universe": UNIV4, "stmts": rng.sample(st4, rng.choice((3, 3, 4))), "form": k % 4}
        else:
            small = [s for s in st5 if len(s[0]) + len(s[1]) + len(s[2]) <= 4]
            yield {"universe": UNIV5, "stmts": rng.sample(small, rng.choice((2, 2, 3))), "form": k % 4}


def gen_entails(tier, seed):
    """quick: all singletons, one fifth of the pairs (rotating with the seed), all seeded sets; thorough: everything."""
    for i, c in enumerate(gen_closure(tier, seed)):
        if tier == "quick" and len(c["stmts"]) == 2 and (i + seed) % 5:
            continue
        yield c


def _mk_assertion_args(s, form):
    """the documented input forms: lists, bare strings for singletons, omitted empty context, swapped sides."""
    X, Y, Z = [list(e) for e in s]
    if form & 1:
        X, Y = Y, X
    if form & 2:
        X = X[0] if len(X) == 1 else X
        Y = Y[0] if len(Y) == 1 else tuple(Y)
    return [X, Y, Z] if Z or form == 1 else [X, Y]


def _mk_ind(stmts, form):
    from pgmpy.independencies import Independencies

    return Independencies(*[_mk_assertion_args(s, (form + i) % 4) for i, s in enumerate(stmts)])


def _canon_set(ind):
    return {canon(a.event1, a.event2, a.event3) for a in ind.get_assertions()}


def _fmt(c):
    pair, z = c
    a, b = _oriented(c)[0][:2]
    return f"({sorted(a)} _|_ {sorted(b)} | {sorted(z)})"


def check_closure(case):
    from pgmpy.independencies import Independencies, IndependenceAssertion

    universe, stmts, form = case["universe"], case["stmts"], case["form"]
    base = {canon(*s) for s in stmts}
    ind = _mk_ind(stmts, form)
    before = _canon_set(ind)
    if before != base:
        return {"key": "Independencies:construction", "what": f"stored assertions {before} != given {base}"}
    cl = ind.closure()
    if not isinstance(cl, Independencies):
        return {"key": "closure:type", "what": f"returned {type(cl)}"}
    if _canon_set(ind) != base or len(ind.get_assertions()) != len(stmts):
        return {"key": "closure:mutated-self", "what": "closure() changed the receiver"}
    got = _canon_set(cl)
    want = saturate(base)
    extra, missing = got - want, want - got
    fails = []
    if extra:
        loose = saturate(base, "loose")
        key = "closure:unsound-contraction" if got <= loose else "closure:unsound"
        fails.append({"key": key, "what": f"from {[_fmt(c) for c in base]} the closure contains {[_fmt(c) for c in sorted(extra, key=_fmt)][:4]} "
                                          f"which is not derivable by symmetry/decomposition/weak union/contraction"})
    if missing:
        strict = saturate(base, "nonempty-context")
        key = "closure:incomplete:contraction-empty-context" if not (missing & strict) else "closure:incomplete"
        fails.append({"key": key, "what": f"from {[_fmt(c) for c in base]} the closure lacks the derivable {[_fmt(c) for c in sorted(missing, key=_fmt)][:4]}"})
    if fails:
        # classes not seen on the unchanged tree first
        fails.sort(key=lambda f: f["key"] in ("closure:unsound-contraction", "closure:incomplete:contraction-empty-context"))
        return fails[0]
    if len(cl.get_assertions()) != len(got):
        return {"key": "closure:duplicates", "what": "closure lists the same statement twice (up to symmetry)"}
    return None


def check_closure_bounds(case):
    """every case, modulo the two contraction defects reported by group `closure`: the closure must contain everything derivable
    without empty-context contraction and must stay inside the saturation under the loosened contraction rule."""
    stmts, form = case["stmts"], case["form"]
    base = {canon(*s) for s in stmts}
    got = _canon_set(_mk_ind(stmts, form).closure())
    lower, upper = saturate(base, "nonempty-context"), saturate(base, "loose")
    if not got <= upper:
        return {"key": "unsound", "what": f"from {[_fmt(c) for c in base]} the closure contains {[_fmt(c) for c in sorted(got - upper, key=_fmt)][:4]}, "
                                          f"not derivable even with the loosened contraction rule"}
    if not lower <= got:
        return {"key": "incomplete", "what": f"from {[_fmt(c) for c in base]} the closure lacks {[_fmt(c) for c in sorted(lower - got, key=_fmt)][:4]} "
                                             f"(derivable without contraction on an empty context)"}
    return None


def check_entails(case):
    """entails / is_equivalent / contains agree with the closure (pgmpy's own closure for consistency, the
    saturation oracle wherever that closure is right)."""
    from pgmpy.independencies import Independencies, IndependenceAssertion

    universe, stmts, form = case["universe"], case["stmts"], case["form"]
    base = {canon(*s) for s in stmts}
    ind = _mk_ind(stmts, form)
    clo = ind.closure()
    got_cl = _canon_set(clo)
    want_cl = saturate(base)
    closure_ok = got_cl == want_cl
    rng = O.mk_rng(0, "c18-entails", str(sorted(map(_fmt, base))))
    cands = all_statements(universe)
    inside = [s for s in cands if canon(*s) in (got_cl | want_cl)]
    outside = [s for s in cands if canon(*s) not in (got_cl | want_cl)]
    rng.shuffle(outside)
    for k, s in enumerate(inside + outside[:8]):
        c = canon(*s)
        for f in ((0, 3)[k % 2],):
            other = _mk_ind([s], f)
            got = ind.entails(other)
            if got != (c in got_cl):
                return {"key": "entails:inconsistent-with-closure", "what": f"{[_fmt(b) for b in base]} entails {_fmt(c)} = {got}, "
                                                                            f"but membership in closure() is {c in got_cl}"}
            if closure_ok and got != (c in want_cl):
                return {"key": "entails:result", "what": f"{[_fmt(b) for b in base]} entails {_fmt(c)} = {got}; derivable: {c in want_cl}"}
        a = IndependenceAssertion(*_mk_assertion_args(s, 1))
        if (a in clo) != (c in got_cl) or clo.contains(a) != (c in got_cl):
            return {"key": "contains:result", "what": f"{_fmt(c)} in closure -> {(a in clo)}"}
    if ind.entails([_mk_assertion_args(stmts[0], 0)]) is not False:
        return {"key": "entails:non-Independencies", "what": "a plain list is documented to give False"}
    # multi-statement entailment: all of the closure / closure + one outsider
    if not ind.entails(_mk_ind([[list(x) for x in _oriented(c)[0]] for c in sorted(got_cl, key=_fmt)], 1)):
        return {"key": "entails:inconsistent-with-closure", "what": "does not entail its own closure"}
    # the same members of the closure listed twice and in both orientations: more assertions than the closure holds, still entailed
    twice = [[list(x) for x in o] for c in sorted(got_cl, key=_fmt) for o in (_oriented(c)[0], _oriented(c)[0], _oriented(c)[-1])]
    if twice and not ind.entails(_mk_ind(twice, 0)):
        return {"key": "entails:inconsistent-with-closure", "what": "does not entail its own closure when members are repeated / mirrored"}
    if twice and not clo.is_equivalent(_mk_ind(twice, 0)):
        return {"key": "entails:is_equivalent:inconsistent-with-closure", "what": "closure not equivalent to itself with members repeated / mirrored"}
    if outside:
        o = outside[0]
        if ind.entails(_mk_ind(list(stmts) + [o], 2)):
            return {"key": "entails:inconsistent-with-closure", "what": f"entails a set containing the non-member {o}"}
    # equivalence
    others = [("closure", [[list(x) for x in _oriented(c)[0]] for c in sorted(got_cl, key=_fmt)]),
              ("swapped", [[s[1], s[0], s[2]] for s in stmts]),
              ("first-only", [stmts[0]]),
              ("plus-outsider", list(stmts) + outside[:1])]
    if len(stmts) >= 2:
        others.append(("reversed", list(reversed(stmts))))
    for nm, ost in others:
        oind = _mk_ind(ost, 3)
        obase = {canon(*s) for s in ost}
        o_got = _canon_set(oind.closure())
        o_want = saturate(obase)
        got = ind.is_equivalent(oind)
        cons = base <= o_got and obase <= got_cl
        if got != cons:
            return {"key": "is_equivalent:inconsistent-with-closure", "what": f"{[_fmt(b) for b in base]} vs {nm}: {got}, closures say {cons}"}
        if closure_ok and o_got == o_want and got != (want_cl == o_want):
            return {"key": "is_equivalent:result", "what": f"{[_fmt(b) for b in base]} vs {nm}: {got}, saturation says {want_cl == o_want}"}
        if oind.is_equivalent(ind) != got:
            return {"key": "is_equivalent:asymmetric", "what": f"{nm}"}
    if ind.is_equivalent("x") is not False:
        return {"key": "is_equivalent:non-Independencies", "what": "non-Independencies operand must give False"}
    return None


def gen_assert_eq(tier, seed):
    st = all_statements(UNIV4)
    for i in range(len(st)):
        yield {"universe": UNIV4, "i": i}


def check_assert_eq(case):
    """IndependenceAssertion.__eq__ is exactly equality up to swapping event1/event2; equal objects hash equal;
    Independencies.__eq__ is set equality of assertions."""
    from pgmpy.independencies import IndependenceAssertion as IA, Independencies

    st = all_statements(case["universe"])
    X, Y, Z = st[case["i"]]
    variants = [IA(X, Y, Z), IA(Y, X, Z), IA(list(reversed(X)), tuple(Y), set(Z))]
    if len(X) == 1:
        variants.append(IA(X[0], Y, Z))
    for a in variants:
        if (a.event1, a.event2, a.event3) not in ((frozenset(X), frozenset(Y), frozenset(Z)), (frozenset(Y), frozenset(X), frozenset(Z))):
            return {"key": "IndependenceAssertion:events", "what": f"{(X, Y, Z)} stored as {a.get_assertion()}"}
        if a.get_assertion() != (a.event1, a.event2, a.event3):
            return {"key": "IndependenceAssertion:get_assertion", "what": "get_assertion differs from the event attributes"}
    for X2, Y2, Z2 in st:
        for (P, Q) in ((X2, Y2), (Y2, X2)):
            b = IA(P, Q, Z2)
            want = canon(X, Y, Z) == canon(P, Q, Z2)
            for a in variants[:2]:
                if (a == b) != want or (b == a) != want or (a != b) == want:
                    return {"key": "IndependenceAssertion.__eq__:result", "what": f"{a} == {b} -> {a == b}, expected {want}"}
                if want and hash(a) != hash(b):
                    return {"key": "IndependenceAssertion.__hash__:unequal-for-equal", "what": f"{a} == {b} but hashes differ"}
                if want != (len({a, b}) == 1):
                    return {"key": "IndependenceAssertion.__hash__:set-membership", "what": f"set({a}, {b}) has {len({a, b})} elements"}
            i1, i2 = Independencies([X, Y, Z]), Independencies([P, Q, Z2])
            if (i1 == i2) != want or (i1 != i2) == want:
                return {"key": "Independencies.__eq__:result", "what": f"{i1} == {i2} -> {i1 == i2}"}
    a = variants[0]
    if a == (frozenset(X), frozenset(Y), frozenset(Z)) or a == "x" or not (a != 3):
        return {"key": "IndependenceAssertion.__eq__:foreign-type", "what": "equal to a non-assertion"}
    i3 = Independencies([X, Y, Z], [Y, X, Z])
    if not (i3 == Independencies([X, Y, Z])) or i3.get_all_variables() != frozenset(X) | frozenset(Y) | frozenset(Z):
        return {"key": "Independencies.__eq__:result", "what": "duplicate up to symmetry changes equality / get_all_variables"}
    return None


# ============================================================================= 3. numeric independence on joint tables
class Table:
    """exact joint table: variables, cards, dict assignment-tuple -> Fraction."""

    def __init__(self, variables, cards, flat):
        self.vars = list(variables)
        self.cards = list(cards)
        self.p = {}
        for idx, val in zip(itertools.product(*[range(c) for c in cards]), flat):
            self.p[idx] = Fraction(val)
        assert sum(self.p.values()) == 1
        self._m = {}

    def marg(self, vs):
        key = tuple(vs)
        if key not in self._m:
            pos = [self.vars.index(v) for v in vs]
            out = {}
            for idx, val in self.p.items():
                k = tuple(idx[i] for i in pos)
                out[k] = out.get(k, Fraction(0)) + val
            self._m[key] = out
        return self._m[key]

    def ci(self, x, y, Z, zval=None):
        """(holds, decidable): x _|_ y | Z (for every value of Z, or for the single value zval).
        decidable = holds exactly, or at least one cell violates the product rule by clearly more than the float
        tolerance of pgmpy's factor comparison (allclose rtol 1e-5 / atol 1e-8)."""
        Z = list(Z)
        pxyz = self.marg([x, y] + Z)
        pxz, pyz, pz = self.marg([x] + Z), self.marg([y] + Z), self.marg(Z)
        holds, clear = True, False
        for k, v in pxyz.items():
            z = k[2:]
            if zval is not None and tuple(zval) != z:
                continue
            if zval is not None:
                # value-conditioned branch compares P(x,y|z) with P(x|z)P(y|z)
                lhs, rhs = v / pz[z], pxz[(k[0],) + z] * pyz[(k[1],) + z] / (pz[z] * pz[z])
            else:
                # random-variable branch compares P(x,y,Z)P(Z) with P(x,Z)P(y,Z)
                lhs, rhs = v * pz[z], pxz[(k[0],) + z] * pyz[(k[1],) + z]
            d = abs(lhs - rhs)
            if d != 0:
                holds = False
                if d > Fraction(1, 1000) * max(lhs, rhs) + Fraction(1, 10 ** 6):
                    clear = True
        return holds, (holds or clear)


def _flat_from_bn(spec, order):
    return [O.joint_prob(spec, dict(zip(order, [spec["states"][v][i] for v, i in zip(order, idx)])))
            for idx in itertools.product(*[range(len(spec["states"][v])) for v in order])]


def _random_table(rng, cards, zeros=False):
    n = 1
    for c in cards:
        n *= c
    while True:
        w = [rng.randint(0 if zeros else 1, 7) for _ in range(n)]
        if sum(w) > 0 and sum(1 for x in w if x) >= max(2, n // 2):
            break
    t = sum(w)
    return [Fraction(x, t) for x in w]


def _context_specific(rng, cards):
    """variables (x, y, z[, u]): x _|_ y | z = 0 exactly, dependent for the other values of z; u depends on z only."""
    cx, cy, cz = cards[:3]
    pz = O.random_column(rng, cz)
    blocks = []
    for z in range(cz):
        if z == 0:
            px, py = O.random_column(rng, cx), O.random_column(rng, cy)
            blocks.append({(a, b): px[a] * py[b] for a in range(cx) for b in range(cy)})
        else:
            raw = _random_table(rng, [cx, cy])
            blocks.append({(a, b): raw[a * cy + b] for a in range(cx) for b in range(cy)})
    ucols = [O.random_column(rng, cards[3]) for _ in range(cz)] if len(cards) > 3 else None
    out = []
    for idx in itertools.product(*[range(c) for c in cards]):
        v = blocks[idx[2]][(idx[0], idx[1])] * pz[idx[2]]
        if ucols:
            v *= ucols[idx[2]][idx[3]]
        out.append(v)
    return out


VNAMES = ["Intel", "D", "grade_3", "sat"]


def gen_tables(tier, seed):
    rng = O.mk_rng(seed, "c18-tables")
    nq = 1 if tier == "quick" else 6
    k = 0
    for n in (2, 3, 4):
        names = VNAMES[:n]
        # product-form: joint of a random BN on every DAG (n <= 3) / sampled DAGs (n = 4)
        dags = list(O.all_dags(n, names))
        if n == 4:
            rng.shuffle(dags)
            dags = dags[:(40 if tier == "quick" else 300)]
        for edges in dags:
            for rep in range(nq if n < 4 else 1):
                cards = {v: rng.choice((2, 2, 3)) for v in names}
                spec = O.random_bn_spec(rng, names, edges, cards, style="int", zeros=(k % 5 == 4))
                order = names[:]
                rng.shuffle(order)
                k += 1
                yield {"kind": "product", "vars": order, "cards": [cards[v] for v in order], "edges": edges,
                       "p": [str(x) for x in _flat_from_bn(spec, order)], "qseed": k}
        for rep in range((6 if tier == "quick" else 60) * (2 if n >= 3 else 1)):
            cards = [rng.choice((2, 2, 3)) for _ in names]
            k += 1
            yield {"kind": "generic", "vars": names, "cards": cards, "p": [str(x) for x in _random_table(rng, cards, zeros=(rep % 3 == 2))], "qseed": k}
        if n >= 3:
            for rep in range(8 if tier == "quick" else 80):
                cards = [rng.choice((2, 3)) for _ in names]
                order = names[:]
                rng.shuffle(order)
                k += 1
                yield {"kind": "context", "vars": order, "cards": cards, "p": [str(x) for x in _context_specific(rng, cards)], "qseed": k}
    # uniform and deterministic corner cases
    yield {"kind": "product", "vars": VNAMES[:3], "cards": [2, 3, 2], "p": [str(Fraction(1, 12))] * 12, "qseed": 0}
    xor = [Fraction(1, 4) if (a ^ b) == c else Fraction(0) for a in (0, 1) for b in (0, 1) for c in (0, 1)]
    yield {"kind": "context", "vars": VNAMES[:3], "cards": [2, 2, 2], "p": [str(x) for x in xor], "qseed": 1}


def _jpd(case):
    from pgmpy.factors.discrete import JointProbabilityDistribution as JPD

    return JPD(list(case["vars"]), list(case["cards"]), [float(Fraction(x)) for x in case["p"]])


def _val(phi, assignment):
    return float(phi.values[tuple(assignment[v] for v in phi.variables)])


def check_jpd_views(case):
    """marginal_distribution / conditional_distribution by named assignment, both inplace modes."""
    T = Table(case["vars"], case["cards"], case["p"])
    vs = T.vars
    for keep in _subsets(vs, 1):
        for form in ("list", "tuple", "set", "str"):
            if form == "str" and len(keep) != 1:
                continue
            arg = {"list": list(keep), "tuple": tuple(keep), "set": set(keep), "str": keep[0]}[form]
            P = _jpd(case)
            m = P.marginal_distribution(arg, inplace=False)
            if P.variables != vs or any(not O.close(_val(P, dict(zip(vs, idx))), T.p[idx]) for idx in T.p):
                return {"key": "marginal_distribution:mutated-self", "what": f"inplace=False changed the receiver (keep {keep})"}
            P2 = _jpd(case)
            r = P2.marginal_distribution(arg)
            for nm, obj in (("inplace=False", m), ("inplace=True", P2)):
                if obj is None or set(obj.variables) != set(keep) or len(obj.variables) != len(keep):
                    return {"key": "marginal_distribution:scope", "what": f"{nm} keep {keep} as {form}: scope {getattr(obj, 'variables', None)}"}
                want = T.marg(list(obj.variables))
                for idx, w in want.items():
                    if not O.close(obj.values[idx], w):
                        return {"key": "marginal_distribution:value", "what": f"{nm} keep {keep}: P({dict(zip(obj.variables, idx))}) = {obj.values[idx]}, exact {w}"}
    rng = O.mk_rng(case["qseed"], "views")
    for cond in _subsets(vs, 1, len(vs) - 1):
        pz = T.marg(cond)
        for zval, w in pz.items():
            if w == 0 or rng.random() < 0.4:
                continue
            values = list(zip(cond, zval))
            rng.shuffle(values)
            P = _jpd(case)
            c = P.conditional_distribution(values, inplace=False)
            if P.variables != vs or any(not O.close(_val(P, dict(zip(vs, idx))), T.p[idx]) for idx in T.p):
                return {"key": "conditional_distribution:mutated-self", "what": f"inplace=False changed the receiver ({values})"}
            P2 = _jpd(case)
            P2.conditional_distribution(values)
            rest = [v for v in vs if v not in cond]
            for nm, obj in (("inplace=False", c), ("inplace=True", P2)):
                if obj is None or set(obj.variables) != set(rest):
                    return {"key": "conditional_distribution:scope", "what": f"{nm} given {values}: scope {getattr(obj, 'variables', None)}"}
                full = T.marg(list(obj.variables) + cond)
                for idx in itertools.product(*[range(T.cards[vs.index(v)]) for v in obj.variables]):
                    want = full[tuple(idx) + tuple(zval)] / w
                    if not O.close(obj.values[idx], want):
                        return {"key": "conditional_distribution:value", "what": f"{nm} P({dict(zip(obj.variables, idx))} | {values}) = {obj.values[idx]}, exact {want}"}
    return None


def check_check_independence(case):
    """check_independence in its three modes and get_independencies against exact arithmetic."""
    T = Table(case["vars"], case["cards"], case["p"])
    vs = T.vars
    P = _jpd(case)
    rng = O.mk_rng(case["qseed"], "ci")
    events = [e for e in _subsets(vs, 1, 2)]
    for e1 in events:
        for e2 in events:
            if set(e1) & set(e2):
                continue
            rest = [v for v in vs if v not in e1 and v not in e2]
            pairs = list(itertools.product(e1, e2))
            # --- marginal
            res = [T.ci(x, y, []) for x, y in pairs]
            want = all(h for h, _ in res)
            if all(d for _, d in res) or any((not h) and d for h, d in res):
                for e3 in (None, [], ()):
                    got = P.check_independence(list(e1), tuple(e2) if e3 is None else list(e2), e3)
                    if bool(got) != want:
                        return {"key": "check_independence:marginal", "what": f"{e1} _|_ {e2} (event3={e3!r}): got {got}, exact arithmetic says {want} "
                                                                          f"(pairs {[(p, h) for p, (h, _) in zip(pairs, res)]})"}
            for Z in _subsets(rest, 1):
                # --- conditioning on random variables: must hold for every value of Z
                res = [T.ci(x, y, Z) for x, y in pairs]
                want = all(h for h, _ in res)
                if all(d for _, d in res) or any((not h) and d for h, d in res):
                    zz = list(Z)
                    rng.shuffle(zz)
                    for e3 in (zz, tuple(zz)):
                        got = P.check_independence(list(e1), list(e2), e3, condition_random_variable=True)
                        if bool(got) != want:
                            return {"key": "check_independence:random-variable-conditioning",
                                    "what": f"{e1} _|_ {e2} | {list(e3)}: got {got}, exact arithmetic says {want} (pairs {[(p, h) for p, (h, _) in zip(pairs, res)]})"}
                # --- conditioning on values: independence in the conditional distribution P(. | Z = z)
                for zval, w in T.marg(Z).items():
                    if w == 0:
                        continue  # conditioning on a null event is undefined
                    res = [T.ci(x, y, Z, zval) for x, y in pairs]
                    want = all(h for h, _ in res)
                    if not (all(d for _, d in res) or any((not h) and d for h, d in res)):
                        continue
                    values = list(zip(Z, zval))
                    rng.shuffle(values)
                    got = P.check_independence(list(e1), list(e2), values)
                    if bool(got) != want:
                        return {"key": "check_independence:value-conditioning",
                                "what": f"{e1} _|_ {e2} | {values}: got {got}, exact arithmetic says {want} (pairs {[(p, h) for p, (h, _) in zip(pairs, res)]})"}
    if any(not O.close(_val(P, dict(zip(vs, idx))), T.p[idx]) for idx in T.p) or P.variables != vs:
        return {"key": "check_independence:mutated-self", "what": "the distribution was changed by check_independence"}
    for bad in ("Intel", ):
        for args in ((bad, [vs[-1]]), ([vs[0]], bad)):
            try:
                P.check_independence(*args)
                return {"key": "check_independence:string-event-accepted", "what": f"{args}"}
            except TypeError:
                pass
    # --- get_independencies
    conds = [None]
    for Z in _subsets(vs, 1, len(vs) - 2):
        for zval, w in T.marg(Z).items():
            if w:
                conds.append(list(zip(Z, zval)))
    for cond in conds:
        Z = [v for v, _ in cond] if cond else []
        zval = tuple(s for _, s in cond) if cond else None
        rest = [v for v in vs if v not in Z]
        want, undec = set(), False
        for x, y in itertools.combinations(rest, 2):
            h, d = T.ci(x, y, Z, zval)
            undec |= not d
            if h:
                want.add(frozenset((x, y)))
        if undec:
            continue
        gi = P.get_independencies(cond)
        got = set()
        for a in gi.get_assertions():
            if a.event3 or len(a.event1) != 1 or len(a.event2) != 1:
                return {"key": "get_independencies:shape", "what": f"assertion {a}"}
            got.add(frozenset(a.event1 | a.event2))
        if got != want or len(gi.get_assertions()) != len(got):
            return {"key": "get_independencies:result", "what": f"condition {cond}: got {sorted(map(sorted, got))}, exact arithmetic gives {sorted(map(sorted, want))}"}
    return None


# ============================================================================= 4. I-maps
def _set_ci(T, X, Ys, Z):
    """X _|_ Ys | Z as *sets* (joint independence) in exact arithmetic."""
    Ys, Z = list(Ys), list(Z)
    pxyz, pxz, pyz, pz = T.marg([X] + Ys + Z), T.marg([X] + Z), T.marg(Ys + Z), T.marg(Z)
    ny = len(Ys)
    for k, v in pxyz.items():
        z = k[1 + ny:]
        if v * pz[z] != pxz[(k[0],) + z] * pyz[k[1:]]:
            return False
    return True


def check_minimal_imap(case):
    """every d-separation of the returned graph (variables absent from it count as isolated nodes) holds in the joint."""
    T = Table(case["vars"], case["cards"], case["p"])
    vs = T.vars
    P = _jpd(case)
    from pgmpy.models import BayesianNetwork

    for order in itertools.permutations(vs):
        order = list(order)
        G = P.minimal_imap(order=order)
        if not isinstance(G, BayesianNetwork):
            return {"key": "minimal_imap:type", "what": f"returned {type(G)}"}
        edges = [list(e) for e in G.edges()]
        if not set(G.nodes()) <= set(vs):
            return {"key": "minimal_imap:foreign-nodes", "what": f"nodes {list(G.nodes())}"}
        pos = {v: i for i, v in enumerate(order)}
        for u, v in edges:
            if pos[u] >= pos[v]:
                return {"key": "minimal_imap:edge-against-order", "what": f"order {order}: edge {u}->{v}"}
        for x, y in itertools.combinations(vs, 2):
            rest = [v for v in vs if v not in (x, y)]
            for Z in _subsets(rest):
                if not O.dconnected(vs, edges, x, y, set(Z)):
                    h, d = T.ci(x, y, Z)
                    if not h:
                        return {"key": "minimal_imap:not-an-imap",
                                "what": f"order {order}: returned edges {edges} (nodes {list(G.nodes())}) d-separate {x},{y} | {Z}, "
                                        f"but {x} and {y} are dependent given {Z} in the joint"}
        # local Markov property with joint (set-wise) independence
        for v in vs:
            pa = O.parents_of(edges, v)
            nd = [u for u in vs if u not in O.descendants_or_self(edges, [v]) and u not in pa]
            if nd and not _set_ci(T, v, nd, pa):
                return {"key": "minimal_imap:not-an-imap", "what": f"order {order}: edges {edges}: {v} is not independent of its non-descendants {nd} given parents {pa}"}
    return None


def gen_imap(tier, seed):
    rng = O.mk_rng(seed, "c18-imap")
    k = 0
    for n in (1, 2, 3, 4):
        names = VNAMES[:n]
        dags = list(O.all_dags(n, names))
        if n == 4:
            rng.shuffle(dags)
            dags = dags[:(30 if tier == "quick" else 543)]
        for edges in dags:
            cards = {v: rng.choice((2, 2, 3)) for v in names}
            spec = O.random_bn_spec(rng, names, edges, cards, style="int", zeros=(k % 4 == 3))
            other = O.random_bn_spec(rng, names, edges, cards, style="int")
            order = names[:]
            rng.shuffle(order)
            k += 1
            yield {"spec": O.spec_to_json(spec), "other": O.spec_to_json(other), "order": order,
                   "cells": [rng.randrange(10 ** 6), rng.randrange(10 ** 6)], "eps": str(Fraction(1, rng.choice((7, 20, 50))))}


def check_is_imap(case):
    """JPD.is_imap(model) and BayesianNetwork.is_imap(JPD): True exactly when the joint equals the product of the model's
    CPDs (then every d-separation of the graph holds in the joint); variable order of the table is arbitrary."""
    from pgmpy.factors.discrete import JointProbabilityDistribution as JPD

    spec, other, order = O.spec_from_json(case["spec"]), O.spec_from_json(case["other"]), case["order"]
    cards = [len(spec["states"][v]) for v in order]
    exact = _flat_from_bn(spec, order)
    tables = [("own-joint", exact)]
    # perturbed joint: move mass between two cells
    i, j = case["cells"][0] % len(exact), case["cells"][1] % len(exact)
    eps = Fraction(case["eps"])
    if i != j and exact[i] > 0:
        pert = list(exact)
        d = min(eps, exact[i]) / 2
        pert[i] -= d
        pert[j] += d
        tables.append(("perturbed", pert))
    tables.append(("other-cpds", _flat_from_bn(other, order)))
    bn = O.make_bn(spec)
    for nm, flat in tables:
        dmax = max(abs(a - b) for a, b in zip(flat, exact))
        if 0 < dmax < Fraction(1, 1000):
            continue
        want = dmax == 0
        jp = JPD(list(order), cards, [float(x) for x in flat])
        for api, call in (("JointProbabilityDistribution.is_imap", lambda: jp.is_imap(bn)), ("BayesianNetwork.is_imap", lambda: bn.is_imap(jp))):
            got = call()
            if got is not True and got is not False:
                return {"key": f"{api}:not-bool", "what": f"returned {got!r}"}
            if got != want:
                return {"key": f"{api}:result", "what": f"table '{nm}' over {order}: got {got}, the product of CPD entries {'equals' if want else 'differs from'} the joint (max diff {float(dmax)})"}
            if got:
                T = Table(order, cards, flat)
                for x, y in itertools.combinations(order, 2):
                    rest = [v for v in order if v not in (x, y)]
                    for Z in _subsets(rest):
                        if not O.dconnected(spec["nodes"], spec["edges"], x, y, set(Z)) and not T.ci(x, y, Z)[0]:
                            return {"key": f"{api}:imap-but-dependence", "what": f"{x},{y} | {Z} d-separated but dependent"}
    for bad, api in ((bn, "BayesianNetwork.is_imap"),):
        try:
            bn.is_imap(bn)
            return {"key": f"{api}:no-typeerror", "what": "non-JPD accepted"}
        except TypeError:
            pass
    try:
        JPD(list(order), cards, [float(x) for x in exact]).is_imap(_mk_dag(spec["nodes"], spec["edges"]))
        return {"key": "JointProbabilityDistribution.is_imap:no-typeerror", "what": "plain DAG accepted"}
    except TypeError:
        pass
    return None


# ============================================================================= groups
def groups(tier):
    return [
        Group("is_iequivalent", gen_ieq, check_ieq, lambda c: len(c["A"]) >= 2, engine="E3",
              bound="every ordered pair of DAGs on the same <= 4 labelled nodes (1+9+625+294849 pairs, also BayesianNetwork operands) + "
                    "40 (600) seeded 5-6 node DAGs against 12 re-orientations of their skeleton and edge-deleted variants; oracle: same "
                    "skeleton and same v-structures, self-checked against equality of all d-separation statements for <= 4 nodes"),
        Group("closure", gen_closure, check_closure, lambda c: True, engine="E3",
              bound="4-variable universe (multi-character names): every assertion set of size 1 (55) and 2 (1485) over all disjoint events, "
                    "4 input forms; + 60 (1500) seeded sets of size 3-4 / sets over 5 variables; compared with an own semi-graphoid saturation"),
        Group("closure_bounds", gen_closure, check_closure_bounds, lambda c: True, engine="E3",
              bound="the same assertion sets, all of them (group `closure` stops after 40 failures per worker): closure between the saturation "
                    "without empty-context contraction and the saturation with the loosened contraction rule, i.e. everything except the two "
                    "defect classes closure:unsound-contraction / closure:incomplete:contraction-empty-context"),
        Group("entails", gen_entails, check_entails, lambda c: True, engine="E3",
              bound="same assertion sets (quick: singletons, 1/5 of the pairs rotating with the seed, seeded sets); entails for every statement of the closure + 8 outsiders, multi-statement entailment, contains, "
                    "is_equivalent against 4-5 derived sets (closure, swapped, first-only, plus-outsider, reversed)"),
        Group("assertion_eq", gen_assert_eq, check_assert_eq, lambda c: True, engine="E3",
              bound="all 55 x 110 ordered pairs of assertions over 4 variables: ==, !=, hash, set membership, Independencies.__eq__"),
        Group("jpd_views", gen_tables, check_jpd_views, lambda c: len(set(c["p"])) > 1, engine="E3",
              bound="joint tables over 2-4 binary/ternary variables (BN-product form on all DAGs <= 3 nodes and sampled 4-node DAGs, generic "
                    "random incl. zeros, context-specific): every kept subset in 4 argument forms, both inplace modes; conditioning values "
                    "with positive probability (about 60% sampled)"),
        Group("check_independence", gen_tables, check_check_independence, lambda c: len(set(c["p"])) > 1, engine="E3",
              bound="same tables; all disjoint event pairs of size <= 2, every conditioning subset as random variables and every positive-"
                    "probability value assignment of it; get_independencies for every condition; verdicts whose largest violation lies within "
                    "1e-3 relative of pgmpy's float tolerance are skipped"),
        Group("minimal_imap", gen_tables, check_minimal_imap, lambda c: len(set(c["p"])) > 1, engine="E3",
              bound="same tables; every variable order; all d-separations of the returned graph + local Markov property (set-wise) must hold exactly"),
        Group("is_imap", gen_imap, check_is_imap, lambda c: len(c["spec"]["edges"]) >= 1, engine="E3",
              bound="BN on every DAG <= 3 nodes and 30 (543) 4-node DAGs, int state names, table variable order shuffled: own joint, "
                    "perturbed joint, joint of other CPDs on the same graph; both JPD.is_imap and BayesianNetwork.is_imap"),
    ]
