"""C19 bounded groups (E3): conditional-independence tests of pgmpy.estimators.CITests against an own
implementation of the stratified power-divergence test and of the partial-correlation test.

Oracle side (no pgmpy): contingency tables are counted from the raw rows with dicts, expected frequencies, Yates'
continuity correction (scipy's documented default for 2x2 tables), the Cressie-Read family and the pooling over strata
are written out with math.fsum; only the chi-square / Student-t survival functions are taken from scipy.stats.
The partial correlation oracle solves the normal equations (regression WITH intercept) in exact Fractions.
"""
from __future__ import annotations

import itertools
import math
from fractions import Fraction

from vf.core import Group
from vf.bounded import oracles as O

LAMBDAS = [("pearson", 1.0), ("log-likelihood", 0.0), ("freeman-tukey", -0.5), ("mod-log-likelihood", -1.0), ("neyman", -2.0),
           ("cressie-read", 2.0 / 3.0), (0.3, 0.3), (2, 2.0), (-0.7, -0.7), (0, 0.0), (0.0, 0.0), (1, 1.0), (-1, -1.0), (-0.5, -0.5)]
WRAPPERS = [("chi_square", 1.0), ("g_sq", 0.0), ("log_likelihood", 0.0), ("modified_log_likelihood", -1.0)]


# ----------------------------------------------------------------------------- oracle: power divergence
def table_stat(tab, lam):
    """(statistic, dof, defined) of one R x C table of counts (all row and column sums > 0).
    defined = False when a zero cell makes the lambda < 0 member of the family infinite/undefined."""
    R, C = len(tab), len(tab[0])
    rs = [sum(r) for r in tab]
    cs = [sum(tab[i][j] for i in range(R)) for j in range(C)]
    n = sum(rs)
    dof = (R - 1) * (C - 1)
    if dof == 0:
        return 0.0, 0, True
    cells = []
    for i in range(R):
        for j in range(C):
            e = rs[i] * cs[j] / n
            o = float(tab[i][j])
            if dof == 1:  # Yates: move each count by min(0.5, |e - o|) towards its expectation
                d = e - o
                o = o + min(0.5, abs(d)) * (1 if d > 0 else -1 if d < 0 else 0)
            cells.append((o, e))
    if lam < 0 and any(o == 0 for o, e in cells):
        return math.inf, dof, False
    if lam == 1:
        s = math.fsum((o - e) ** 2 / e for o, e in cells)
    elif lam == 0:
        s = 2 * math.fsum(o * math.log(o / e) for o, e in cells if o > 0)
    elif lam == -1:
        s = 2 * math.fsum(e * math.log(e / o) for o, e in cells)
    else:
        s = 2 / (lam * (lam + 1)) * math.fsum(o * ((o / e) ** lam - 1) for o, e in cells)
    return s, dof, True


def strata(rows, X, Y, Z):
    """dict z-tuple -> contingency table (list of lists) over the X / Y values *present in the stratum*."""
    groups = {}
    for r in rows:
        groups.setdefault(tuple(r[z] for z in Z), []).append((r[X], r[Y]))
    out = {}
    for z, prs in groups.items():
        xs = sorted({a for a, b in prs}, key=repr)
        ys = sorted({b for a, b in prs}, key=repr)
        cnt = {}
        for p in prs:
            cnt[p] = cnt.get(p, 0) + 1
        out[z] = [[cnt.get((a, b), 0) for b in ys] for a in xs]
    return out


def oracle_test(rows, X, Y, Z, lam):
    """(statistic, p, dof, defined): sum over the strata of Z of the table statistic, dof summed, p = chi2 sf.
    Strata in which X or Y is constant have a 1 x k table: no information, statistic 0 and dof 0 (= skipped)."""
    from scipy.stats import chi2

    tot, dof, defined = [], 0, True
    for z, tab in strata(rows, X, Y, Z).items():
        s, d, ok = table_stat(tab, lam)
        defined &= ok
        tot.append(s)
        dof += d
    stat = math.fsum(tot) if defined else math.inf
    if dof == 0:
        p = 1.0  # nothing to test: statistic 0, the data are (trivially) exactly independent
    else:
        p = float(chi2.sf(stat, dof)) if defined else 0.0
    return stat, p, dof, defined


# ----------------------------------------------------------------------------- data generation (JSON-able)
def _label(style, col, k):
    if style == "int":
        return k
    if style == "str":
        return f"{col.lower()}_{'abcd'[k]}"
    if style == "neg":
        return (k - 1) * 5
    raise ValueError(style)


COLS = ["Xvar", "Y", "Z1", "zz2", "W"]


def _random_rows(rng, n, cards, dep):
    rows = []
    for _ in range(n):
        z1, z2, w = rng.randrange(cards[2]), rng.randrange(cards[3]), rng.randrange(cards[4])
        x = (z1 + rng.randrange(cards[0])) % cards[0] if rng.random() < dep else rng.randrange(cards[0])
        y = (x + z2) % cards[1] if rng.random() < dep else rng.randrange(cards[1])
        rows.append([x, y, z1, z2, w])
    return rows


def _independent_rows(rng, cards):
    """within every stratum of (Z1, zz2) the X x Y counts are an exact outer product a_x * b_y."""
    rows = []
    for z1 in range(cards[2]):
        for z2 in range(cards[3]):
            a = [rng.randint(1, 3) for _ in range(cards[0])]
            b = [rng.randint(1, 3) for _ in range(cards[1])]
            for x in range(cards[0]):
                for y in range(cards[1]):
                    for _ in range(a[x] * b[y]):
                        rows.append([x, y, z1, z2, (x + z1) % cards[4]])
    return rows


def gen_pd(tier, seed):
    rng = O.mk_rng(seed, "c19-pd")
    reps = 3 if tier == "quick" else 40
    k = 0
    for kind in ("random", "sparse", "independent", "constant-in-stratum"):
        for style in ("int", "str", "category", "neg", "category-int"):
            for rep in range(reps):
                cards = [rng.choice((2, 2, 3, 4)), rng.choice((2, 3, 3, 4)), rng.choice((1, 2, 3)), rng.choice((2, 3)), 2]
                if kind == "random":
                    rows = _random_rows(rng, rng.choice((40, 90, 200)), cards, rng.choice((0.0, 0.3, 0.7)))
                elif kind == "sparse":
                    rows = _random_rows(rng, rng.choice((6, 9, 14, 20)), cards, 0.5)
                elif kind == "independent":
                    rows = _independent_rows(rng, cards)
                    # marginal (Z = []) independence needs the same a, b in all strata: make a second copy of the block structure
                    if rep % 2:
                        a = [rng.randint(1, 3) for _ in range(cards[0])]
                        b = [rng.randint(1, 3) for _ in range(cards[1])]
                        rows = [[x, y, z1, z2, 0] for z1 in range(cards[2]) for z2 in range(cards[3]) for x in range(cards[0])
                                for y in range(cards[1]) for _ in range(a[x] * b[y])]
                else:
                    rows = [[z1 % cards[0], y, z1, z2, w] for x, y, z1, z2, w in _random_rows(rng, 30, cards, 0.5)]
                rng.shuffle(rows)
                base = "int" if style.startswith("category-int") else ("str" if style == "category" else style)
                cols = {c: [_label(base, c, r[i]) for r in rows] for i, c in enumerate(COLS)}
                k += 1
                yield {"kind": kind, "style": style, "cols": cols, "X": "Xvar", "Y": "Y", "all_indep": kind == "independent" and rep % 2 == 1,
                       "Zs": [[], ["Z1"], ["zz2"], ["Z1", "zz2"], ["zz2", "W", "Z1"]], "perm": rng.randrange(10 ** 6), "id": k}


def _frame(case, perm=None, unused=False):
    import pandas as pd

    cols = case["cols"]
    n = len(next(iter(cols.values())))
    idx = list(range(n))
    if perm is not None:
        O.mk_rng(perm, "perm").shuffle(idx)
    df = pd.DataFrame({c: [v[i] for i in idx] for c, v in cols.items()}, index=idx)
    if case["style"].startswith("category"):
        df = df.astype("category")
        if unused:
            for c in df.columns:
                df[c] = df[c].cat.add_categories(["never_seen"] if case["style"] == "category" else [99])
    return df


def _rows(case):
    cols = case["cols"]
    n = len(next(iter(cols.values())))
    return [{c: cols[c][i] for c in cols} for i in range(n)]


def _close(a, b, rel=1e-9, ab=1e-9):
    a, b = float(a), float(b)
    if math.isinf(a) or math.isinf(b):
        return a == b
    return abs(a - b) <= ab + rel * max(abs(a), abs(b))


def check_pd(case, dof0_only=False):
    from pgmpy.estimators import CITests as T

    df = _frame(case)
    snapshot = df.copy(deep=True)
    rows = _rows(case)
    X, Y = case["X"], case["Y"]
    dfp = _frame(case, perm=case["perm"])
    for Z in case["Zs"]:
        for name, lam in (LAMBDAS[:2] if dof0_only else LAMBDAS):
            stat, p, dof, defined = oracle_test(rows, X, Y, Z, lam)
            got = T.power_divergence(X, Y, list(Z), df, boolean=False, lambda_=name)
            if not (isinstance(got, tuple) and len(got) == 3):
                return {"key": "power_divergence:shape", "what": f"returned {got!r}"}
            g_stat, g_p, g_dof = got
            where = f"X={X} Y={Y} Z={Z} lambda_={name!r} kind={case['kind']} style={case['style']}"
            if int(g_dof) != dof:
                return {"key": "power_divergence:dof", "what": f"{where}: dof {g_dof}, summed (r-1)(c-1) over strata gives {dof}"}
            if not defined:
                # a zero cell with lambda < 0: the family member is infinite (lambda <= -1) or scipy's formula is undefined;
                # only a finite number would be a wrong answer
                if math.isfinite(float(g_stat)) and float(g_stat) < 1e300:
                    if lam <= -1:
                        return {"key": "power_divergence:statistic", "what": f"{where}: finite statistic {g_stat} although a zero cell makes it infinite"}
                continue
            if not _close(g_stat, stat):
                return {"key": "power_divergence:statistic", "what": f"{where}: statistic {g_stat}, own implementation {stat}"}
            if dof == 0:
                if not (float(g_p) == 1.0):
                    f = {"key": "power_divergence:dof0-pvalue" if (Z and math.isnan(float(g_p))) else "power_divergence:pvalue",
                         "what": f"{where}: X or Y constant in every stratum (statistic {g_stat}, dof 0): p-value {g_p}, expected 1"}
                    if f["key"].endswith("dof0-pvalue"):
                        if dof0_only:
                            return {"key": "pvalue-nan", "what": f["what"]}
                    else:
                        return f
            elif not _close(g_p, p, rel=1e-7, ab=1e-10):
                return {"key": "power_divergence:pvalue", "what": f"{where}: p {g_p}, chi2 survival function of ({stat}, {dof}) is {p}"}
            if dof0_only:
                continue
            if case["kind"] == "independent" and (case.get("all_indep") or Z in (["Z1", "zz2"], ["zz2", "W", "Z1"])) and dof:
                if abs(float(g_stat)) > 1e-9 or abs(float(g_p) - 1) > 1e-9:
                    return {"key": "power_divergence:independent-table", "what": f"{where}: exactly independent strata give statistic {g_stat}, p {g_p}"}
            # ---- relations between calls
            if name in ("pearson", "cressie-read", 0.3, "log-likelihood"):
                sw = T.power_divergence(Y, X, list(Z), df, boolean=False, lambda_=name)
                if not (_close(sw[0], g_stat, 1e-8) and int(sw[2]) == dof and (_close(sw[1], g_p, 1e-7) or dof == 0)):
                    return {"key": "power_divergence:symmetry", "what": f"{where}: (X,Y) -> {got}, (Y,X) -> {sw}"}
            if name in ("pearson", "cressie-read"):
                pr = T.power_divergence(X, Y, list(Z), dfp, boolean=False, lambda_=name)
                if not (_close(pr[0], g_stat, 1e-8) and int(pr[2]) == dof):
                    return {"key": "power_divergence:row-order", "what": f"{where}: {got} vs permuted rows {pr}"}
                if len(Z) >= 2:
                    for Z2 in (list(reversed(Z)), tuple(Z[1:] + Z[:1])):
                        zr = T.power_divergence(X, Y, Z2, df, boolean=False, lambda_=name)
                        if not (_close(zr[0], g_stat, 1e-8) and int(zr[2]) == dof):
                            return {"key": "power_divergence:z-order", "what": f"{where}: {got} vs Z={Z2}: {zr}"}
            # ---- verdict
            if name in ("pearson", "log-likelihood", "cressie-read", -0.7) and not math.isnan(float(g_p)):
                # g_p was compared with the oracle above; the verdict must be exactly (p >= level), also at level == p
                levels = [0.01, 0.05, 0.5, 1.0, float(g_p)]
                if float(g_p) < 1:
                    levels.append(math.nextafter(float(g_p), 2.0))
                for lvl in levels:
                    want = float(g_p) >= lvl
                    v = T.power_divergence(X, Y, list(Z), df, boolean=True, lambda_=name, significance_level=lvl)
                    if isinstance(v, tuple) or bool(v) != want:
                        return {"key": "power_divergence:verdict", "what": f"{where}: p={g_p} significance_level={lvl}: verdict {v!r}, expected {want}"}
        if dof0_only:
            continue
        # ---- default lambda and the named wrappers
        stat, p, dof, defined = oracle_test(rows, X, Y, Z, 2.0 / 3.0)
        got = T.power_divergence(X, Y, Z, df, boolean=False)
        if defined and not (_close(got[0], stat) and int(got[2]) == dof):
            return {"key": "power_divergence:default-lambda", "what": f"Z={Z}: default gives {got}, Cressie-Read (2/3) is {(stat, p, dof)}"}
        for wname, lam in WRAPPERS:
            fn = getattr(T, wname)
            stat, p, dof, defined = oracle_test(rows, X, Y, Z, lam)
            if not defined:
                continue
            got = fn(X, Y, Z, df, boolean=False)
            if not (_close(got[0], stat) and int(got[2]) == dof and (dof == 0 or _close(got[1], p, 1e-7, 1e-10))):
                return {"key": f"{wname}:result", "what": f"Z={Z} kind={case['kind']}: {wname} gives {got}, lambda={lam} statistic is {(stat, p, dof)}"}
            if dof:
                for lvl in (0.05, float(got[1])):
                    v = fn(X=X, Y=Y, Z=Z, data=df, boolean=True, significance_level=lvl)
                    if bool(v) != (float(got[1]) >= lvl):
                        return {"key": f"{wname}:verdict", "what": f"Z={Z}: p={got[1]} level={lvl}: verdict {v!r}"}
    if not df.equals(snapshot) or list(df.index) != list(snapshot.index):
        return {"key": "power_divergence:mutated-data", "what": "the data frame was modified"}
    for bad in ([X], [Y, "Z1"]):
        try:
            T.power_divergence(X, Y, bad, df, boolean=False)
            return {"key": "power_divergence:x-in-z-accepted", "what": f"Z={bad}"}
        except ValueError:
            pass
    return None


def gen_dof0(tier, seed):
    k = 0
    for c in gen_pd(tier, seed):
        if c["kind"] in ("sparse", "constant-in-stratum") and k < 60:
            k += 1
            yield c


def check_dof0(case):
    """X (or Y) constant in every stratum: statistic 0, dof 0 and - as for the unconditional test - p-value 1."""
    return check_pd(case, dof0_only=True)


def gen_unused(tier, seed):
    k = 0
    for c in gen_pd(tier, seed):
        if c["style"].startswith("category") and c["kind"] in ("random", "independent") and k < 40:
            k += 1
            yield c


def check_unused_categories(case):
    """categorical columns that carry a level which never occurs: same answers as without that level."""
    from pgmpy.estimators import CITests as T

    df = _frame(case, unused=True)
    rows = _rows(case)
    X, Y = case["X"], case["Y"]
    for Z in case["Zs"]:
        for name, lam in LAMBDAS[:2] + LAMBDAS[5:6]:
            stat, p, dof, defined = oracle_test(rows, X, Y, Z, lam)
            try:
                got = T.power_divergence(X, Y, Z, df, boolean=False, lambda_=name)
            except ValueError as e:
                return {"key": "raises", "what": f"Z={Z} lambda_={name!r}: ValueError({e}) for a categorical column with an unobserved level"}
            if not (_close(got[0], stat) and int(got[2]) == dof and (dof == 0 or _close(got[1], p, 1e-7, 1e-10))):
                return {"key": "result", "what": f"Z={Z} lambda_={name!r}: {got} vs {(stat, p, dof)}"}
    return None


# ----------------------------------------------------------------------------- pearsonr
def _solve(A, b):
    """exact Gauss-Jordan; A square list of Fractions (non-singular)."""
    n = len(A)
    M = [list(map(Fraction, A[i])) + [Fraction(b[i])] for i in range(n)]
    for c in range(n):
        piv = next((r for r in range(c, n) if M[r][c] != 0), None)
        if piv is None:
            return None
        M[c], M[piv] = M[piv], M[c]
        pv = M[c][c]
        M[c] = [x / pv for x in M[c]]
        for r in range(n):
            if r != c and M[r][c] != 0:
                f = M[r][c]
                M[r] = [x - f * y for x, y in zip(M[r], M[c])]
    return [M[i][n] for i in range(n)]


def residuals(y, Zcols, intercept=True):
    """exact least-squares residuals of y on the columns Zcols (+ constant)."""
    n = len(y)
    D = [([Fraction(1)] if intercept else []) + [Fraction(zc[i]) for zc in Zcols] for i in range(n)]
    k = len(D[0])
    if k == 0:
        return [Fraction(v) for v in y]
    G = [[sum(D[i][a] * D[i][b] for i in range(n)) for b in range(k)] for a in range(k)]
    rhs = [sum(D[i][a] * Fraction(y[i]) for i in range(n)) for a in range(k)]
    beta = _solve(G, rhs)
    if beta is None:
        return None
    return [Fraction(y[i]) - sum(D[i][a] * beta[a] for a in range(k)) for i in range(n)]


def pearson_exact(u, v):
    n = len(u)
    mu, mv = sum(u) / n, sum(v) / n
    suv = sum((a - mu) * (b - mv) for a, b in zip(u, v))
    suu = sum((a - mu) ** 2 for a in u)
    svv = sum((b - mv) ** 2 for b in v)
    if suu == 0 or svv == 0:
        return None
    r2 = suv * suv / (suu * svv)
    r = math.sqrt(float(r2)) * (1 if suv > 0 else -1 if suv < 0 else 0)
    return max(-1.0, min(1.0, r))


def pearson_p(r, n):
    from scipy.stats import t

    if abs(r) >= 1:
        return 0.0
    return float(2 * t.sf(abs(r) * math.sqrt((n - 2) / (1 - r * r)), n - 2))


def oracle_pearsonr(cols, X, Y, Z):
    rx = residuals(cols[X], [cols[z] for z in Z], intercept=True)
    ry = residuals(cols[Y], [cols[z] for z in Z], intercept=True)
    if rx is None or ry is None:
        return None
    r = pearson_exact(rx, ry)
    if r is None:
        return None
    return r, pearson_p(r, len(rx))


CCOLS = ["X", "Yy", "z_1", "Z2", "zed3"]


PZS = [[], ["z_1"], ["Z2", "z_1"], ["zed3", "z_1", "Z2"]]


def gen_pearson(tier, seed):
    rng = O.mk_rng(seed, "c19-pearson")
    for k in range(32 if tier == "quick" else 400):
        n = rng.choice((8, 12, 20, 30))
        centered = k % 2 == 0
        z = [[rng.randint(-6, 6) for _ in range(n)] for _ in range(3)]
        if centered:
            for col in z:  # exact zero mean of every Z column
                col[-1] -= sum(col)
        x = [rng.randint(-3, 3) + rng.choice((0, 1, 2)) * z[0][i] - z[1][i] + rng.choice((0, 7)) for i in range(n)]
        y = [rng.randint(-3, 3) + rng.choice((0, 1)) * x[i] + z[2][i] + rng.choice((0, 1)) * z[0][i] - 4 for i in range(n)]
        yield {"cols": dict(zip(CCOLS, [x, y] + z)), "X": "X", "Y": "Yy", "Zs": PZS, "centered": centered,
               "shift": rng.choice((3, -7, 10, 100, 50000)), "scale": rng.choice(("2", "1/4", "8", "1/2", "1000000000", "1/1000000000")), "perm": rng.randrange(10 ** 6)}


def _well_posed(cols, X, Y, Z):
    """full column rank with and without the constant column and residual correlations away from +-1."""
    for ic in (True, False):
        rx = residuals(cols[X], [cols[c] for c in Z], ic)
        ry = residuals(cols[Y], [cols[c] for c in Z], ic)
        if rx is None or ry is None:
            return False
        r = pearson_exact(rx, ry)
        if r is None or abs(r) > 0.999:
            return False
    return True


def _cframe(cols, perm=None):
    import pandas as pd

    n = len(next(iter(cols.values())))
    idx = list(range(n))
    if perm is not None:
        O.mk_rng(perm, "perm").shuffle(idx)
    return pd.DataFrame({c: [v[i] for i in idx] for c, v in cols.items()}, index=idx)


def check_pearsonr(case, part="core"):
    """part = "core": everything that does not depend on the intercept; part = "shift": comparison with the with-intercept
    specification on uncentred data and invariance under shifts."""
    from pgmpy.estimators import CITests as T

    cols, X, Y = case["cols"], case["X"], case["Y"]
    df = _cframe(cols)
    snap = df.copy(deep=True)
    n = len(df)
    shift, scale = case["shift"], Fraction(case["scale"])
    for Z in case["Zs"]:
        if not _well_posed(cols, X, Y, Z):
            continue
        want = oracle_pearsonr(cols, X, Y, Z)
        got = T.pearsonr(X, Y, list(Z), df, boolean=False)
        if not (isinstance(got, tuple) and len(got) == 2):
            return {"key": "shape", "what": f"returned {got!r}"}
        r, p = float(got[0]), float(got[1])
        where = f"X={X} Y={Y} Z={Z} n={n}"
        if part == "shift":
            if not Z:
                continue
            if not _close(r, want[0], 1e-8, 1e-9):
                wo = pearson_exact(residuals(cols[X], [cols[z] for z in Z], False), residuals(cols[Y], [cols[z] for z in Z], False))
                return {"key": "shift-invariance",
                        "what": f"{where}{'' if case['centered'] else ' (Z columns not centred)'}: got r={r}; correlation of the residuals of the "
                                f"regressions WITH intercept is {want[0]} (without intercept: {wo})"}
            for var in [X, Y] + list(Z):
                sc = dict(cols)
                sc[var] = [v + shift for v in cols[var]]
                g2 = T.pearsonr(X, Y, list(Z), _cframe(sc), boolean=False)
                if not _close(g2[0], r, 1e-7, 1e-8):
                    return {"key": "shift-invariance", "what": f"{where}: r={r}, after adding {shift} to every value of {var}: r={g2[0]}"}
            continue
        if not Z or case["centered"]:
            # without conditioning variables, or with exactly centred Z columns, regressions with and without intercept coincide
            if not (_close(r, want[0], 1e-8, 1e-9) and _close(p, want[1], 1e-6, 1e-10)):
                return {"key": "unconditional" if not Z else "residual-correlation",
                        "what": f"{where}: got (r={r}, p={p}); Pearson correlation of the least-squares residuals is r={want[0]}, p={want[1]}"}
        # ---- metamorphic relations on the real code
        sw = T.pearsonr(Y, X, tuple(reversed(Z)), _cframe(cols, case["perm"]), boolean=False)
        if not (_close(sw[0], r, 1e-8, 1e-9) and _close(sw[1], p, 1e-6, 1e-10)):
            return {"key": "symmetry-order", "what": f"{where}: {got} vs swapped X/Y, reversed Z, permuted rows: {sw}"}
        for var in [X, Y] + list(Z):
            sc = dict(cols)
            sc[var] = [float(Fraction(v) * scale) for v in cols[var]]
            g2 = T.pearsonr(X, Y, list(Z), _cframe(sc), boolean=False)
            # extreme units (x 1e9 / 1e-9) cost a few digits in the least-squares solve: looser tolerance there
            tol = (1e-7, 1e-8) if Fraction(1, 1000) < scale < 1000 else (1e-5, 1e-6)
            if not _close(g2[0], r, tol[0], tol[1]):
                return {"key": "scale-invariance", "what": f"{where}: r={r}, after multiplying {var} by {scale}: {g2[0]}"}
        if not Z:
            sc = dict(cols)
            sc[X] = [v + shift for v in cols[X]]
            g2 = T.pearsonr(X, Y, [], _cframe(sc), boolean=False)
            if not _close(g2[0], r, 1e-7, 1e-8):
                return {"key": "unconditional", "what": f"{where}: shift of X changes r: {r} -> {g2[0]}"}
        # ---- verdict
        lv = [0.05, 0.5, p]
        if p < 1:
            lv.append(math.nextafter(p, 2.0))
        for lvl in lv:
            v = T.pearsonr(X, Y, list(Z), df, boolean=True, significance_level=lvl)
            if isinstance(v, tuple) or bool(v) != (p >= lvl):
                return {"key": "verdict", "what": f"{where}: p={p} level={lvl}: verdict {v!r}"}
    if not df.equals(snap):
        return {"key": "mutated-data", "what": "the data frame was modified"}
    try:
        T.pearsonr(X, Y, 3, df)
        return {"key": "non-iterable-z-accepted", "what": "Z=3"}
    except ValueError:
        pass
    return None


def check_pearsonr_shift(case):
    return check_pearsonr(case, part="shift")


def gen_pearson_shift(tier, seed):
    for i, c in enumerate(gen_pearson(tier, seed)):
        if i < 60:
            yield c


def groups(tier):
    return [
        Group("power_divergence", gen_pd, check_pd, lambda c: c["kind"] != "constant-in-stratum", engine="E3",
              bound="seeded data frames (random n<=200, sparse n<=20, exactly independent strata, X constant in each stratum) with cards 1..4, "
                    "int / negative int / str / categorical(str) / categorical(int) columns; Z in {[], 1, 2, 3 variables}; 9 lambda values "
                    "(6 names + 0.3, 2, -0.7) + default + 4 named wrappers; both boolean modes with 5-6 significance levels incl. p itself and "
                    "nextafter(p); relations: X/Y swap, row permutation, Z order/tuple. lambda<0 with a zero cell (statistic infinite or "
                    "undefined in scipy) is only required not to give a finite number for lambda<=-1. The p-value of conditional tests whose "
                    "pooled dof is 0 is checked in group dof0 only"),
        Group("dof0", gen_dof0, check_dof0, lambda c: True, engine="E3",
              bound="the first 60 sparse / constant-in-stratum frames of the previous group: pooled dof 0 must give p-value 1 (as the "
                    "unconditional branch does), not nan"),
        Group("unused_category", gen_unused, check_unused_categories, lambda c: True, engine="E3",
              bound="the first 40 categorical frames (random / independent) with one extra, never observed level per column"),
        Group("pearsonr_core", gen_pearson, check_pearsonr, lambda c: True, engine="E3",
              bound="32 (400) seeded integer data sets n in {8,12,20,30}, |Z| in 0..3 (queries without full column rank are skipped); r and p "
                    "against the with-intercept residual correlation for Z=[] and for the half of the data sets whose Z columns are exactly "
                    "centred (there regressions with and without intercept coincide); positive rescale (2,1/4,8,1/2) of every variable; swap "
                    "X/Y, reversed Z, permuted rows; verdict at 0.05, 0.5, p, nextafter(p)"),
        Group("pearsonr", gen_pearson_shift, check_pearsonr_shift, lambda c: True, engine="E3",
              bound="the first 60 of the same data sets, |Z| >= 1: r against the with-intercept specification on all of them, and invariance "
                    "under adding (+3,-7,10,100) to any one variable"),
    ]
