"""C12 bounded groups (E3): PC (all variants) and PDAG.to_dag against brute-force oracles.

Ground truth is a DAG.  Independence questions are answered exactly from it by the trail-enumerating
d-separation oracle of vf.bounded.oracles (never by pgmpy).  Expected results:
  skeleton      - the DAG's adjacencies;
  sepsets       - one per non-adjacent pair, really separating, drawn from the adjacency of an endpoint at call
                  time (callable mode records the call sequence), size between the global minimum and the minimum
                  over subsets of the true adjacency of an endpoint;
  CPDAG         - brute force: all acyclic orientations of the skeleton with the same v-structures; an edge is
                  compelled iff all members agree on it;
  DAG           - any member of that class.
PDAG.to_dag: brute force over all orientations of the undirected edges decides extendability.
"""
from __future__ import annotations

import itertools
import logging

from vf.core import Group
from vf.bounded import oracles as O

VARIANTS = ("orig", "stable", "parallel")


# ----------------------------------------------------------------------------- oracles (independent of pgmpy)
def nonadjacent_pairs(nodes, edges):
    sk = O.skeleton(edges)
    return [p for p in itertools.combinations(nodes, 2) if frozenset(p) not in sk]


def equivalence_class(nodes, edges):
    """all DAGs with the skeleton and the v-structures of `edges` (list of edge lists)."""
    und = [tuple(e) for e in edges]
    want = O.vstructures(edges)
    out = []
    for bits in itertools.product((0, 1), repeat=len(und)):
        E = [(u, v) if b == 0 else (v, u) for (u, v), b in zip(und, bits)]
        if O.is_acyclic(nodes, E) and O.vstructures(E) == want:
            out.append(E)
    return out


def cpdag(nodes, edges):
    """(compelled directed edges, reversible edges as frozensets)"""
    members = [set(E) for E in equivalence_class(nodes, edges)]
    directed, undirected = set(), set()
    for u, v in (tuple(e) for e in edges):
        if all((u, v) in m for m in members):
            directed.add((u, v))
        else:
            undirected.add(frozenset((u, v)))
    return directed, undirected


def pdag_vstructures(D, U):
    adj = {frozenset(e) for e in D} | {frozenset(e) for e in U}
    out = set()
    for a, c in D:
        for b, c2 in D:
            if c2 == c and a != b and frozenset((a, b)) not in adj:
                out.add((frozenset((a, b)), c))
    return out


def consistent_extensions(nodes, D, U):
    """DAGs with the skeleton of the PDAG that keep D and have exactly the PDAG's v-structures."""
    D = [tuple(e) for e in D]
    U = [tuple(e) for e in U]
    want = pdag_vstructures(D, U)
    out = []
    for bits in itertools.product((0, 1), repeat=len(U)):
        E = D + [(u, v) if b == 0 else (v, u) for (u, v), b in zip(U, bits)]
        if O.is_acyclic(nodes, E) and O.vstructures(E) == want:
            out.append(E)
    return out


class DSep:
    """memoised exact d-separation answers for one DAG."""

    def __init__(self, nodes, edges):
        self.nodes, self.edges, self.memo = list(nodes), [list(e) for e in edges], {}

    def indep(self, x, y, Z):
        k = (frozenset((x, y)), frozenset(Z))
        if k not in self.memo:
            self.memo[k] = not O.dconnected(self.nodes, self.edges, x, y, set(Z))
        return self.memo[k]

    def min_sep_size(self, x, y, pool=None):
        pool = [v for v in (self.nodes if pool is None else pool) if v not in (x, y)]
        for r in range(len(pool) + 1):
            for Z in itertools.combinations(pool, r):
                if self.indep(x, y, Z):
                    return r
        return None


def all_subsets(xs):
    xs = list(xs)
    for r in range(len(xs) + 1):
        yield from itertools.combinations(xs, r)


# ----------------------------------------------------------------------------- generators
def _names(n):
    return O.node_names(n, "long") if n % 2 == 0 else O.node_names(n, "x")


def has_triangle(pairs):
    sk = {frozenset(e) for e in pairs}
    nodes = sorted({v for e in sk for v in e})
    return any(frozenset((a, b)) in sk and frozenset((b, c)) in sk and frozenset((a, c)) in sk for a, b, c in itertools.combinations(nodes, 3))


def triangle_class(edges):
    """input class in which the one-directional adjacency tests of the orientation rules can matter: the skeleton has a
    triangle and the DAG has a v-structure (otherwise no triangle ever carries a directed edge during orientation)."""
    return bool(O.vstructures(edges)) and has_triangle(edges)


def _truth(tier, seed):
    rng = O.mk_rng(seed, "c12-truth")
    for n in (1, 2, 3, 4):
        names = _names(n)
        for edges in O.all_dags(n, names):
            yield {"nodes": names, "edges": edges, "n_jobs": 1}
    if tier == "quick":
        for _ in range(24):
            names = O.node_names(5, "long")
            order = names[:]
            rng.shuffle(order)
            yield {"nodes": order, "edges": O.random_dag(rng, 5, rng.choice((0.3, 0.5, 0.7)), names), "n_jobs": 1}
        return
    names = O.node_names(5, "long")
    for idx, edges in enumerate(O.all_dags(5, names)):
        if (idx + seed) % 12 == 0:
            order = names[:]
            rng.shuffle(order)
            yield {"nodes": order, "edges": edges, "n_jobs": 1}
    for _ in range(150):
        names = O.node_names(6)
        while True:
            edges = O.random_dag(rng, 6, rng.choice((0.2, 0.3, 0.45)), names)
            if len(edges) <= 9:
                break
        order = names[:]
        rng.shuffle(order)
        yield {"nodes": order, "edges": edges, "n_jobs": 1}


def gen_truth_seq(tier, seed):
    """ground-truth DAGs; members of triangle_class come last (a worker stops a group after 40 failures; a defect confined to
    that class must not cut the coverage of the rest)."""
    cases = list(_truth(tier, seed))
    yield from (c for c in cases if not triangle_class(c["edges"]))
    yield from (c for c in cases if triangle_class(c["edges"]))


def gen_truth(tier, seed):
    # parallel variant through joblib worker processes: rarely (process start-up is expensive)
    yield {"nodes": _names(4), "edges": [["alpha", "gamma"], ["beta", "gamma"], ["gamma", "delta"]], "n_jobs": 2}
    yield {"nodes": _names(3), "edges": [["x0", "x1"], ["x1", "x2"]], "n_jobs": 2}
    yield from gen_truth_seq(tier, seed)


def _small(tier, seed):
    """all DAGs <= 4 nodes; thorough: + 300 of the sampled 5-node DAGs (evenly spread)."""
    cases = list(gen_truth_seq(tier, seed))
    fives = [c for c in cases if len(c["nodes"]) == 5] if tier != "quick" else []
    fives = fives[::max(1, len(fives) // 300)][:300]
    out = [c for c in cases if len(c["nodes"]) <= 4] + fives
    return [c for c in out if not triangle_class(c["edges"])] + [c for c in out if triangle_class(c["edges"])]


def _multi(c):
    """some (x, Z) d-separates x from two or more variables: DAG.get_independencies then lists only the joint statement."""
    nodes, edges = c["nodes"], c["edges"]
    ds = DSep(nodes, edges)
    for x in nodes:
        rest = [v for v in nodes if v != x]
        for Z in all_subsets(rest):
            if sum(1 for y in rest if y not in Z and ds.indep(x, y, Z)) >= 2:
                return True
    return False


def gen_getind(tier, seed):
    cases = _small(tier, seed)
    flags = [_multi(c) for c in cases]
    yield from (c for c, f in zip(cases, flags) if not f)
    yield from (c for c, f in zip(cases, flags) if f)


def gen_indonly(tier, seed):
    yield from _small(tier, seed)


def gen_isolated(tier, seed):
    for c in _small(tier, seed):
        touched = {v for e in c["edges"] for v in e}
        if len(c["nodes"]) <= 4 and 2 <= len(c["nodes"]) and len(touched) < len(c["nodes"]):
            yield c


def gen_static(tier, seed):
    """true skeleton with permuted node / edge insertion order + an arbitrary valid separating set per pair."""
    rng = O.mk_rng(seed, "c12-static")
    for c in gen_truth_seq(tier, seed):
        if len(c["nodes"]) < 3:
            continue
        nodes, edges = c["nodes"], c["edges"]
        ds = DSep(nodes, edges)
        for rep in range(2 if len(nodes) <= 4 else 1):
            order = nodes[:]
            rng.shuffle(order)
            sk = [sorted(e, key=order.index) if rng.random() < 0.5 else sorted(e, key=order.index, reverse=True) for e in edges]
            rng.shuffle(sk)
            seps = []
            for x, y in nonadjacent_pairs(nodes, edges):
                cands = [list(Z) for Z in all_subsets([v for v in nodes if v not in (x, y)]) if ds.indep(x, y, Z)]
                seps.append([x, y, rng.choice(cands)])
            yield {"nodes": nodes, "edges": edges, "order": order, "skeleton": sk, "sepsets": seps}


def mixed_triangle(D, U):
    """a triangle of the PDAG with at least one directed and one undirected edge."""
    d = {frozenset(e) for e in D}
    u = {frozenset(e) for e in U}
    nodes = sorted({v for e in d | u for v in e})
    for t in itertools.combinations(nodes, 3):
        es = [frozenset(p) for p in itertools.combinations(t, 2)]
        if all(e in d or e in u for e in es) and any(e in d for e in es) and any(e in u for e in es):
            return True
    return False


def _pdags(mixed):
    for n in (2, 3, 4):
        names = _names(n)
        pairs = list(itertools.combinations(names, 2))
        for st in itertools.product((0, 1, 2, 3), repeat=len(pairs)):
            D, U = [], []
            for (a, b), s in zip(pairs, st):
                if s == 1:
                    D.append([a, b])
                elif s == 2:
                    D.append([b, a])
                elif s == 3:
                    U.append([a, b] if (len(U) + len(D)) % 2 == 0 else [b, a])
            if (not D and not U) or mixed_triangle(D, U) != mixed:
                continue
            if consistent_extensions(names, D, U):
                yield {"nodes": names, "D": D, "U": U}


def gen_pdags_plain(tier, seed):
    """every PDAG on <= 4 nodes (each pair: none / -> / <- / undirected) that has a consistent extension, no mixed triangle."""
    return _pdags(False)


def gen_pdags_mixed(tier, seed):
    return _pdags(True)


# ----------------------------------------------------------------------------- checks
def _quiet():
    logging.getLogger("pgmpy").setLevel(logging.ERROR)


def _dummy_data(nodes):
    import pandas as pd

    return pd.DataFrame([[0] * len(nodes), [1] * len(nodes)], columns=list(nodes))


def _full_independencies(nodes, ds):
    """every true pairwise statement (x _|_ y | Z) literally - the DAG's full independence list."""
    from pgmpy.independencies import Independencies

    ind = Independencies()
    for x, y in itertools.combinations(nodes, 2):
        for Z in all_subsets([v for v in nodes if v not in (x, y)]):
            if ds.indep(x, y, Z):
                ind.add_assertions([x, y, list(Z)])
    return ind


def _check_skeleton(tag, nodes, edges, ds, skel, seps, calls=None, variant=None):
    if set(skel.nodes()) != set(nodes):
        return {"key": "build_skeleton:nodes", "what": f"{tag}: skeleton nodes {sorted(skel.nodes())} != {sorted(nodes)}"}
    got = {frozenset(e) for e in skel.edges()}
    want = O.skeleton(edges)
    if got != want:
        return {"key": "build_skeleton:edges", "what": f"{tag}: truth {edges}: skeleton {sorted(map(sorted, got))}, expected {sorted(map(sorted, want))}"}
    na = {frozenset(p) for p in nonadjacent_pairs(nodes, edges)}
    if set(seps) != na:
        return {"key": "build_skeleton:sepset-keys", "what": f"{tag}: truth {edges}: separating sets for {sorted(map(sorted, seps))}, non-adjacent pairs are {sorted(map(sorted, na))}"}
    adj = {v: {w for e in want if v in e for w in e if w != v} for v in nodes}
    for p, S in seps.items():
        x, y = sorted(p, key=nodes.index)
        S = list(S)
        if x in S or y in S or not set(S) <= set(nodes) or len(set(S)) != len(S) or not ds.indep(x, y, S):
            return {"key": "build_skeleton:sepset-not-separating", "what": f"{tag}: truth {edges}: stored sepset({x},{y}) = {S} does not d-separate"}
        lo = ds.min_sep_size(x, y)
        hi = min(s for s in (ds.min_sep_size(x, y, adj[x]), ds.min_sep_size(x, y, adj[y])) if s is not None)
        if not lo <= len(S) <= hi:
            return {"key": "build_skeleton:sepset-size", "what": f"{tag}: truth {edges}: sepset({x},{y}) = {S}; level-wise search must find a set of size in [{lo},{hi}]"}
    if calls is not None:
        # replay the recorded question sequence: conditioning sets must come from the adjacency of an endpoint
        removed_now, removed_before, level = set(), set(), 0
        last_true = {}
        for u, v, S, ans in calls:
            if len(S) != level:
                if len(S) < level:
                    return {"key": "build_skeleton:level-order", "what": f"{tag}: conditioning set size decreased from {level} to {len(S)}"}
                level = len(S)
                removed_before = set(removed_now)
            gone = removed_now if variant == "orig" else removed_before
            if frozenset((u, v)) in gone:
                return {"key": "build_skeleton:sepset-not-from-adjacency", "what": f"{tag}: pair ({u},{v}) tested after its edge was removed"}
            au = {w for w in nodes if w not in (u, v) and frozenset((u, w)) not in gone}
            av = {w for w in nodes if w not in (u, v) and frozenset((v, w)) not in gone}
            if not (set(S) <= au or set(S) <= av):
                return {"key": "build_skeleton:sepset-not-from-adjacency",
                        "what": f"{tag}: truth {edges}: asked ({u} _|_ {v} | {list(S)}) but adj({u})={sorted(au)}, adj({v})={sorted(av)} at that time"}
            if ans:
                removed_now.add(frozenset((u, v)))
                last_true[frozenset((u, v))] = tuple(S)
        for p, S in seps.items():
            if p not in last_true or set(last_true[p]) != set(S):
                return {"key": "build_skeleton:sepset-not-the-accepted-one", "what": f"{tag}: stored sepset {sorted(p)} = {list(S)} but the accepted question was {last_true.get(p)}"}
    return None


def _check_pdag(tag, nodes, edges, pdag, expect_nodes=True):
    D = {tuple(e) for e in pdag.directed_edges}
    Ul = [tuple(e) for e in pdag.undirected_edges]
    U = {frozenset(e) for e in Ul}
    nxe = set(pdag.edges())
    if nxe != D | set(Ul) | {(v, u) for u, v in Ul} or any(frozenset(e) in U for e in D) or any((v, u) in D for u, v in D):
        return {"key": "skeleton_to_pdag:assembly", "what": f"{tag}: directed {sorted(D)} / undirected {sorted(Ul)} inconsistent with graph edges {sorted(nxe)}"}
    want_d, want_u = cpdag(nodes, edges)
    head = f"{tag}: truth {edges}: PDAG directed {sorted(D)} undirected {sorted(map(sorted, U))}; CPDAG directed {sorted(want_d)} undirected {sorted(map(sorted, want_u))}"
    if {frozenset(e) for e in D} | U != O.skeleton(edges):
        return {"key": "skeleton_to_pdag:skeleton-changed", "what": head}
    if (D, U) != (want_d, want_u):
        E = {tuple(e) for e in edges}
        for (pair, c) in O.vstructures(edges):
            for a in pair:
                if (a, c) not in D:
                    return {"key": "skeleton_to_pdag:vstructure-missing", "what": head + f" :: v-structure {sorted(pair)} -> {c} not oriented"}
        okey = "skeleton_to_pdag:orientation" if triangle_class(edges) else "skeleton_to_pdag:orientation-outside-triangle-class"
        if not O.is_acyclic(nodes, list(D)):
            return {"key": okey, "what": head + " :: directed cycle"}
        if D - want_d:
            bad = sorted(D - want_d)
            kind = "against the compelled direction / creates a v-structure or cycle" if any(e not in E for e in bad) else "a reversible edge was oriented"
            return {"key": okey, "what": head + f" :: wrongly oriented {bad} ({kind})"}
        return {"key": "skeleton_to_pdag:compelled-unoriented", "what": head + f" :: compelled {sorted(want_d - D)} left undirected"}
    if set(pdag.nodes()) != set(nodes) and (expect_nodes or not _only_isolated_missing(nodes, edges, pdag.nodes())):
        return {"key": "skeleton_to_pdag:nodes", "what": f"{tag}: truth {edges}: PDAG nodes {sorted(pdag.nodes())} != {sorted(nodes)}"}
    return None


def _only_isolated_missing(nodes, edges, got):
    """isolated variables missing from a result built without data are the business of the group isolated_nodes only."""
    touched = {v for e in edges for v in e}
    return touched <= set(got) <= set(nodes)


def _check_member(tag, nodes, edges, dag, expect_nodes=True):
    keyp = "estimate:dag"
    E = [tuple(e) for e in dag.edges()]
    if set(dag.nodes()) != set(nodes) and (expect_nodes or not _only_isolated_missing(nodes, edges, dag.nodes())):
        return {"key": f"{keyp}:nodes", "what": f"{tag}: truth {edges}: DAG nodes {sorted(dag.nodes())} != {sorted(nodes)}"}
    if not O.is_acyclic(nodes, E) or O.skeleton(E) != O.skeleton(edges) or len(E) != len(edges) or O.vstructures(E) != O.vstructures(edges):
        D, U = cpdag(nodes, edges)
        sfx = ":mixed-triangle" if mixed_triangle(D, [tuple(u) for u in U]) else ""  # input class of the PDAG.to_dag adjacency test
        return {"key": f"{keyp}:not-in-class{sfx}", "what": f"{tag}: truth {edges}: returned DAG {sorted(E)} is not Markov equivalent (acyclic={O.is_acyclic(nodes, E)})"}
    return None


def _run_pc(est, tag, nodes, edges, ds, variant, ci_test, n_jobs, mcv, calls=None, expect_nodes=True, rtypes=("skeleton", "pdag", "dag")):
    kw = dict(variant=variant, ci_test=ci_test, max_cond_vars=mcv, n_jobs=n_jobs, show_progress=False)
    for rt in rtypes:
        if calls is not None:
            del calls[:]
        res = est.estimate(return_type=rt, **kw)
        if rt.lower() == "skeleton":
            if not (isinstance(res, tuple) and len(res) == 2):
                return {"key": "estimate:return-type", "what": f"{tag}: return_type=skeleton gave {type(res)}"}
            f = _check_skeleton(tag, nodes, edges, ds, res[0], res[1], calls if n_jobs == 1 else None, variant)
        elif rt.lower() in ("pdag", "cpdag"):
            f = _check_pdag(f"{tag} return_type={rt}", nodes, edges, res, expect_nodes)
        else:
            f = _check_member(f"{tag} return_type={rt}", nodes, edges, res, expect_nodes)
        if f is not None:
            return f
    return None


def check_pc_oracle(case):
    """modes (a) callable d-separation oracle and (b) full pairwise independence list + 'independence_match'."""
    from pgmpy.estimators import PC

    _quiet()
    nodes, edges, n_jobs = case["nodes"], case["edges"], case["n_jobs"]
    n = len(nodes)
    ds = DSep(nodes, edges)
    data = _dummy_data(nodes)
    calls = []

    def ci(X, Y, Z, **kwargs):
        ans = ds.indep(X, Y, tuple(Z))
        calls.append((X, Y, tuple(Z), ans))
        return ans

    ind = _full_independencies(nodes, ds)
    k = len(edges)
    for vi, variant in enumerate(VARIANTS):
        if n_jobs != 1 and variant != "parallel":
            continue
        mcv = (n, n + 1, 5 + n)[(vi + k) % 3]
        rts = ("skeleton", ("pdag", "cpdag", "PDAG")[(vi + k) % 3], ("dag", "DAG")[k % 2])
        f = _run_pc(PC(data=data), f"callable oracle, variant={variant}, n_jobs={n_jobs}, max_cond_vars={mcv}", nodes, edges, ds, variant, ci, n_jobs, mcv,
                    calls=calls, rtypes=rts)
        if f is not None:
            return f
        if n_jobs == 1:
            f = _run_pc(PC(data=data, independencies=ind), f"independence_match on the full pairwise list, variant={variant}, max_cond_vars={mcv}", nodes, edges, ds,
                        variant, "independence_match", 1, mcv, rtypes=rts)
            if f is not None:
                return f
    # tight bound: every non-adjacent pair is separated by the parent set of the later one, so max_cond_vars = maximal in-degree is enough
    # for the exact skeleton (conditioning sets of size max_cond_vars itself must still be tried)
    d = max((sum(1 for e in edges if e[1] == v) for v in nodes), default=0)
    if d >= 1:
        variant = VARIANTS[(k + d) % 3] if n_jobs == 1 else "parallel"
        f = _run_pc(PC(data=data), f"callable oracle, variant={variant}, n_jobs={n_jobs}, max_cond_vars={d} (= maximal in-degree)", nodes, edges, ds, variant, ci,
                    n_jobs, d, calls=calls, rtypes=("skeleton", "pdag"))
        if f is not None:
            f["key"] += ":tight-max_cond_vars"
            return f
    return None


def check_pc_independencies_only(case):
    """PC(independencies=full list) without data: variables are those mentioned in the list (DAGs whose list does not
    mention every node are outside: the interface cannot convey them)."""
    from pgmpy.estimators import PC

    _quiet()
    nodes, edges = case["nodes"], case["edges"]
    ds = DSep(nodes, edges)
    ind = _full_independencies(nodes, ds)
    if set(ind.get_all_variables()) != set(nodes):
        return None
    variant = VARIANTS[len(edges) % 3]
    return _run_pc(PC(independencies=ind), f"independencies only, variant={variant}", nodes, edges, ds, variant, "independence_match", 1, len(nodes),
                   expect_nodes=False)


def _mentions_all(case):
    nodes, edges = case["nodes"], case["edges"]
    ds = DSep(nodes, edges)
    seen = set()
    for x, y in itertools.combinations(nodes, 2):
        for Z in all_subsets([v for v in nodes if v not in (x, y)]):
            if ds.indep(x, y, Z):
                seen |= {x, y, *Z}
    return seen == set(nodes)


def check_pc_get_independencies(case):
    """the documented usage PC(independencies=model.get_independencies()) + 'independence_match'."""
    from pgmpy.base import DAG
    from pgmpy.estimators import PC

    _quiet()
    nodes, edges = case["nodes"], case["edges"]
    ds = DSep(nodes, edges)
    g = DAG()
    g.add_nodes_from(nodes)
    g.add_edges_from([tuple(e) for e in edges])
    ind = g.get_independencies()
    variant = VARIANTS[len(edges) % 3]
    from pgmpy.estimators.CITests import independence_match

    for x, y in itertools.combinations(nodes, 2):
        for Z in all_subsets([v for v in nodes if v not in (x, y)]):
            if bool(independence_match(x, y, Z, independencies=ind)) != ds.indep(x, y, Z):
                return {"key": "independence_match:not-entailed",
                        "what": f"truth {edges}: independence_match({x},{y},{list(Z)}) on DAG.get_independencies() = {not ds.indep(x, y, Z)} but d-separation "
                                f"says {ds.indep(x, y, Z)} (the list holds ({x} _|_ a superset | {list(Z)}) only)"}
    # the same knowledge as a compact one-sided list: for x and Z one assertion (later separated nodes _|_ x | Z), several variables on the FIRST
    # side; every independent pair is entailed by exactly one assertion, in one orientation - both query orders must still match
    from pgmpy.independencies import Independencies

    one = Independencies()
    for i, x in enumerate(nodes):
        for Z in all_subsets([v for v in nodes if v != x]):
            S = [y for y in nodes[i + 1:] if y not in Z and ds.indep(x, y, Z)]
            if S:
                one.add_assertions([S, x, list(Z)])
    for x, y in itertools.permutations(nodes, 2):
        for Z in all_subsets([v for v in nodes if v not in (x, y)]):
            if bool(independence_match(x, y, Z, independencies=one)) != ds.indep(x, y, Z):
                return {"key": "independence_match:one-sided-list", "what": f"truth {edges}: independence_match({x},{y},{list(Z)}) = {not ds.indep(x, y, Z)} on the one-sided "
                                f"compact list {one.get_assertions()}, d-separation says {ds.indep(x, y, Z)}"}
    est = PC(data=_dummy_data(nodes), independencies=ind)
    return _run_pc(est, f"get_independencies, variant={variant}", nodes, edges, ds, variant, "independence_match", 1, len(nodes))


def check_static(case):
    """PC.skeleton_to_pdag on the true skeleton (permuted insertion order) with arbitrary valid separating sets."""
    import networkx as nx
    from pgmpy.estimators import PC

    _quiet()
    nodes, edges = case["nodes"], case["edges"]
    sk = nx.Graph()
    sk.add_nodes_from(case["order"])
    sk.add_edges_from([tuple(e) for e in case["skeleton"]])
    seps = {frozenset((x, y)): tuple(S) for x, y, S in case["sepsets"]}
    before = (list(sk.nodes()), sorted(map(sorted, sk.edges())), dict(seps))
    pdag = PC.skeleton_to_pdag(sk, seps)
    f = _check_pdag(f"skeleton_to_pdag(order={case['order']}, sepsets={case['sepsets']})", nodes, edges, pdag, expect_nodes=False)
    if f is not None:
        return f
    if (list(sk.nodes()), sorted(map(sorted, sk.edges())), dict(seps)) != before:
        return {"key": "skeleton_to_pdag:mutated-arguments", "what": "skeleton / separating sets changed by the call"}
    return None


def check_isolated(case):
    """variables without any edge must still be variables of the PDAG / DAG result when no data frame carries them."""
    import networkx as nx
    from pgmpy.estimators import PC

    _quiet()
    nodes, edges = case["nodes"], case["edges"]
    ds = DSep(nodes, edges)
    ind = _full_independencies(nodes, ds)
    if set(ind.get_all_variables()) == set(nodes):
        for rt in ("pdag", "dag"):
            res = PC(independencies=ind).estimate(variant="stable", ci_test="independence_match", max_cond_vars=len(nodes), return_type=rt, n_jobs=1,
                                                  show_progress=False)
            if set(res.nodes()) != set(nodes):
                return {"key": "estimate:nodes-dropped", "what": f"PC(independencies=full list of {edges} on {nodes}).estimate(return_type={rt}) has nodes "
                        f"{sorted(res.nodes())}; the variables are {sorted(nodes)}"}
    sk = nx.Graph()
    sk.add_nodes_from(nodes)
    sk.add_edges_from([tuple(e) for e in edges])
    seps = {frozenset(p): tuple(next(Z for Z in all_subsets([v for v in nodes if v not in p]) if ds.indep(p[0], p[1], Z))) for p in nonadjacent_pairs(nodes, edges)}
    pdag = PC.skeleton_to_pdag(sk, seps)
    if set(pdag.nodes()) != set(nodes):
        return {"key": "skeleton_to_pdag:nodes-dropped", "what": f"truth {edges}: skeleton nodes {sorted(nodes)} but PDAG nodes {sorted(pdag.nodes())}"}
    return None


def _check_to_dag(tag, nodes, D, U, keyp):
    from pgmpy.base import PDAG

    p = PDAG(directed_ebunch=[tuple(e) for e in D], undirected_ebunch=[tuple(e) for e in U])
    p.add_nodes_from(nodes)
    d = p.to_dag()
    E = [tuple(e) for e in d.edges()]
    head = f"{tag}: PDAG directed {D} undirected {U}: to_dag gave {sorted(E)}"
    if set(d.nodes()) != set(nodes):
        return {"key": f"{keyp}:nodes", "what": head + f" with nodes {sorted(d.nodes())}"}
    if not O.is_acyclic(nodes, E):
        return {"key": f"{keyp}:cyclic", "what": head + " (directed cycle); a consistent extension exists: " + str(consistent_extensions(nodes, D, U)[0])}
    if O.skeleton(E) != O.skeleton(list(D) + list(U)) or len(E) != len(D) + len(U):
        return {"key": f"{keyp}:skeleton", "what": head + " (different skeleton)"}
    if not {tuple(e) for e in D} <= set(E):
        return {"key": f"{keyp}:directed-edge-lost", "what": head}
    want = pdag_vstructures([tuple(e) for e in D], [tuple(e) for e in U])
    if O.vstructures(E) != want:
        return {"key": f"{keyp}:new-vstructure", "what": head + f" with v-structures {sorted((sorted(p), c) for p, c in O.vstructures(E))}, PDAG has "
                f"{sorted((sorted(p), c) for p, c in want)}; a consistent extension exists: {consistent_extensions(nodes, D, U)[0]}"}
    return None


def check_to_dag_cpdag(case):
    _quiet()
    nodes, edges = case["nodes"], case["edges"]
    D, U = cpdag(nodes, edges)
    rng = O.mk_rng(len(edges), "c12-cp", *nodes)
    Dl = sorted(D)
    rng.shuffle(Dl)
    Ul = [tuple(sorted(e)) if rng.random() < 0.5 else tuple(sorted(e, reverse=True)) for e in sorted(U, key=sorted)]
    rng.shuffle(Ul)
    return _check_to_dag("CPDAG of " + str(edges), nodes, [list(e) for e in Dl], [list(e) for e in Ul],
                         "to_dag:cpdag" + (":mixed-triangle" if mixed_triangle(Dl, Ul) else ""))


def check_to_dag_pdag(case):
    _quiet()
    return _check_to_dag("extendable PDAG", case["nodes"], case["D"], case["U"], "to_dag:pdag")


def nontrivial(case):
    if "D" in case:
        return True
    return len(case["edges"]) >= 1


def groups(tier):
    dags = ("every labelled DAG on 1..4 nodes (572)" + (" + 24 seeded random 5-node DAGs" if tier == "quick" else
            " + every 12th of the 29281 five-node DAGs (rotating with the seed) + 150 seeded random 6-node DAGs with <= 9 edges"))
    return [
        Group("pc_oracle", gen_truth, check_pc_oracle, nontrivial, seed_fanout=8, engine="E3",
              bound=dags + "; ground truth answered exactly (a) by a callable d-separation oracle (call sequence recorded) and (b) by the full pairwise "
                    "independence list with ci_test='independence_match' (+ a data frame that only carries the column names); variants orig/stable/parallel "
                    "(n_jobs=1; 2 cases with n_jobs=2), max_cond_vars in {n,n+1,n+5} and = the maximal in-degree (tight), return types skeleton / pdag|cpdag / dag; 8 hash seeds per case"),
        Group("pc_independencies_only", gen_indonly, check_pc_independencies_only, lambda c: nontrivial(c) and _mentions_all(c), seed_fanout=4, engine="E3",
              bound="DAGs <= 4 nodes (thorough: + 300 five-node DAGs) whose pairwise independence list mentions every node (others cannot be conveyed through PC(independencies=...) "
                    "without data and are skipped); one variant per case; isolated nodes missing from the PDAG/DAG are left to group isolated_nodes"),
        Group("pc_get_independencies", gen_getind, check_pc_get_independencies, nontrivial, seed_fanout=2, engine="E3",
              bound="DAGs <= 4 nodes (thorough: + 300 five-node DAGs); independencies=DAG.get_independencies() as produced by pgmpy: every pairwise question through "
                    "CITests.independence_match, then PC (one variant, all return types) if all answers are exact"),
        Group("skeleton_to_pdag", gen_static, check_static, nontrivial, seed_fanout=8, engine="E3",
              bound="same DAG enumeration (>= 3 nodes); true skeleton with seeded node/edge insertion order, one seeded arbitrary (not necessarily minimal) "
                    "separating set per non-adjacent pair; result compared with the brute-force CPDAG"),
        Group("isolated_nodes", gen_isolated, check_isolated, None, seed_fanout=1, engine="E3",
              bound="DAGs on 2..4 nodes with at least one isolated node: node set of PC(independencies only) pdag/dag results and of PC.skeleton_to_pdag"),
        Group("to_dag_cpdag", gen_truth_seq, check_to_dag_cpdag, nontrivial, seed_fanout=8, engine="E3", bound="brute-force CPDAG of every DAG of the same enumeration"),
        Group("to_dag_pdag", gen_pdags_plain, check_to_dag_pdag, nontrivial, seed_fanout=8, engine="E3",
              bound="all PDAGs on 2..4 nodes (every pair none/->/<-/undirected) that have a consistent extension by brute force and contain no triangle "
                    "with both directed and undirected edges"),
        Group("to_dag_pdag_mixed_triangle", gen_pdags_mixed, check_to_dag_pdag, nontrivial, seed_fanout=8, engine="E3",
              bound="all extendable PDAGs on 3..4 nodes that contain a triangle with both directed and undirected edges"),
    ]
