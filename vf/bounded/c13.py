"""C13 bounded groups (E3): do() surgery, CausalInference.query vs. the truncated factorisation,
back-door / front-door / adjustment criteria vs. path-based oracles, simulate(do=...) support.

Oracles: brute-force truncated factorisation with Fractions (prod_{v not in do} P(v | pa(v)) with the do
variables clamped), criteria checked literally on the list of simple trails (O.simple_trails/O.trail_active).
Nothing on the oracle side calls a pgmpy algorithm.
"""
from __future__ import annotations

import itertools
from fractions import Fraction

from vf.core import Group
from vf.bounded import oracles as O

TOL = 1e-8
NAMES = {1: ["alpha"], 2: ["beta", "alpha"], 3: ["x1", "gamma", "beta"], 4: ["delta", "x0", "beta", "alpha"],
         5: ["n4", "delta", "x0", "beta", "alpha"]}


def _subsets(xs, lo=0, hi=None):
    xs = list(xs)
    for r in range(lo, (len(xs) if hi is None else min(len(xs), hi)) + 1):
        for c in itertools.combinations(xs, r):
            yield list(c)


# ----------------------------------------------------------------------------- oracles
def trunc_posterior(spec, query, do, evidence=None):
    """P(query | do(do), evidence) by the truncated factorisation, exact; None if the evidence has probability 0."""
    evidence = evidence or {}
    fixed = {**do, **evidence}
    rest = [v for v in spec["nodes"] if v not in query and v not in fixed]
    free = [v for v in spec["nodes"] if v not in do]
    out = {}
    for qa in O.all_assignments(spec, query):
        tot = Fraction(0)
        for ra in O.all_assignments(spec, rest):
            a = {**qa, **ra, **fixed}
            p = Fraction(1)
            for v in free:
                p *= O.cpd_value(spec, v, a)
            tot += p
        out[tuple(qa[v] for v in query)] = tot
    z = sum(out.values())
    if z == 0:
        return None
    return {k: v / z for k, v in out.items()}


def bd_oracle(nodes, edges, X, Y, Z):
    """back-door criterion on paths: Z has no descendant of X (nor X) and blocks every X..Y trail starting with an arrow into X."""
    Z = set(Z)
    if Z & O.descendants_or_self(edges, [X]):
        return False
    E = {tuple(e) for e in edges}
    for t in O.simple_trails(nodes, edges, X, Y):
        if (t[1], X) in E and O.trail_active(edges, t, Z):
            return False
    return True


def bd_oracle_set(nodes, edges, Xs, Ys, Z):
    return all(bd_oracle(nodes, edges, x, y, Z) for x in Xs for y in Ys) and not (set(Z) & O.descendants_or_self(edges, Xs))


def _is_directed(edges_set, t):
    return all((t[i], t[i + 1]) in edges_set for i in range(len(t) - 1))


def adj_oracle(nodes, edges, X, Y, Z):
    """adjustment criterion for singletons X, Y: Z avoids the forbidden set (descendants of the nodes on causal paths
    other than X, and X itself) and blocks every X..Y trail that is not a directed path X -> ... -> Y."""
    Z = set(Z)
    E = {tuple(e) for e in edges}
    trails = O.simple_trails(nodes, edges, X, Y)
    cn = set()
    for t in trails:
        if _is_directed(E, t):
            cn |= set(t[1:])
    if Z & (O.descendants_or_self(edges, cn) | {X, Y}):
        return False
    for t in trails:
        if not _is_directed(E, t) and O.trail_active(edges, t, Z):
            return False
    return True


def adj_oracle_sets(nodes, edges, Xs, Ys, Z, pairs=None):
    """adjustment criterion for sets and Z among the non-descendants of Xs: every proper (no second X node) X..Y trail that is
    not directed must be blocked by Z.  pairs: restrict to these (x, y) pairs (used to recognise the zip() reading)."""
    Z = set(Z)
    E = {tuple(e) for e in edges}
    for x, y in (pairs if pairs is not None else itertools.product(Xs, Ys)):
        for t in O.simple_trails(nodes, edges, x, y):
            if set(t[1:]) & set(Xs) or _is_directed(E, t):
                continue
            if O.trail_active(edges, t, Z):
                return False
    return True


def fd_oracle(nodes, edges, X, Y, Z):
    """the three front-door clauses on paths."""
    Z = set(Z)
    E = {tuple(e) for e in edges}
    # (i) Z intercepts every directed path X -> ... -> Y
    for t in O.simple_trails(nodes, edges, X, Y):
        if _is_directed(E, t) and not (set(t[1:-1]) & Z):
            return False
    # (ii) no unblocked back-door path from X to Z
    for z in Z:
        for t in O.simple_trails(nodes, edges, X, z):
            if (t[1], X) in E and O.trail_active(edges, t, set()):
                return False
    # (iii) every back-door path from Z to Y is blocked by X
    for z in Z:
        for t in O.simple_trails(nodes, edges, z, Y):
            if (t[1], z) in E and O.trail_active(edges, t, {X}):
                return False
    return True


def has_directed_path(nodes, edges, X, Y):
    return Y in O.descendants_or_self(edges, [X]) and X != Y


# ----------------------------------------------------------------------------- model generation
def _bn_cases(tier, seed, salt, sizes, variants):
    """one case per (DAG, variant): cards in {2,3}, positive tables, shuffled parent orders, str/int/mixed state names."""
    for n in sizes:
        names = NAMES[n]
        for di, edges in enumerate(O.all_dags(n, names)):
            for k in range(variants):
                rng = O.mk_rng(seed, salt, n, di, k)
                cards = {v: rng.choice((2, 3)) for v in names}
                if k == 0:
                    cards = {v: (3 if i % 2 == 0 else 2) for i, v in enumerate(names)}
                style = O.STATE_STYLES[(di + k) % 3]
                spec = O.random_bn_spec(rng, names, edges, cards=cards, style=style, zeros=False)
                yield {"spec": O.spec_to_json(spec), "variant": k}


def _cpd_matches(cpd, spec, v, parents, table):
    """named-assignment comparison of a TabularCPD with (parents, table) of the spec."""
    if cpd.variables[0] != v or set(cpd.variables[1:]) != set(parents) or len(cpd.variables) != 1 + len(parents):
        return f"scope {cpd.variables} != [{v}] + {parents}"
    for u in [v] + list(parents):
        if list(cpd.state_names[u]) != list(spec["states"][u]):
            return f"state names of {u}: {cpd.state_names[u]} != {spec['states'][u]}"
    for a in O.all_assignments(spec, [v] + list(parents)):
        want = table[spec["states"][v].index(a[v])][O.col_index(spec, parents, a)]
        got = cpd.get_value(**a)
        if not O.close(got, want, 1e-12):
            return f"value at {a}: {got} != {want}"
    return None


# ----------------------------------------------------------------------------- group: do surgery
def gen_surgery(tier, seed):
    yield from _bn_cases(tier, seed, "c13-surgery", (1, 2, 3, 4), 1 if tier == "quick" else 3)


def _edges_of(g):
    return {tuple(e) for e in g.edges()}


def check_surgery(case):
    from pgmpy.base import DAG

    spec = O.spec_from_json(case["spec"])
    nodes, edges = spec["nodes"], spec["edges"]
    E = {tuple(e) for e in edges}
    lat = [nodes[-1]] if (len(edges) + case.get("variant", 0)) % 2 else []
    deferred = None
    for S in _subsets(nodes, 1, 3 if len(nodes) <= 3 else 2):
        wantE = {e for e in E if e[1] not in S}
        forms = [("list", list(S)), ("tuple", tuple(reversed(S))), ("set", set(S))] + ([("str", S[0])] if len(S) == 1 else [])
        for fname, arg in forms:
            for inplace in (False, True):
                # ---- DAG.do
                g = DAG()
                g.add_nodes_from(nodes)
                g.add_edges_from([tuple(e) for e in edges])
                r = g.do(arg, inplace=inplace)
                if inplace and r is not g and r is not None:
                    return {"key": "DAG.do:inplace-result", "what": f"do({arg!r}, inplace=True) returned a different object"}
                tgt = g if inplace else r
                if set(tgt.nodes()) != set(nodes):
                    return {"key": "DAG.do:nodes", "what": f"do({arg!r}, inplace={inplace}): nodes {sorted(tgt.nodes())} != {sorted(nodes)}"}
                if _edges_of(tgt) != wantE:
                    return {"key": "DAG.do:edges", "what": f"edges {sorted(E)} do({arg!r}, inplace={inplace}) -> {sorted(_edges_of(tgt))}, expected {sorted(wantE)}"}
                if not inplace and (_edges_of(g) != E or set(g.nodes()) != set(nodes)):
                    return {"key": "DAG.do:original-mutated", "what": f"do({arg!r}) changed the receiver: {sorted(_edges_of(g))}"}
                # ---- BayesianNetwork.do
                m = O.make_bn(spec, latents=lat)
                r = m.do(arg, inplace=inplace)
                if inplace and r is not m and r is not None:
                    return {"key": "BayesianNetwork.do:inplace-result", "what": f"do({arg!r}, inplace=True) returned a different object"}
                tgt = m if inplace else r
                if type(tgt).__name__ != "BayesianNetwork":
                    return {"key": "BayesianNetwork.do:type", "what": f"result type {type(tgt).__name__}"}
                if set(tgt.nodes()) != set(nodes):
                    return {"key": "BayesianNetwork.do:nodes", "what": f"do({arg!r}, inplace={inplace}): nodes {sorted(tgt.nodes())}"}
                if _edges_of(tgt) != wantE:
                    return {"key": "BayesianNetwork.do:edges", "what": f"edges {sorted(E)} do({arg!r}, inplace={inplace}) -> {sorted(_edges_of(tgt))}, expected {sorted(wantE)}"}
                if set(tgt.latents) != set(lat):
                    return {"key": "BayesianNetwork.do:latents", "what": f"latents {tgt.latents} != {lat}"}
                if len(tgt.get_cpds()) != len(nodes):
                    return {"key": "BayesianNetwork.do:cpd-count", "what": f"{len(tgt.get_cpds())} CPDs for {len(nodes)} nodes"}
                for v in nodes:
                    c = spec["cpd"][v]
                    cpd = tgt.get_cpds(v)
                    if v in S:
                        ncol = len(c["table"][0])
                        marg = [[sum(row) / ncol] for row in c["table"]]
                        if list(cpd.variables) != [v]:
                            return {"key": "BayesianNetwork.do:intervened-cpd-scope", "what": f"do({arg!r}): scope of cpd({v}) is {cpd.variables}"}
                        vals = [float(x) for x in cpd.get_values().reshape(-1)]
                        if len(vals) != len(spec["states"][v]) or any(x < -1e-12 for x in vals) or not O.close(sum(vals), 1, 1e-9):
                            return {"key": "BayesianNetwork.do:intervened-cpd-invalid", "what": f"cpd({v}) after do: {vals}"}
                        bad = _cpd_matches(cpd, spec, v, [], marg)
                        if bad:
                            return {"key": "BayesianNetwork.do:intervened-cpd-marginal", "what": f"do({arg!r}) cpd({v}) is not the marginalised CPD: {bad}"}
                    else:
                        bad = _cpd_matches(cpd, spec, v, c["parents"], c["table"])
                        if bad:
                            return {"key": "BayesianNetwork.do:other-cpd-changed", "what": f"do({arg!r}, inplace={inplace}) changed cpd({v}): {bad}"}
                try:
                    tgt.check_model()
                except Exception as e:  # noqa
                    return {"key": "BayesianNetwork.do:check_model", "what": f"do({arg!r}) result fails check_model: {e}"}
                if not inplace:
                    if _edges_of(m) != E or set(m.nodes()) != set(nodes):
                        return {"key": "BayesianNetwork.do:original-mutated", "what": f"do({arg!r}) changed the receiver's edges: {sorted(_edges_of(m))}"}
                    for v in nodes:
                        bad = _cpd_matches(m.get_cpds(v), spec, v, spec["cpd"][v]["parents"], spec["cpd"][v]["table"])
                        if bad:
                            return {"key": "BayesianNetwork.do:original-mutated", "what": f"do({arg!r}) changed the receiver's cpd({v}): {bad}"}
                        if m.get_cpds(v) is tgt.get_cpds(v):
                            return {"key": "BayesianNetwork.do:shared-cpd", "what": f"cpd({v}) object shared between original and result"}
    for obj, nm in ((DAG([tuple(e) for e in edges]) if edges else DAG(), "DAG"), (O.make_bn(spec), "BayesianNetwork")):
        for bad in ("__nope__", [nodes[0], "__nope__"]):
            for inplace in (False, True):
                try:
                    obj.do(bad, inplace=inplace)
                except ValueError:
                    pass
                else:
                    return {"key": f"{nm}.do:unknown-node-accepted", "what": f"do({bad!r}, inplace={inplace}) did not raise ValueError"}
                if nm == "BayesianNetwork" and (_edges_of(obj) != E):
                    return {"key": f"{nm}.do:unknown-node-mutated", "what": f"failed do({bad!r}) changed the edges"}
    return deferred


def gen_dag_latents(tier, seed):
    for n in (2, 3, 4):
        yield {"nodes": NAMES[n], "dags": list(O.all_dags(n, NAMES[n]))}


def check_dag_latents(case):
    """DAG.do keeps the latent marking of the nodes (one case = all DAGs on n nodes: the known defect hits every input)."""
    from pgmpy.base import DAG

    nodes = case["nodes"]
    for edges in case["dags"]:
        for lat in ([nodes[0]], [nodes[-1], nodes[0]]):
            for x in nodes:
                for inplace in (True, False):
                    g = DAG(latents=set(lat))
                    g.add_nodes_from(nodes)
                    g.add_edges_from([tuple(e) for e in edges])
                    r = g.do([x], inplace=inplace)
                    tgt = g if inplace else r
                    if set(g.latents) != set(lat):
                        return {"key": "DAG.do:latents-of-receiver", "what": f"edges={edges} do([{x!r}], inplace={inplace}): receiver latents {g.latents} != {lat}"}
                    if inplace and set(tgt.latents) != set(lat):
                        # out-of-place DAG.do returns a networkx copy without latent flags; C13 does not promise them
                        return {"key": "DAG.do:latents-dropped", "what": f"DAG(latents={lat}, edges={edges}).do([{x!r}], inplace={inplace}).latents == {tgt.latents}"}
    return None


# ----------------------------------------------------------------------------- groups: query*
def gen_query(tier, seed, every_quick=6, every_thorough=1, latent_variant=True):
    for i, c in enumerate(_bn_cases(tier, seed, "c13-query", (1, 2, 3, 4), 2)):
        n = len(c["spec"]["nodes"])
        every = every_quick if tier == "quick" else every_thorough
        if n == 4 and (c["variant"] == 1 or (i // 2 + seed) % every):
            continue
        if c["variant"] == 1 and not latent_variant:
            continue
        c["latent"] = c["variant"] == 1 and n >= 2
        yield c


def gen_query_sub(tier, seed):
    yield from gen_query(tier, seed, 6, 3, latent_variant=False)


def _compare(res, spec, Y, want):
    if set(res.variables) != set(Y) or len(res.variables) != len(Y):
        return f"scope {res.variables} != {Y}"
    for v in Y:
        if list(res.state_names[v]) != list(spec["states"][v]):
            return f"state names of {v}: {res.state_names[v]}"
    for a in O.all_assignments(spec, Y):
        got = O.factor_value(res, a)
        w = want[tuple(a[v] for v in Y)]
        if not (abs(got - float(w)) <= TOL):
            return f"P({a}) = {got}, truncated factorisation gives {float(w)} ({w})"
    return None


def _pick_states(spec, S):
    if len(S) == 1:
        return [{S[0]: s} for s in spec["states"][S[0]]]
    a, b = S
    sa, sb = spec["states"][a], spec["states"][b]
    return [{a: sa[0], b: sb[-1]}, {a: sa[-1], b: sb[0]}]


# failure classes that are genuine defects of the engine (reported with their own key after the rest of the case was checked)
DEFECT_KEYS = ("query:evidence-outside-adjustment-set", "query:multi-do:parent-child", "query:multi-do:default-adjustment")


def _check_query(case, mode):
    """mode 'base': no / single do, evidence absent or inside the adjustment set (or no adjustment needed);
    'evidence': single do, evidence on a variable outside a non-empty adjustment set;  'multi': two do variables."""
    from pgmpy.inference import CausalInference

    spec = O.spec_from_json(case["spec"])
    nodes, edges = spec["nodes"], spec["edges"]
    lat = []
    if case.get("latent"):
        # the node with most children is latent (a confounder when possible)
        lat = [max(nodes, key=lambda v: (len(O.children_of(edges, v)), v))]
    model = O.make_bn(spec, latents=lat)
    obs = [v for v in nodes if v not in lat]
    deferred = {}
    # BeliefPropagation refuses models whose moral graph is disconnected ("No sepset found"): accepted refusal
    connected = len(O.descendants_or_self([e for e in edges] + [[b, a] for a, b in edges], nodes[:1])) == len(nodes)
    sizes = {"base": (0, 1), "evidence": (1, 1), "multi": (2, 2)}[mode]
    for S in _subsets(obs, *sizes):
        pa = set()
        for x in S:
            pa |= set(O.parents_of(edges, x))
        others = [v for v in nodes if v not in S]
        for do in (_pick_states(spec, S) if S else [{}]):
            for Y in _subsets(others, 1, 2):
                if set(Y) & set(lat):
                    continue
                # adjustment sets: default + every observed set that satisfies the back-door criterion on paths for (S, Y)
                adjs = [None]
                if S:
                    cand = [v for v in obs if v not in S and v not in Y]
                    for Z in _subsets(cand):
                        if bd_oracle_set(nodes, edges, S, Y, Z) and set(Z) != pa:
                            adjs.append(Z)
                for adj in adjs:
                    adjset = pa if adj is None else set(adj)
                    evs = [None]
                    for e in others:
                        if e not in Y and e not in lat:
                            st = spec["states"][e]
                            evs.append({e: st[(len(Y) + len(S)) % len(st)]})
                    for ev in evs:
                        # default set empty = no parents: conditioning is the right answer; an explicit set only licenses
                        # evidence outside it when it is also valid for the evidence variables as outcomes
                        outside = ev is not None and not (set(ev) <= adjset) and (adj is not None or bool(adjset))
                        if outside != (mode == "evidence"):
                            continue
                        if outside and adj is not None and not bd_oracle_set(nodes, edges, S, list(Y) + list(ev), adj):
                            continue
                        want = trunc_posterior(spec, Y, do, ev)
                        for algo in ("ve", "bp"):
                            if algo == "bp" and ev is not None and adj is not None:
                                continue
                            desc = f"query({Y}, do={do}, evidence={ev}, adjustment_set={adj}, inference_algo={algo!r}) latents={lat} edges={edges}"
                            refuse_latent = adj is None and bool(pa & set(lat))
                            overlap = bool(set(Y) & (adjset | set(S)))
                            ci = CausalInference(model)
                            try:
                                res = ci.query(list(Y), do=dict(do), evidence=dict(ev) if ev else None,
                                               adjustment_set=None if adj is None else set(adj), inference_algo=algo, show_progress=False)
                            except ValueError as ex:
                                if refuse_latent or overlap or (algo == "bp" and not connected):
                                    continue
                                return {"key": "query:refused", "what": f"{desc}: ValueError {ex}"}
                            if refuse_latent:
                                return {"key": "query:latent-parent-accepted", "what": f"{desc}: default adjustment set contains a latent but no ValueError"}
                            bad = _compare(res, spec, Y, want)
                            if bad:
                                if len(S) > 1 and adj is None and ((pa - set(S)) & (O.descendants_or_self(spec["edges"], list(S)) - set(S))):
                                    # a remaining parent is a descendant of another do-variable: known finding K10
                                    key = "query:multi-do:default-adjustment"
                                elif len(S) > 1 and adj is None and (pa & set(S)):
                                    key = "query:multi-do:parent-child"
                                elif len(S) > 1 and adj is None:
                                    key = "query:multi-do:default-adjustment"
                                elif outside:
                                    key = "query:evidence-outside-adjustment-set"
                                elif overlap:
                                    key = "query:overlap-not-refused"
                                else:
                                    key = "query:value"
                                if key in DEFECT_KEYS:
                                    deferred.setdefault(key, {"key": key, "what": f"{desc}: {bad}"})
                                    continue
                                return {"key": key, "what": f"{desc}: {bad}"}
    if _edges_of(model) != {tuple(e) for e in edges}:
        return {"key": "query:model-mutated", "what": "edges of the model changed by queries"}
    for v in nodes:
        bad = _cpd_matches(model.get_cpds(v), spec, v, spec["cpd"][v]["parents"], spec["cpd"][v]["table"])
        if bad:
            return {"key": "query:model-mutated", "what": f"cpd({v}) changed by queries: {bad}"}
    for k in DEFECT_KEYS:
        if k in deferred:
            return deferred[k]
    return None


def check_query(case):
    return _check_query(case, "base")


def check_query_evidence(case):
    return _check_query(case, "evidence")


def check_query_multi(case):
    return _check_query(case, "multi")


# ----------------------------------------------------------------------------- group: criteria
def gen_criteria(tier, seed):
    for n in (2, 3, 4):
        names = NAMES[n]
        for edges in O.all_dags(n, names):
            yield {"nodes": names, "edges": edges}
    # five nodes: a descendant of X that is not a child (grand-child blocking a back-door path) needs >= 5 nodes
    rng = O.mk_rng(seed, "c13-crit5")
    names = NAMES[5]
    yield {"nodes": names, "edges": [[names[0], names[1]], [names[0], names[2]], [names[1], names[3]], [names[3], names[2]], [names[2], names[4]]]}
    for k in range(40 if tier == "quick" else 600):
        yield {"nodes": names, "edges": O.random_dag(rng, 5, rng.choice((0.3, 0.5, 0.7)), names)}


def check_criteria(case):
    from pgmpy.inference import CausalInference
    from pgmpy.models import BayesianNetwork

    nodes, edges = case["nodes"], case["edges"]
    E = {tuple(e) for e in edges}
    for lat in [[]] + [[v] for v in nodes]:
        m = BayesianNetwork(latents=set(lat))
        m.add_nodes_from(nodes)
        m.add_edges_from([tuple(e) for e in edges])
        ci = CausalInference(m)
        for X, Y in itertools.permutations(nodes, 2):
            deX = O.descendants_or_self(edges, [X])
            nd = [v for v in nodes if v not in deX and v != Y]
            where = f"edges={edges} latents={lat} X={X} Y={Y}"
            if X in lat or Y in lat:
                # the enumerators demand observed endpoints; DAG.is_dconnected never reports a latent end node (C08), so the
                # validity tests are only exercised on observed X, Y
                for fn in (ci.get_all_backdoor_adjustment_sets, ci.get_all_frontdoor_adjustment_sets):
                    try:
                        fn(X, Y)
                    except AssertionError:
                        continue
                    return {"key": f"{fn.__name__}:latent-endpoint-accepted", "what": where}
                continue
            # ---- back-door: validity test == path criterion on candidate sets of non-descendants
            valid_obs = []
            for Z in _subsets(nd):
                want = bd_oracle(nodes, edges, X, Y, Z)
                for form in (list(Z), frozenset(Z)) + ((Z[0],) if len(Z) == 1 else ()):
                    got = ci.is_valid_backdoor_adjustment_set(X, Y, form)
                    if bool(got) != want:
                        return {"key": "is_valid_backdoor_adjustment_set:result", "what": f"{where} Z={form!r}: got {got}, path-based back-door criterion gives {want}"}
                if want and not (set(Z) & set(lat)):
                    valid_obs.append(frozenset(Z))
            if not lat and bool(ci.is_valid_backdoor_adjustment_set(X, Y)) != bd_oracle(nodes, edges, X, Y, []):
                return {"key": "is_valid_backdoor_adjustment_set:default-Z", "what": f"{where}: default Z"}
            minimal = {z for z in valid_obs if not any(o < z for o in valid_obs)}
            try:
                got = ci.get_all_backdoor_adjustment_sets(X, Y)
            except ValueError:
                if valid_obs:
                    return {"key": "get_all_backdoor_adjustment_sets:missed", "what": f"{where}: ValueError but {sorted(map(sorted, valid_obs))} are valid"}
                got = None
            if got is not None:
                sets = [frozenset()] if len(got) == 0 else list(got)
                for z in sets:
                    if not isinstance(z, frozenset):
                        return {"key": "get_all_backdoor_adjustment_sets:type", "what": f"{where}: element {z!r}"}
                    if set(z) & set(lat):
                        return {"key": "get_all_backdoor_adjustment_sets:latent", "what": f"{where}: {sorted(z)} contains a latent"}
                    if set(z) & (deX | {Y}):
                        return {"key": "get_all_backdoor_adjustment_sets:descendant", "what": f"{where}: {sorted(z)} contains X, Y or a descendant of X"}
                    if not bd_oracle(nodes, edges, X, Y, z):
                        return {"key": "get_all_backdoor_adjustment_sets:invalid", "what": f"{where}: {sorted(z)} violates the back-door criterion"}
                if set(sets) != minimal:
                    return {"key": "get_all_backdoor_adjustment_sets:not-the-minimal-sets", "what": f"{where}: got {sorted(map(sorted, sets))}, minimal valid sets {sorted(map(sorted, minimal))}"}
            # ---- front-door
            cand = [v for v in nodes if v not in (X, Y)]
            cand_obs = [v for v in cand if v not in lat]  # members of Z act as end nodes of is_dconnected: observed only (see above)
            dp = has_directed_path(nodes, edges, X, Y)
            fd_valid = set()
            for Z in _subsets(cand_obs):
                want = fd_oracle(nodes, edges, X, Y, Z)
                got = bool(ci.is_valid_frontdoor_adjustment_set(X, Y, list(Z)))
                if got and not want:
                    return {"key": "is_valid_frontdoor_adjustment_set:unsound", "what": f"{where} Z={Z}: accepted but violates a front-door clause"}
                if want and dp and not got:
                    return {"key": "is_valid_frontdoor_adjustment_set:incomplete", "what": f"{where} Z={Z}: satisfies the three clauses (directed path exists) but rejected"}
                if got and not (set(Z) & set(lat)):
                    fd_valid.add(frozenset(Z))
            got = ci.get_all_frontdoor_adjustment_sets(X, Y)
            for z in got:
                if set(z) & set(lat):
                    return {"key": "get_all_frontdoor_adjustment_sets:latent", "what": f"{where}: {sorted(z)}"}
                if not fd_oracle(nodes, edges, X, Y, z):
                    return {"key": "get_all_frontdoor_adjustment_sets:invalid", "what": f"{where}: {sorted(z)} violates a front-door clause"}
            if set(got) != fd_valid:
                return {"key": "get_all_frontdoor_adjustment_sets:enumeration", "what": f"{where}: got {sorted(map(sorted, got))}, validity test accepts {sorted(map(sorted, fd_valid))}"}
            # ---- general adjustment test on candidate sets of non-descendants, minimal set
            for Z in _subsets(nd):
                want = adj_oracle(nodes, edges, X, Y, Z)
                got = bool(ci.is_valid_adjustment_set([X], [Y], list(Z)))
                if got != want:
                    return {"key": "is_valid_adjustment_set:result", "what": f"{where} Z={Z}: got {got}, adjustment criterion on paths gives {want}"}
            if _edges_of(ci.model) != E:
                return {"key": "is_valid_adjustment_set:model-mutated", "what": f"{where}: model edges changed"}
    return None


def _bucketed(tier, seed, nbuckets):
    cases = list(gen_criteria(tier, seed))
    for r in range(nbuckets):
        dags = [c["edges"] for i, c in enumerate(cases) if i % nbuckets == r and len(c["nodes"]) == 4]
        small = [c for i, c in enumerate(cases) if i % nbuckets == r and len(c["nodes"]) != 4]
        if dags:
            yield {"nodes": NAMES[4], "dags": dags}
        by_n = {}
        for c in small:
            by_n.setdefault(len(c["nodes"]), []).append(c["edges"])
        for n, ds in by_n.items():
            yield {"nodes": NAMES[n], "dags": ds}


def gen_minimal(tier, seed):
    yield from _bucketed(tier, seed, 24)
    # 5-node witness (latent alpha): {n4, delta} is a valid observed adjustment set for (x0, beta)
    yield {"nodes": NAMES[5], "dags": [[["alpha", "delta"], ["alpha", "x0"], ["delta", "n4"], ["beta", "n4"], ["n4", "x0"]]]}


def gen_adj_multi(tier, seed):
    yield from _bucketed(tier, seed, 16)


def check_minimal(case):
    """get_minimal_adjustment_set: valid by the adjustment criterion on paths, minimal, latent-free; None only if no observed
    set is valid; ValueError only when Y is a parent of X.  A case is a bucket of DAGs (the known defect hits many DAGs)."""
    from pgmpy.inference import CausalInference
    from pgmpy.models import BayesianNetwork

    nodes = case["nodes"]
    deferred = None
    for edges in case["dags"]:
        E = {tuple(e) for e in edges}
        for lat in [[]] + [[v] for v in nodes]:
            m = BayesianNetwork(latents=set(lat))
            m.add_nodes_from(nodes)
            m.add_edges_from([tuple(e) for e in edges])
            ci = CausalInference(m)
            for X, Y in itertools.permutations([v for v in nodes if v not in lat], 2):
                deX = O.descendants_or_self(edges, [X])
                where = f"edges={edges} latents={lat} X={X} Y={Y}"
                cand = [v for v in nodes if v not in (X, Y) and v not in lat]
                try:
                    mz = ci.get_minimal_adjustment_set(X, Y)
                except ValueError:
                    if (Y, X) in E:
                        continue
                    return {"key": "get_minimal_adjustment_set:raise", "what": f"{where}: ValueError although Y is not a parent of X"}
                if (Y, X) in E:
                    return {"key": "get_minimal_adjustment_set:parent-outcome-accepted", "what": f"{where}: returned {mz} although Y -> X"}
                if _edges_of(m) != E:
                    return {"key": "get_minimal_adjustment_set:model-mutated", "what": f"{where}: model edges changed"}
                if mz is None:
                    all_valid = [Z for Z in _subsets(cand) if adj_oracle(nodes, edges, X, Y, Z)]
                    if all_valid and lat:
                        # genuine defect of DAG.minimal_dseparator with latents (gives up after replacing latent parents by their parents)
                        deferred = deferred or {"key": "get_minimal_adjustment_set:latent:none-but-exists",
                                                "what": f"{where}: returned None ('no adjustment set is possible') but the observed sets {all_valid} are valid"}
                    elif all_valid:
                        return {"key": "get_minimal_adjustment_set:none-but-exists", "what": f"{where}: None but {all_valid} are valid"}
                    continue
                mz = set(mz)
                if mz & set(lat):
                    return {"key": "get_minimal_adjustment_set:latent", "what": f"{where}: {sorted(mz)}"}
                if mz & deX:
                    # genuine defect (depends on set iteration order); reported after the remaining checks of this case
                    deferred = deferred or {"key": "get_minimal_adjustment_set:descendant-of-treatment",
                                            "what": f"{where}: returned {sorted(mz)}, which contains a descendant of X (a node on / below a "
                                                    f"causal path); adjusting for it does not identify P(Y | do(X))"}
                    continue
                if not adj_oracle(nodes, edges, X, Y, mz):
                    return {"key": "get_minimal_adjustment_set:invalid", "what": f"{where}: {sorted(mz)} is not a valid adjustment set"}
                for u in mz:
                    if adj_oracle(nodes, edges, X, Y, mz - {u}):
                        return {"key": "get_minimal_adjustment_set:not-minimal", "what": f"{where}: {sorted(mz)} minus {u} is still valid"}
    return deferred


def check_adj_multi(case):
    """is_valid_adjustment_set with several causes / outcomes (no latents), Z among the non-descendants of the causes."""
    from pgmpy.inference import CausalInference
    from pgmpy.models import BayesianNetwork

    nodes = case["nodes"]
    deferred = None
    for edges in case["dags"]:
        m = BayesianNetwork()
        m.add_nodes_from(nodes)
        m.add_edges_from([tuple(e) for e in edges])
        ci = CausalInference(m)
        for nx_, ny_ in ((2, 1), (1, 2), (2, 2)):
            for Xs in itertools.combinations(nodes, nx_):
                rest = [v for v in nodes if v not in Xs]
                for Ys in itertools.permutations(rest, ny_):
                    if ny_ == 2 and nx_ == 1 and Ys[0] > Ys[1]:
                        continue
                    deXs = O.descendants_or_self(edges, Xs)
                    for Z in _subsets([v for v in rest if v not in Ys and v not in deXs]):
                        want = adj_oracle_sets(nodes, edges, Xs, Ys, Z)
                        got = bool(ci.is_valid_adjustment_set(list(Xs), list(Ys), list(Z)))
                        if got != want:
                            zipped = adj_oracle_sets(nodes, edges, Xs, Ys, Z, pairs=list(zip(Xs, Ys)))
                            what = f"edges={edges} X={list(Xs)} Y={list(Ys)} Z={Z}: got {got}, adjustment criterion over all (x, y) pairs gives {want}"
                            if got == zipped:
                                deferred = deferred or {"key": "is_valid_adjustment_set:pairs-zipped", "what": what + " (only the zip(X, Y) pairs were tested)"}
                            else:
                                return {"key": "is_valid_adjustment_set:multi:result", "what": what}
    return deferred


# ----------------------------------------------------------------------------- group: simulate(do=...)
def gen_simulate(tier, seed):
    """roots random (probabilities >= 1/6), every other node a deterministic function of its parents."""
    for n in (2, 3) if tier == "quick" else (2, 3, 4):
        names = NAMES[n]
        for di, edges in enumerate(O.all_dags(n, names)):
            if not edges or (n == 4 and (di + seed) % 8):
                continue
            rng = O.mk_rng(seed, "c13-sim", n, di)
            cards = {v: 2 + ((i + di) % 2) for i, v in enumerate(names)}
            spec = O.random_bn_spec(rng, names, edges, cards=cards, style=O.STATE_STYLES[di % 3], zeros=False)
            for v in names:
                c = spec["cpd"][v]
                if c["parents"]:
                    ncol = len(c["table"][0])
                    off = rng.randint(0, cards[v] - 1)
                    mult = [rng.randint(1, 2) for _ in c["parents"]]
                    cols = []
                    for combo in itertools.product(*[range(cards[p]) for p in c["parents"]]):
                        cols.append((off + sum(a * b for a, b in zip(mult, combo))) % cards[v])
                    c["table"] = [[Fraction(int(cols[j] == i)) for j in range(ncol)] for i in range(cards[v])]
                else:
                    w = [rng.randint(2, 4) for _ in range(cards[v])]
                    c["table"] = [[Fraction(x, sum(w))] for x in w]
            yield {"spec": O.spec_to_json(spec), "seed": seed * 1000 + di}


class _Watchdog(Exception):
    pass


def _with_deadline(secs, fn):
    """run fn(); raise _Watchdog if it is still running after `secs` (rejection sampling on an impossible event never returns)."""
    import signal

    def handler(signum, frame):
        raise _Watchdog()

    old = signal.signal(signal.SIGALRM, handler)
    signal.setitimer(signal.ITIMER_REAL, secs)
    try:
        return fn()
    finally:
        signal.setitimer(signal.ITIMER_REAL, 0)
        signal.signal(signal.SIGALRM, old)


def check_simulate(case):
    spec = O.spec_from_json(case["spec"])
    nodes, edges = spec["nodes"], spec["edges"]
    model = O.make_bn(spec)
    N = 500
    for S in _subsets(nodes, 1, 2):
        for do in _pick_states(spec, S):
            # excluded input class: a do-state that no parent configuration produces has probability 0 in the marginalised CPD
            # and BayesianNetwork.simulate (rejection sampling on the mutilated model) never terminates on it
            if any(sum(spec["cpd"][x]["table"][spec["states"][x].index(s)]) == 0 for x, s in do.items()):
                continue
            free = [v for v in nodes if v not in do]
            support = {}
            for a in O.all_assignments(spec, free):
                a = {**a, **do}
                p = Fraction(1)
                for v in free:
                    p *= O.cpd_value(spec, v, a)
                if p:
                    support[tuple(a[v] for v in nodes)] = p
            where = f"simulate(do={do}) edges={edges}"
            try:
                df = _with_deadline(30, lambda: model.simulate(n_samples=N, do=dict(do), seed=case["seed"], show_progress=False))
            except _Watchdog:
                return {"key": "simulate:no-termination", "what": f"{where}: {N} samples not produced within 30 s although the do-state has positive "
                        f"probability in the marginalised CPD (conditioning on an impossible event?)"}
            if set(df.columns) != set(nodes) or len(df) != N:
                return {"key": "simulate:shape", "what": f"{where}: columns {list(df.columns)} rows {len(df)}"}
            rows = {tuple(r) for r in df[nodes].itertuples(index=False, name=None)}
            for r in rows:
                if r not in support:
                    return {"key": "simulate:impossible-sample", "what": f"{where}: sampled {dict(zip(nodes, r))}, which has probability 0 under the truncated factorisation"}
            if min(support.values()) >= Fraction(1, 18):
                miss = [k for k in support if k not in rows]
                if miss:
                    return {"key": "simulate:support-not-covered", "what": f"{where}: {dict(zip(nodes, miss[0]))} has probability {support[miss[0]]} under do() "
                            f"but never occurs in {N} samples (conditioning instead of intervening?)"}
    if _edges_of(model) != {tuple(e) for e in edges}:
        return {"key": "simulate:model-mutated", "what": "simulate(do=) changed the model"}
    return None


def gen_simulate_unreachable(tier, seed):
    """child = deterministic function of a binary parent with 3 states: one child state is produced by no parent configuration."""
    for names in (["alpha", "beta"], ["x1", "x0"]):
        a, b = names
        spec = {"nodes": names, "edges": [[a, b]], "states": {a: ["lo", "hi"], b: [0, 1, 2]},
                "cpd": {a: {"parents": [], "table": [[Fraction(1, 3)], [Fraction(2, 3)]]},
                        b: {"parents": [a], "table": [[Fraction(1), Fraction(0)], [Fraction(0), Fraction(1)], [Fraction(0), Fraction(0)]]}}}
        yield {"spec": O.spec_to_json(spec), "seed": seed, "do": {b: 2}}


def check_simulate_unreachable(case):
    spec = O.spec_from_json(case["spec"])
    model = O.make_bn(spec)
    do = case["do"]
    (x, xs), = do.items()
    pa = spec["cpd"][x]["parents"][0]
    try:
        df = _with_deadline(10, lambda: model.simulate(n_samples=200, do=dict(do), seed=case["seed"], show_progress=False))
    except _Watchdog:
        return {"key": "simulate:unreachable-do-state:no-termination",
                "what": f"simulate(do={do}) on {spec['edges']} did not return within 10 s: state {xs!r} of {x} has probability 0 under every parent "
                        f"configuration, the marginalised CPD gives it probability 0 and rejection sampling never accepts"}
    if set(df[x]) != {xs}:
        return {"key": "simulate:unreachable-do-state:not-clamped", "what": f"{x} takes values {set(df[x])} under do={do}"}
    if set(df[pa]) != set(spec["states"][pa]):
        return {"key": "simulate:unreachable-do-state:parent-support", "what": f"{pa} takes values {set(df[pa])} under do={do} (should keep its prior 1/3, 2/3)"}
    return None


def _nt_spec(c):
    return len(c["spec"]["edges"]) >= 1


def groups(tier):
    qb = ("BNs on all DAGs <= 3 nodes and on 1/%d of the 543 four-node DAGs (rotating with the seed), strictly positive tables, cards 2/3, "
          "shuffled parent orders, str/int/mixed state names; ")
    return [
        Group("do_surgery", gen_surgery, check_surgery, _nt_spec, engine="E3",
              bound="BNs on all DAGs <= 4 nodes (cards 2/3, shuffled parent orders, str/int/mixed state names; thorough: 3 parametrisations each); "
                    "every node subset of size <= 3 (<= 2 on 4 nodes) given as list/tuple/set/str; inplace False/True; DAG.do and BayesianNetwork.do"),
        Group("dag_do_latents", gen_dag_latents, check_dag_latents, engine="E3",
              bound="all DAGs on 2..4 nodes (one case per size), 1 or 2 latent nodes, do on every single node, inplace False/True"),
        Group("query", gen_query, check_query, _nt_spec, seed_fanout=2, engine="E3",
              bound=qb % (6 if tier == "quick" else 1) + "second variant (<= 3 nodes) with one latent node; no do / single do with every state, query sets of "
                    "size 1..2 (sets overlapping do or adjustment set: refusal or right answer), evidence absent or inside the adjustment set, default "
                    "adjustment set and every observed set valid by the path oracle, back-ends ve and bp (bp: connected models)"),
        Group("query_evidence", gen_query_sub, check_query_evidence, _nt_spec, engine="E3",
              bound=qb % (6 if tier == "quick" else 3) + "single do, one evidence variable outside a non-empty adjustment set (default and valid explicit sets)"),
        Group("query_multi_do", gen_query_sub, check_query_multi, _nt_spec, engine="E3",
              bound=qb % (6 if tier == "quick" else 3) + "do on two variables incl. parent-child pairs (2 state pairs), default adjustment set and every set "
                    "valid for all (x, y) pairs by the path oracle, evidence absent or inside the adjustment set"),
        Group("criteria", gen_criteria, check_criteria, lambda c: len(c["edges"]) >= 1, seed_fanout=2, engine="E3",
              bound="all DAGs on 2..4 nodes (thorough: + 600 seeded 5-node DAGs) x latent subsets of size <= 1 x ordered pairs of observed (X,Y) x every Z "
                    "among the non-descendants of X (back-door, adjustment test) / every observed Z without X,Y (front-door; completeness only when a "
                    "directed path X..Y exists, the code rejects everything otherwise)"),
        Group("minimal_adjustment", gen_minimal, check_minimal, lambda c: any(c["dags"]), seed_fanout=4, engine="E3",
              bound="same DAG enumeration in buckets; latent subsets of size <= 1; every ordered pair of observed nodes"),
        Group("adjustment_multi", gen_adj_multi, check_adj_multi, lambda c: any(c["dags"]), engine="E3",
              bound="same DAG enumeration in buckets, no latents; |X|,|Y| in {(2,1),(1,2),(2,2)}, every Z among the non-descendants of X"),
        Group("simulate_do", gen_simulate, check_simulate, _nt_spec, engine="E3",
              bound="BNs on DAGs with 2..3 nodes (thorough: 1/8 of 4-node DAGs), random roots and deterministic children; do-sets of size <= 2 with states "
                    "that some parent configuration produces (simulate does not terminate otherwise); 500 samples with fixed seed: samples inside the "
                    "exact support of the truncated factorisation and covering it when every support point has probability >= 1/18"),
        Group("simulate_do_unreachable_state", gen_simulate_unreachable, check_simulate_unreachable, _nt_spec, engine="E3",
              bound="2 two-node models whose child has a state that no parent configuration produces; do(child = that state), 10 s deadline"),
    ]
