"""C20 bounded groups (E3): linear-Gaussian Bayesian networks and Gaussian / canonical-form distributions against
exact multivariate-normal algebra.

Oracle side (no pgmpy, no numpy): Fraction matrices with Gauss-Jordan inverse / determinant; joint mean by recursive
substitution, joint covariance by the path recursion *and* by (I-B)^-T Omega (I-B)^-1 (asserted equal); Gaussian
conditioning by Schur complement; least squares by normal equations.
"""
from __future__ import annotations

import itertools
import math
from fractions import Fraction

from vf.core import Group
from vf.bounded import oracles as O

F = Fraction


# ----------------------------------------------------------------------------- exact linear algebra
def mat(rows):
    return [[F(x) for x in r] for r in rows]


def eye(n):
    return [[F(int(i == j)) for j in range(n)] for i in range(n)]


def mT(A):
    return [list(r) for r in zip(*A)] if A else []


def mmul(A, B):
    if not A or not B:
        return [[] for _ in A]
    Bt = mT(B)
    return [[sum((a * b for a, b in zip(r, c)), F(0)) for c in Bt] for r in A]


def madd(A, B, s=1):
    return [[a + s * b for a, b in zip(ra, rb)] for ra, rb in zip(A, B)]


def minv(A):
    n = len(A)
    M = [list(A[i]) + eye(n)[i] for i in range(n)]
    for c in range(n):
        piv = next(r for r in range(c, n) if M[r][c] != 0)
        M[c], M[piv] = M[piv], M[c]
        pv = M[c][c]
        M[c] = [x / pv for x in M[c]]
        for r in range(n):
            if r != c and M[r][c] != 0:
                f = M[r][c]
                M[r] = [x - f * y for x, y in zip(M[r], M[c])]
    return [row[n:] for row in M]


def mdet(A):
    n = len(A)
    M = [list(r) for r in A]
    det = F(1)
    for c in range(n):
        piv = next((r for r in range(c, n) if M[r][c] != 0), None)
        if piv is None:
            return F(0)
        if piv != c:
            M[c], M[piv] = M[piv], M[c]
            det = -det
        det *= M[c][c]
        for r in range(c + 1, n):
            f = M[r][c] / M[c][c]
            M[r] = [x - f * y for x, y in zip(M[r], M[c])]
    return det


def sub(A, rows, cols):
    return [[A[i][j] for j in cols] for i in rows]


def condition(mu, S, a, b, xb):
    """Gaussian conditioning: (mu_a + S_ab S_bb^-1 (x_b - mu_b), S_aa - S_ab S_bb^-1 S_ba)."""
    if not b:
        return [mu[i] for i in a], sub(S, a, a)
    Sab, Sbb_inv = sub(S, a, b), minv(sub(S, b, b))
    G = mmul(Sab, Sbb_inv)
    d = [[xb[k] - mu[j]] for k, j in enumerate(b)]
    m = [mu[i] + r[0] for i, r in zip(a, mmul(G, d))]
    C = madd(sub(S, a, a), mmul(G, mT(Sab)), -1)
    return m, C


def close(a, b, ab=1e-9, rel=1e-9):
    a, b = float(a), float(b)
    return abs(a - b) <= ab + rel * max(abs(a), abs(b))


def mat_close(got, want, ab=1e-9, rel=1e-9):
    try:
        if len(got) != len(want):
            return False
        for gr, wr in zip(got, want):
            if len(gr) != len(wr):
                return False
            for g, w in zip(gr, wr):
                if not close(g, w, ab, rel):
                    return False
        return True
    except TypeError:
        return False


def fl(A):
    return [[round(float(x), 6) for x in r] for r in A]


# ----------------------------------------------------------------------------- LGBN specs
def joint_of(spec):
    """(order, mean, cov) of the joint implied by the structural equations, order = spec['nodes']."""
    nodes = spec["nodes"]
    edges = [tuple(e) for e in spec["edges"]]
    topo = O.topo_order(nodes, edges)
    beta = {v: dict(zip(spec["cpd"][v]["parents"], [F(x) for x in spec["cpd"][v]["beta"][1:]])) for v in nodes}
    b0 = {v: F(spec["cpd"][v]["beta"][0]) for v in nodes}
    om = {v: F(spec["cpd"][v]["var"]) for v in nodes}
    mean, cov = {}, {}
    for j_, j in enumerate(topo):
        mean[j] = b0[j] + sum((beta[j][k] * mean[k] for k in beta[j]), F(0))
        for i in topo[:j_]:
            cov[(i, j)] = cov[(j, i)] = sum((beta[j][k] * cov[(i, k)] for k in beta[j]), F(0))
        cov[(j, j)] = om[j] + sum((beta[j][k] * beta[j][l] * cov[(k, l)] for k in beta[j] for l in beta[j]), F(0))
    n = len(nodes)
    ix = {v: i for i, v in enumerate(nodes)}
    S = [[cov[(a, b)] for b in nodes] for a in nodes]
    # second derivation: (I-B)^-T Omega (I-B)^-1 with B[parent, child] = coefficient
    B = [[F(0)] * n for _ in range(n)]
    for v in nodes:
        for k, c in beta[v].items():
            B[ix[k]][ix[v]] = c
    inv = minv(madd(eye(n), B, -1))
    Om = [[om[nodes[i]] if i == j else F(0) for j in range(n)] for i in range(n)]
    S2 = mmul(mmul(mT(inv), Om), inv)
    assert S == S2, "oracle self-check: recursion vs matrix formula"
    return nodes, [mean[v] for v in nodes], S


COEFS = [F(0), F(1), F(-1), F(1, 2), F(2), F(-3, 2), F(1, 3), F(3)]
VARS = [F(1), F(2), F(1, 2), F(3), F(1, 4), F(5)]


def random_lg_spec(rng, nodes, edges):
    cpd = {}
    for v in nodes:
        ps = O.parents_of(edges, v)
        rng.shuffle(ps)
        beta = [rng.choice(COEFS + [F(-5), F(4)])] + [rng.choice(COEFS[1:]) for _ in ps]
        cpd[v] = {"parents": ps, "beta": [str(x) for x in beta], "var": str(rng.choice(VARS))}
    return {"nodes": list(nodes), "edges": [list(e) for e in edges], "cpd": cpd}


def gen_models(tier, seed):
    rng = O.mk_rng(seed, "c20-models")
    k = 0
    for n in (1, 2, 3, 4):
        names = O.node_names(n, "long" if n != 2 else "x")
        for edges in O.all_dags(n, names):
            for rep in range(2 if n <= 3 else 1):
                nodes = names[:]
                rng.shuffle(nodes)
                k += 1
                yield {"spec": random_lg_spec(rng, nodes, edges), "qseed": k}
    for n, cnt in ((5, 12 if tier == "quick" else 300), (6, 4 if tier == "quick" else 60)):
        for _ in range(cnt):
            names = O.node_names(n, "long")
            edges = O.random_dag(rng, n, rng.choice((0.4, 0.6, 0.8)), names)
            nodes = names[:]
            rng.shuffle(nodes)
            k += 1
            yield {"spec": random_lg_spec(rng, nodes, edges), "qseed": k}


def make_lgbn(spec, with_cpds=True):
    from pgmpy.models import LinearGaussianBayesianNetwork
    from pgmpy.factors.continuous import LinearGaussianCPD

    m = LinearGaussianBayesianNetwork()
    m.add_nodes_from(spec["nodes"])
    m.add_edges_from([tuple(e) for e in spec["edges"]])
    if with_cpds:
        for v in spec["nodes"]:
            c = spec["cpd"][v]
            m.add_cpds(LinearGaussianCPD(v, [float(F(x)) for x in c["beta"]], float(F(c["var"])), list(c["parents"])))
    return m


def _topo(m):
    import networkx as nx

    return list(nx.topological_sort(m))


def check_joint(case):
    spec = case["spec"]
    nodes, mu, S = joint_of(spec)
    m = make_lgbn(spec)
    got = m.to_joint_gaussian()
    if not (isinstance(got, tuple) and len(got) == 2):
        return {"key": "to_joint_gaussian:shape", "what": f"returned {type(got)}"}
    mean, cov = got
    order = _topo(m)
    ix = [nodes.index(v) for v in order]
    n = len(nodes)
    if tuple(getattr(mean, "shape", ())) != (n,) or tuple(getattr(cov, "shape", ())) != (n, n):
        return {"key": "to_joint_gaussian:shape", "what": f"mean {getattr(mean, 'shape', None)} cov {getattr(cov, 'shape', None)}"}
    for a, i in enumerate(ix):
        if not close(mean[a], mu[i], 2e-8):
            return {"key": "to_joint_gaussian:mean", "what": f"E[{order[a]}] = {mean[a]}, recursive substitution gives {mu[i]} (order {order})"}
    for a, i in enumerate(ix):
        for b, j in enumerate(ix):
            if not close(cov[a][b], S[i][j], 2e-8):
                return {"key": "to_joint_gaussian:covariance",
                        "what": f"Cov[{order[a]},{order[b]}] = {cov[a][b]}, (I-B)^-T Omega (I-B)^-1 gives {S[i][j]} = {float(S[i][j])} (order {order})"}
    # repeated call gives the same answer and the CPDs are untouched
    mean2, cov2 = m.to_joint_gaussian()
    if not (mat_close([mean2], [mean]) and mat_close(cov2, cov)):
        return {"key": "to_joint_gaussian:not-idempotent", "what": "second call differs"}
    for v in nodes:
        c = m.get_cpds(node=v)
        if list(c.evidence) != spec["cpd"][v]["parents"] or not mat_close([c.mean], [[F(x) for x in spec["cpd"][v]["beta"]]]) or not close(c.variance, F(spec["cpd"][v]["var"])):
            return {"key": "to_joint_gaussian:mutated-cpds", "what": f"CPD of {v} changed"}
    return None


def check_predict(case, part="joint-cov"):
    """part = "mean": variable list, shapes, conditional means for every missing subset, conditional variance for a single missing
    variable; part = "joint-cov": conditional covariance matrix for >= 2 missing variables."""
    import pandas as pd

    spec = case["spec"]
    nodes, mu, S = joint_of(spec)
    if len(nodes) < 2:
        return None
    m = make_lgbn(spec)
    rng = O.mk_rng(case["qseed"], "predict")
    subsets = [list(c) for r in range(1, len(nodes)) for c in itertools.combinations(nodes, r)]
    if part == "joint-cov":
        subsets = [s_ for s_ in subsets if len(s_) >= 2]
    if len(nodes) > 4:
        subsets = [s for s in subsets if len(s) <= 2 or rng.random() < 0.3]
    for missing in subsets:
        obs = [v for v in nodes if v not in missing]
        rng.shuffle(obs)
        rows = [[F(rng.randint(-6, 6), rng.choice((1, 2))) for _ in obs] for _ in range(3)]
        df = pd.DataFrame([[float(x) for x in r] for r in rows], columns=obs)
        got = m.predict(df)
        if not (isinstance(got, tuple) and len(got) == 3):
            return {"key": "predict:shape", "what": f"returned {got!r}"}
        gv, gmu, gcov = got
        gv = list(gv)
        where = f"missing {missing}, observed columns {obs}"
        if sorted(gv) != sorted(missing):
            return {"key": "predict:variables", "what": f"{where}: returned variable list {gv}"}
        a = [nodes.index(v) for v in gv]
        b = [nodes.index(v) for v in obs]
        if tuple(gmu.shape) != (3, len(gv)):
            return {"key": "predict:shape", "what": f"{where}: mean array has shape {gmu.shape}"}
        # to_joint_gaussian documents rounding of mean / covariance to 8 decimals; predict conditions on the rounded moments.  The oracle
        # therefore conditions (exactly) on the exact moments rounded to 8 decimals and widens the tolerance by the observed
        # sensitivity to that rounding (zero whenever all moments have <= 8 decimals).
        mu_r = [F(round(x, 8)) for x in mu]
        S_r = [[F(round(x, 8)) for x in r] for r in S]
        want_cov = None
        for r_, r in enumerate(rows):
            wm, want_cov = condition(mu_r, S_r, a, b, r)
            wm_x, wc_x = condition(mu, S, a, b, r)
            slack = 4 * max([abs(p - q) for p, q in zip(wm, wm_x)] + [abs(p - q) for rp, rq in zip(want_cov, wc_x) for p, q in zip(rp, rq)])
            for j in range(len(gv)):
                if not close(gmu[r_][j], wm[j], 1e-7 + float(slack), 1e-7):
                    return {"key": "predict:mean", "what": f"{where}, row {[float(x) for x in r]}: E[{gv[j]} | obs] = {gmu[r_][j]}, exact {float(wm[j])} (returned order {gv})"}
        import numpy as np

        gc = np.asarray(gcov, dtype=float)
        tol = 1e-7 + float(slack)
        if part == "mean" and len(gv) >= 2:
            continue
        if gc.shape != (len(gv), len(gv)) or not mat_close(gc.tolist(), want_cov, tol, 1e-7):
            f = {"key": "predict:covariance", "what": f"{where}: conditional covariance over {gv} = {gc.tolist()}, exact Sigma_aa - Sigma_ab Sigma_bb^-1 Sigma_ba = {fl(want_cov)}"}
            if len(gv) >= 2 and gc.shape == (len(gv), len(gv)):
                # signature of taking the diagonal of Sigma instead of the block Sigma_aa (only visible with >= 2 missing variables)
                G = madd([[S_r[i][i] for i in a] for _ in a], madd(sub(S_r, a, a), want_cov, -1), -1)
                if mat_close(gc.tolist(), G, tol, 1e-7):
                    f["key"] = "predict:submatrix"
                    f["what"] += "; the answer equals diag(Sigma)[missing] broadcast over the rows minus Sigma_ab Sigma_bb^-1 Sigma_ba"
            return f
    try:
        m.predict(pd.DataFrame([[0.0] * len(nodes)], columns=nodes))
        return {"key": "predict:no-missing-accepted", "what": "no ValueError although no variable is missing"}
    except ValueError:
        pass
    return None


def check_predict_mean(case):
    return check_predict(case, part="mean")


def gen_models_small(tier, seed):
    """models for the joint-covariance group: the 4-node enumeration is thinned to every 9th DAG in the quick tier."""
    for i, c in enumerate(gen_models(tier, seed)):
        if len(c["spec"]["nodes"]) >= 3 and (tier != "quick" or len(c["spec"]["nodes"]) != 4 or i % 9 == 0):
            yield c


# ----------------------------------------------------------------------------- fit
def gen_fit(tier, seed):
    rng = O.mk_rng(seed, "c20-fit")
    k = 0
    for n in (1, 2, 3, 4):
        names = O.node_names(n, "long" if n != 3 else "x")
        dags = list(O.all_dags(n, names))
        if n == 4:
            rng.shuffle(dags)
            dags = dags[:(12 if tier == "quick" else 200)]
        for edges in dags:
            nodes = names[:]
            rng.shuffle(nodes)
            nrow = rng.choice((6, 7, 9, 12))
            cols = {v: [rng.randint(-5, 5) + (i if vi == 0 else 0) for i in range(nrow)] for vi, v in enumerate(names)}
            if rng.random() < 0.4:  # half-integers as exact binary floats
                v = rng.choice(names)
                cols[v] = [str(F(x, 2)) for x in cols[v]]
            colorder = names[:]
            rng.shuffle(colorder)
            k += 1
            yield {"nodes": nodes, "edges": edges, "cols": {v: [str(x) for x in cols[v]] for v in colorder}, "extra": k % 3 == 0,
                   "index": ("default", "reversed", "labels", "offset")[k % 4]}


def ols(y, Xcols):
    n = len(y)
    D = [[F(1)] + [c[i] for c in Xcols] for i in range(n)]
    k = len(D[0])
    G = [[sum((D[i][a] * D[i][b] for i in range(n)), F(0)) for b in range(k)] for a in range(k)]
    if mdet(G) == 0:
        return None
    rhs = [[sum((D[i][a] * y[i] for i in range(n)), F(0))] for a in range(k)]
    beta = [r[0] for r in mmul(minv(G), rhs)]
    res = [y[i] - sum((D[i][a] * beta[a] for a in range(k)), F(0)) for i in range(n)]
    return beta, sum((r * r for r in res), F(0))


def check_fit(case):
    import pandas as pd

    nodes, edges = case["nodes"], case["edges"]
    cols = {v: [F(x) for x in c] for v, c in case["cols"].items()}
    n = len(next(iter(cols.values())))
    want = {}
    for v in nodes:
        r = ols(cols[v], [cols[p] for p in O.parents_of(edges, v)])
        if r is None:
            return None  # design matrix without full column rank: least squares not unique, nothing to demand
        want[v] = r
    data = {v: [float(x) for x in c] for v, c in cols.items()}
    if case["extra"]:
        data["unused_column"] = [float(i * i) for i in range(n)]
    df = pd.DataFrame(data)
    # row labels carry no meaning for least squares: reversed / string / offset labels must give the same estimates
    ix = case.get("index", "default")
    if ix == "reversed":
        df.index = list(range(n - 1, -1, -1))
    elif ix == "labels":
        df.index = [f"row{(7 * i) % n if n % 7 else i}_{i}" for i in range(n)]
    elif ix == "offset":
        df.index = [i + 3 for i in range(n)]
    snap = df.copy(deep=True)
    m = make_lgbn({"nodes": nodes, "edges": edges}, with_cpds=False)
    r = m.fit(df)
    if r is not None and r is not m:
        return {"key": "fit:return", "what": f"returned {r!r}"}
    if not df.equals(snap):
        return {"key": "fit:mutated-data", "what": "the data frame was modified"}
    if sorted(c.variable for c in m.cpds) != sorted(nodes):
        return {"key": "fit:cpd-set", "what": f"CPDs for {[c.variable for c in m.cpds]}, nodes {nodes}"}
    for v in nodes:
        c = m.get_cpds(node=v)
        pa = O.parents_of(edges, v)
        beta, rss = want[v]
        if sorted(c.evidence) != sorted(pa) or len(c.mean) != len(pa) + 1:
            return {"key": "fit:evidence", "what": f"{v}: evidence {c.evidence}, parents {pa}"}
        if not close(c.mean[0], beta[0], 1e-8, 1e-8):
            return {"key": "fit:intercept", "what": f"{v} | {c.evidence}: intercept {c.mean[0]}, least squares {float(beta[0])}"}
        for j, p in enumerate(c.evidence):
            w = beta[1 + pa.index(p)]
            if not close(c.mean[1 + j], w, 1e-8, 1e-8):
                return {"key": "fit:coefficient", "what": f"{v} | {c.evidence}: coefficient of {p} = {c.mean[1 + j]}, least squares {float(w)}"}
        # residual variance: the code (pandas .var()) uses RSS / (n - 1) for roots and non-roots alike; accepted as the
        # "sample variance of the residuals" (residuals have mean zero).  RSS/n (the ML estimate) or RSS/(n-k-1) would be flagged.
        if not close(c.variance, rss / (n - 1), 1e-8, 1e-8):
            alt = {"RSS/n": rss / n, "RSS/(n-k-1)": rss / (n - len(pa) - 1) if n - len(pa) - 1 > 0 else None}
            hit = [nm for nm, val in alt.items() if val is not None and close(c.variance, val, 1e-8, 1e-8)]
            return {"key": "fit:residual-variance", "what": f"{v} | {c.evidence}: variance {c.variance}, RSS/(n-1) = {float(rss / (n - 1))}"
                                                            + (f" (matches {hit[0]})" if hit else "")}
    # re-adding a node's CPD (another parent order, other numbers) replaces the old one: one CPD per node, lookups return the new one
    from pgmpy.factors.continuous import LinearGaussianCPD

    for v in nodes:
        pa = O.parents_of(edges, v)
        if len(pa) >= 1:
            ev = list(reversed(m.get_cpds(node=v).evidence))
            new = LinearGaussianCPD(v, [0.5] + [2.0 + j for j in range(len(ev))], 3.0, evidence=ev)
            m.add_cpds(new)
            if sorted(c.variable for c in m.cpds) != sorted(nodes) or m.get_cpds(node=v) is not new:
                return {"key": "add_cpds:replace", "what": f"after re-adding a CPD for {v} with evidence {ev}: CPDs for {[c.variable for c in m.cpds]}, "
                                                           f"get_cpds({v!r}) returns the {'new' if m.get_cpds(node=v) is new else 'old'} one"}
            break
    # the fitted model is usable and a second fit replaces the CPDs
    m.to_joint_gaussian()
    m.fit(df)
    if sorted(c.variable for c in m.cpds) != sorted(nodes):
        return {"key": "fit:refit-duplicates", "what": f"after a second fit: CPDs for {[c.variable for c in m.cpds]}"}
    try:
        m.fit(df.drop(columns=[nodes[0]]))
        return {"key": "fit:missing-column-accepted", "what": "no ValueError for a missing column"}
    except ValueError:
        pass
    return None


# ----------------------------------------------------------------------------- simulate
def check_simulate(case):
    spec = case["spec"]
    nodes, mu, S = joint_of(spec)
    m = make_lgbn(spec)
    seed = case["qseed"]
    n = 4000
    a = m.simulate(n=n, seed=seed)
    b = m.simulate(n=n, seed=seed)
    c = m.simulate(n=50, seed=seed + 1)
    if list(a.columns) != list(b.columns) or not (a.values == b.values).all():
        return {"key": "simulate:not-reproducible", "what": f"two calls with seed={seed} differ"}
    if sorted(a.columns) != sorted(nodes) or a.shape != (n, len(nodes)) or c.shape != (50, len(nodes)):
        return {"key": "simulate:columns", "what": f"columns {list(a.columns)} shape {a.shape}, nodes {nodes}"}
    if (a.values[:50] == c.values).all():
        return {"key": "simulate:seed-ignored", "what": "different seeds give identical samples"}
    for v in nodes:
        i = nodes.index(v)
        sd = math.sqrt(float(S[i][i]))
        sm = float(a[v].mean())
        if abs(sm - float(mu[i])) > 8 * sd / math.sqrt(n) + 1e-9:
            return {"key": "simulate:column-mean", "what": f"column {v}: sample mean {sm} over {n} draws, E[{v}] = {float(mu[i])}, sd {sd}"}
        sv = float(a[v].var())
        if abs(sv - sd * sd) > 0.25 * sd * sd:
            return {"key": "simulate:column-variance", "what": f"column {v}: sample variance {sv}, Var[{v}] = {sd * sd}"}
    from pgmpy.models import LinearGaussianBayesianNetwork

    if len(nodes) >= 1:
        e = make_lgbn(spec, with_cpds=False)
        try:
            e.simulate(n=3, seed=1)
            return {"key": "simulate:no-cpds-accepted", "what": "no ValueError for a model without CPDs"}
        except ValueError:
            pass
    return None


# ----------------------------------------------------------------------------- Gaussian / canonical distributions
def random_gaussian(rng, names):
    n = len(names)
    A = [[F(rng.randint(-2, 2)) if j < i else (F(rng.randint(1, 3)) if i == j else F(0)) for j in range(n)] for i in range(n)]
    S = mmul(A, mT(A))
    for i in range(n):
        S[i][i] += F(rng.choice((0, 1, 1, 2)), rng.choice((1, 2)))
    mu = [F(rng.randint(-4, 4), rng.choice((1, 2))) for _ in range(n)]
    return {"vars": list(names), "mean": [str(x) for x in mu], "cov": [[str(x) for x in r] for r in S]}


GN = ["x_one", "y", "Zed", "w4"]


def gen_gauss(tier, seed):
    rng = O.mk_rng(seed, "c20-gauss")
    k = 0
    for n in (1, 2, 3):
        for rep in range((8, 24, 40)[n - 1] if tier == "quick" else 300):
            names = GN[:n]
            rng.shuffle(names)
            g1 = random_gaussian(rng, names)
            # second operand for products: overlapping / disjoint / identical scope
            pool = [v for v in GN]
            rng.shuffle(pool)
            m = rng.choice((1, 2, 3))
            g2 = random_gaussian(rng, pool[:m])
            k += 1
            yield {"g1": g1, "g2": g2, "values": [str(F(rng.randint(-5, 5), rng.choice((1, 2)))) for _ in range(4)],
                   "g": str(F(rng.randint(-6, 6), 4)), "qseed": k}


def _G(js):
    return js["vars"], [F(x) for x in js["mean"]], mat(js["cov"])


def make_gd(js):
    from pgmpy.factors.distributions import GaussianDistribution

    return GaussianDistribution(list(js["vars"]), [float(F(x)) for x in js["mean"]], [[float(F(x)) for x in r] for r in js["cov"]])


def _gd_state(g):
    return list(g.variables), [float(x) for x in g.mean.reshape(-1)], [[float(x) for x in r] for r in g.covariance]


def _gd_matches(g, vs, mu, S, ab=1e-8):
    """variables (as a list, in order) + mean column vector + covariance, entries matched by variable name."""
    gv = list(g.variables)
    if sorted(gv) != sorted(vs) or g.mean.shape != (len(vs), 1) or g.covariance.shape != (len(vs), len(vs)):
        return False
    ix = [vs.index(v) for v in gv]
    return (mat_close([[g.mean[a][0]] for a in range(len(gv))], [[mu[i]] for i in ix], ab, 1e-8)
            and mat_close(g.covariance.tolist(), sub(S, ix, ix), ab, 1e-8))


def canonical_of(mu, S):
    n = len(mu)
    K = minv(S)
    h = [r[0] for r in mmul(K, [[x] for x in mu])]
    g = -0.5 * float(sum((a * b for a, b in zip(mu, h)), F(0))) - (n / 2 * math.log(2 * math.pi) + 0.5 * math.log(float(mdet(S))))
    return K, h, g


def check_gaussian_ops(case):
    vs, mu, S = _G(case["g1"])
    n = len(vs)
    vals = [F(x) for x in case["values"]]
    rng = O.mk_rng(case["qseed"], "gops")
    base = make_gd(case["g1"])
    state0 = _gd_state(base)
    if not _gd_matches(base, vs, mu, S):
        return {"key": "GaussianDistribution:construction", "what": "constructor changed mean/covariance"}
    # ---- marginalize
    for drop in [list(c) for r in range(0, n) for c in itertools.combinations(vs, r)]:
        keep = [v for v in vs if v not in drop]
        ix = [vs.index(v) for v in keep]
        dshuf = drop[:]
        rng.shuffle(dshuf)
        g = make_gd(case["g1"])
        out = g.marginalize(list(dshuf), inplace=False)
        if _gd_state(g) != state0:
            return {"key": "GaussianDistribution.marginalize:mutated-operand", "what": f"inplace=False changed the receiver (drop {dshuf})"}
        g.marginalize(list(dshuf))
        for nm, obj in (("inplace=False", out), ("inplace=True", g)):
            if obj is None or list(obj.variables) != keep or not _gd_matches(obj, keep, [mu[i] for i in ix], sub(S, ix, ix)):
                return {"key": "GaussianDistribution.marginalize:result", "what": f"{nm} drop {dshuf}: variables {getattr(obj, 'variables', None)}, "
                                                                              f"mean {getattr(obj, 'mean', None)}, cov {getattr(obj, 'covariance', None)}; expected the sub-vector / sub-matrix on {keep}"}
    # ---- reduce
    for red in [list(c) for r in range(1, n) for c in itertools.combinations(vs, r)]:
        keep = [v for v in vs if v not in red]
        rshuf = red[:]
        rng.shuffle(rshuf)
        xb = [vals[GN.index(v)] for v in rshuf]
        wm, wc = condition(mu, S, [vs.index(v) for v in keep], [vs.index(v) for v in rshuf], xb)
        g = make_gd(case["g1"])
        values = [(v, float(x)) for v, x in zip(rshuf, xb)]
        out = g.reduce(list(values), inplace=False)
        if _gd_state(g) != state0:
            return {"key": "GaussianDistribution.reduce:mutated-operand", "what": f"inplace=False changed the receiver ({values})"}
        g.reduce(list(values))
        for nm, obj in (("inplace=False", out), ("inplace=True", g)):
            if obj is None or list(obj.variables) != keep or not _gd_matches(obj, keep, wm, wc):
                return {"key": "GaussianDistribution.reduce:result", "what": f"{nm} given {values}: variables {getattr(obj, 'variables', None)}, mean "
                                                                          f"{getattr(obj, 'mean', None)}, cov {getattr(obj, 'covariance', None)}; Gaussian conditioning gives mean {[float(x) for x in wm]} cov {fl(wc)}"}
    # ---- canonical form
    K, h, gconst = canonical_of(mu, S)
    g = make_gd(case["g1"])
    cf = g.to_canonical_factor()
    if _gd_state(g) != state0:
        return {"key": "GaussianDistribution.to_canonical_factor:mutated-operand", "what": "receiver changed"}
    if list(cf.variables) != vs or not mat_close(cf.K.tolist(), K, 1e-8, 1e-8) or not mat_close(cf.h.tolist(), [[x] for x in h], 1e-8, 1e-8):
        return {"key": "GaussianDistribution.to_canonical_factor:K-h", "what": f"K {cf.K.tolist()} h {cf.h.tolist()}; Sigma^-1 = {fl(K)}, Sigma^-1 mu = {[float(x) for x in h]}"}
    if not close(cf.g, gconst, 1e-8, 1e-8):
        return {"key": "GaussianDistribution.to_canonical_factor:g", "what": f"g = {cf.g}; -mu'K mu/2 - log((2 pi)^(n/2) |Sigma|^(1/2)) = {gconst}"}
    back = cf.to_joint_gaussian()
    if list(back.variables) != vs or not _gd_matches(back, vs, mu, S):
        return {"key": "CanonicalDistribution.to_joint_gaussian:result", "what": f"round trip gives mean {back.mean.tolist()} cov {back.covariance.tolist()}"}
    # ---- product of two Gaussians (through the canonical form): precision matrices and potential vectors add
    vs2, mu2, S2 = _G(case["g2"])
    K2, h2, _ = canonical_of(mu2, S2)
    allv = vs + [v for v in vs2 if v not in vs]
    Kp = [[F(0)] * len(allv) for _ in allv]
    hp = [F(0)] * len(allv)
    for (vv, KK, hh) in ((vs, K, h), (vs2, K2, h2)):
        for i, a in enumerate(vv):
            hp[allv.index(a)] += hh[i]
            for j, b in enumerate(vv):
                Kp[allv.index(a)][allv.index(b)] += KK[i][j]
    Sp = minv(Kp)
    mp = [r[0] for r in mmul(Sp, [[x] for x in hp])]
    ga, gb = make_gd(case["g1"]), make_gd(case["g2"])
    sb0 = _gd_state(gb)
    for nm, prod in (("product(inplace=False)", ga.product(gb, inplace=False)), ("__mul__", ga * gb)):
        if _gd_state(ga) != state0 or _gd_state(gb) != sb0:
            return {"key": "GaussianDistribution.product:mutated-operand", "what": f"{nm} changed an operand"}
        if prod is None or list(prod.variables) != allv or not _gd_matches(prod, allv, mp, Sp, 1e-7):
            return {"key": "GaussianDistribution.product:result", "what": f"{nm}: N({vs}) * N({vs2}): variables {getattr(prod, 'variables', None)}, mean "
                                                                           f"{getattr(prod, 'mean', None)}, cov {getattr(prod, 'covariance', None)}; expected mean {[float(x) for x in mp]} cov {fl(Sp)} on {allv}"}
    return None


def check_product_inplace(case):
    """GaussianDistribution.product / divide with the documented default inplace=True must turn the receiver into the result."""
    vs, mu, S = _G(case["g1"])
    vs2, mu2, S2 = _G(case["g2"])
    K, h, _ = canonical_of(mu, S)
    K2, h2, _ = canonical_of(mu2, S2)
    allv = vs + [v for v in vs2 if v not in vs]
    Kp = [[F(0)] * len(allv) for _ in allv]
    hp = [F(0)] * len(allv)
    for (vv, KK, hh) in ((vs, K, h), (vs2, K2, h2)):
        for i, a in enumerate(vv):
            hp[allv.index(a)] += hh[i]
            for j, b in enumerate(vv):
                Kp[allv.index(a)][allv.index(b)] += KK[i][j]
    Sp = minv(Kp)
    mp = [r[0] for r in mmul(Sp, [[x] for x in hp])]
    ga, gb = make_gd(case["g1"]), make_gd(case["g2"])
    state0, sb0 = _gd_state(ga), _gd_state(gb)
    _ = ga.precision_matrix  # fill the cached precision matrix: it must not survive the in-place update
    r = ga.product(gb)  # documented default: in place
    if _gd_state(gb) != sb0:
        return {"key": "mutated-operand", "what": "in-place product changed the right operand"}
    if r is not None or list(ga.variables) != allv or not _gd_matches(ga, allv, mp, Sp, 1e-7):
        return {"key": "noop" if _gd_state(ga) == state0 else "result",
                "what": f"N({vs}) .product( N({vs2}) ) with the default inplace=True returned {r!r} and left the receiver at variables {ga.variables}, "
                        f"mean {ga.mean.reshape(-1).tolist()}; expected the product on {allv} with mean {[float(x) for x in mp]}"}
    import numpy as _np
    P = _np.asarray(ga.precision_matrix, dtype=float)
    want = _np.array([[float(x) for x in row] for row in Kp])
    if P.shape != want.shape or not _np.allclose(P, want, rtol=1e-6, atol=1e-7):
        return {"key": "stale-precision-matrix", "what": f"after the in-place product precision_matrix is {P.tolist()}, the inverse of the new covariance is {want.tolist()}"}
    return None


def gen_gauss_few(tier, seed):
    """at most 60 of the Gaussian pairs, first operand of dimension >= 2."""
    k = 0
    for c in gen_gauss(tier, seed):
        if len(c["g1"]["vars"]) >= 2:
            k += 1
            if k % 3 == 0 and k <= 180:
                yield c


def check_canonical_ops(case, part="core"):
    """CanonicalDistribution C(x; K, h, g) = exp(g + h'x - x'Kx/2): marginalize / reduce / product / divide / to_joint_gaussian.
    part = "core": everything except the constant g after marginalize; part = "g": only that constant."""
    from pgmpy.factors.continuous import CanonicalDistribution

    vs, mu, S = _G(case["g1"])
    n = len(vs)
    vals = [F(x) for x in case["values"]]
    rng = O.mk_rng(case["qseed"], "cops")
    # a canonical factor that is *not* normalised: K positive definite, arbitrary h and g
    K = minv(S)
    h = [F(x) for x in case["values"]][:n]
    g0 = F(case["g"])

    def mk():
        return CanonicalDistribution(list(vs), [[float(x) for x in r] for r in K], [[float(x)] for x in h], float(g0))

    def state(c):
        return list(c.variables), c.K.tolist(), c.h.tolist(), float(c.g)

    s0 = state(mk())
    # ---- marginalize: integrate x_j out
    for drop in [list(c) for r in range(1, n) for c in itertools.combinations(vs, r)]:
        keep = [v for v in vs if v not in drop]
        dshuf = drop[:]
        rng.shuffle(dshuf)
        i, j = [vs.index(v) for v in keep], [vs.index(v) for v in dshuf]
        Kjj_inv = minv(sub(K, j, j))
        Kij = sub(K, i, j)
        wK = madd(sub(K, i, i), mmul(mmul(Kij, Kjj_inv), mT(Kij)), -1)
        hj = [[h[b]] for b in j]
        wh = [h[a] - r[0] for a, r in zip(i, mmul(mmul(Kij, Kjj_inv), hj))]
        quad = mmul(mmul(mT(hj), Kjj_inv), hj)[0][0]
        wg = float(g0) + 0.5 * (len(j) * math.log(2 * math.pi) - math.log(float(mdet(sub(K, j, j)))) + float(quad))
        c = mk()
        out = c.marginalize(list(dshuf), inplace=False)
        if state(c) != s0:
            return {"key": "CanonicalDistribution.marginalize:mutated-operand", "what": f"inplace=False changed the receiver (drop {dshuf})"}
        c.marginalize(list(dshuf))
        for nm, obj in (("inplace=False", out), ("inplace=True", c)):
            if obj is None or list(obj.variables) != keep or not mat_close(obj.K.tolist(), wK, 1e-8, 1e-8) or not mat_close(obj.h.tolist(), [[x] for x in wh], 1e-8, 1e-8):
                return {"key": "CanonicalDistribution.marginalize:K-h", "what": f"{nm} drop {dshuf}: variables {getattr(obj, 'variables', None)} K {getattr(obj, 'K', None)} "
                                                                                f"h {getattr(obj, 'h', None)}; expected K {fl(wK)} h {[float(x) for x in wh]}"}
            if part == "g" and not close(obj.g, wg, 1e-8, 1e-8):
                f = {"key": "wrong",
                     "what": f"{nm} drop {dshuf} from K={fl(K)}, h={[float(x) for x in h]}, g={float(g0)}: g' = {obj.g}; integrating exp(g + h'x - x'Kx/2) over "
                             f"{dshuf} gives g + (|j| log 2pi - log|K_jj| + h_j' K_jj^-1 h_j)/2 = {wg}"}
                # signature seen on the unchanged tree: h_j' K_jj h_j (no inverse) in the quadratic term
                alt = float(g0) + 0.5 * (len(j) * math.log(2 * math.pi) - math.log(float(mdet(sub(K, j, j)))) + float(mmul(mmul(mT(hj), sub(K, j, j)), hj)[0][0]))
                if close(obj.g, alt, 1e-8, 1e-8):
                    f["key"] = "uninverted-Kjj"
                return f
    if part == "g":
        # definition-level cross-check without the formula above: marginalising the canonical form of a normalised Gaussian
        # must give the canonical form of its marginal (the density integrates to the marginal density, constant included)
        if n >= 2:
            gd = make_gd(case["g1"])
            lhs = gd.to_canonical_factor().marginalize([vs[-1]], inplace=False)
            rhs = gd.marginalize([vs[-1]], inplace=False).to_canonical_factor()
            if not close(lhs.g, rhs.g, 1e-8, 1e-8):
                Kn, hn, _ = canonical_of(mu, S)
                kjj, hj = Kn[n - 1][n - 1], hn[n - 1]
                delta = 0.5 * float(hj * hj * kjj - hj * hj / kjj)  # effect of using K_jj instead of its inverse in the quadratic term
                return {"key": "uninverted-Kjj" if close(lhs.g - rhs.g, delta, 1e-8, 1e-8) else "wrong",
                        "what": f"canonical form of N({vs}) marginalised over {vs[-1]}: g = {lhs.g}, canonical form of the marginal: g = {rhs.g}"}
        return None
    # ---- reduce: plug x_j = y in
    for red in [list(c) for r in range(1, n) for c in itertools.combinations(vs, r)]:
        keep = [v for v in vs if v not in red]
        rshuf = red[:]
        rng.shuffle(rshuf)
        i, j = [vs.index(v) for v in keep], [vs.index(v) for v in rshuf]
        y = [[vals[(GN.index(v) + 1) % 4]] for v in rshuf]
        wK = sub(K, i, i)
        wh = [h[a] - r[0] for a, r in zip(i, mmul(sub(K, i, j), y))]
        wg = float(g0 + sum((h[b] * yy[0] for b, yy in zip(j, y)), F(0)) - F(1, 2) * mmul(mmul(mT(y), sub(K, j, j)), y)[0][0])
        values = [(v, float(yy[0])) for v, yy in zip(rshuf, y)]
        c = mk()
        out = c.reduce(list(values), inplace=False)
        if state(c) != s0:
            return {"key": "CanonicalDistribution.reduce:mutated-operand", "what": f"inplace=False changed the receiver ({values})"}
        c.reduce(list(values))
        for nm, obj in (("inplace=False", out), ("inplace=True", c)):
            if (obj is None or list(obj.variables) != keep or not mat_close(obj.K.tolist(), wK, 1e-8, 1e-8)
                    or not mat_close(obj.h.tolist(), [[x] for x in wh], 1e-8, 1e-8) or not close(obj.g, wg, 1e-8, 1e-8)):
                return {"key": "CanonicalDistribution.reduce:result", "what": f"{nm} given {values}: variables {getattr(obj, 'variables', None)} K {getattr(obj, 'K', None)} h "
                                                                              f"{getattr(obj, 'h', None)} g {getattr(obj, 'g', None)}; expected K {fl(wK)} h {[float(x) for x in wh]} g {wg}"}
    # ---- to_joint_gaussian: Sigma = K^-1, mu = Sigma h
    jg = mk().to_joint_gaussian()
    wmu = [r[0] for r in mmul(S, [[x] for x in h])]
    if list(jg.variables) != vs or not _gd_matches(jg, vs, wmu, S):
        return {"key": "CanonicalDistribution.to_joint_gaussian:result", "what": f"mean {jg.mean.tolist()} cov {jg.covariance.tolist()}; K^-1 h = {[float(x) for x in wmu]}"}
    # ---- product / divide with scope extension
    vs2, mu2, S2 = _G(case["g2"])
    K2 = minv(S2)
    h2 = [F(x) for x in reversed(case["values"])][:len(vs2)]
    g2 = F(3, 4)
    allv = vs + [v for v in vs2 if v not in vs]
    for op, sgn in (("product", 1), ("divide", -1)):
        Kp = [[F(0)] * len(allv) for _ in allv]
        hp = [F(0)] * len(allv)
        for (vv, KK, hh, s) in ((vs, K, h, 1), (vs2, K2, h2, sgn)):
            for a_, a in enumerate(vv):
                hp[allv.index(a)] += s * hh[a_]
                for b_, b in enumerate(vv):
                    Kp[allv.index(a)][allv.index(b)] += s * KK[a_][b_]
        wg = float(g0 + sgn * g2)
        c1 = mk()
        c2 = CanonicalDistribution(list(vs2), [[float(x) for x in r] for r in K2], [[float(x)] for x in h2], float(g2))
        s2 = state(c2)
        out = getattr(c1, op)(c2, inplace=False)
        out2 = (c1 * c2) if op == "product" else (c1 / c2)
        if state(c1) != s0 or state(c2) != s2:
            return {"key": f"CanonicalDistribution.{op}:mutated-operand", "what": "inplace=False / operator changed an operand"}
        getattr(c1, op)(c2)
        if state(c2) != s2:
            return {"key": f"CanonicalDistribution.{op}:mutated-operand", "what": "in-place call changed the right operand"}
        for nm, obj in (("inplace=False", out), ("operator", out2), ("inplace=True", c1)):
            if (obj is None or list(obj.variables) != allv or not mat_close(obj.K.tolist(), Kp, 1e-8, 1e-8)
                    or not mat_close(obj.h.tolist(), [[x] for x in hp], 1e-8, 1e-8) or not close(obj.g, wg, 1e-8, 1e-8)):
                return {"key": f"CanonicalDistribution.{op}:result", "what": f"{nm} C({vs}) {op} C({vs2}): variables {getattr(obj, 'variables', None)} K {getattr(obj, 'K', None)} "
                                                                             f"h {getattr(obj, 'h', None)} g {getattr(obj, 'g', None)}; expected on {allv}: K {fl(Kp)} h {[float(x) for x in hp]} g {wg}"}
    if n >= 2:
        gd = make_gd(case["g1"])
        lhs = gd.to_canonical_factor().marginalize([vs[-1]], inplace=False)
        rhs = gd.marginalize([vs[-1]], inplace=False).to_canonical_factor()
        if not (mat_close(lhs.K.tolist(), rhs.K.tolist(), 1e-8, 1e-8) and mat_close(lhs.h.tolist(), rhs.h.tolist(), 1e-8, 1e-8)):
            return {"key": "CanonicalDistribution.marginalize:K-h", "what": "canonical(marginal) != marginal(canonical)"}
    return None


def check_canonical_g(case):
    return check_canonical_ops(case, part="g")


def groups(tier):
    mb = ("every DAG <= 3 nodes x 2 parameterisations, all 543 four-node DAGs, 16 (360) seeded 5-6 node DAGs; coefficients and "
          "variances small rationals, node insertion order and CPD parent order shuffled")
    nt = lambda c: len(c["spec"]["edges"]) >= 1
    return [
        Group("to_joint_gaussian", gen_models, check_joint, nt, engine="E3", bound=mb),
        Group("predict_mean", gen_models, check_predict_mean, nt, seed_fanout=4, engine="E3",
              bound=mb + "; every non-empty proper subset of missing variables (> 4 nodes: all of size <= 2, 30% of the rest), 3 data rows, "
                         "observed columns in shuffled order: variable list, conditional means, conditional variance of a single missing "
                         "variable; 4 hash seeds per case"),
        Group("predict", gen_models_small, check_predict, nt, seed_fanout=2, engine="E3",
              bound="models with >= 3 nodes (quick: every 9th four-node DAG): conditional covariance matrix for every subset of >= 2 missing variables"),
        Group("fit", gen_fit, check_fit, lambda c: len(c["edges"]) >= 1, engine="E3",
              bound="every DAG <= 3 nodes + 12 (200) four-node DAGs, exact integer / half-integer data sets with 6-12 rows (rank-deficient designs "
                    "skipped), shuffled and extra columns; default / reversed / string / offset row labels; residual variance convention RSS/(n-1)"),
        Group("simulate", gen_models, check_simulate, nt, engine="E3",
              bound=mb + "; n=4000 draws: same seed twice, other seed, column set, per-column mean within 8 standard errors, variance within 25%"),
        Group("gaussian_ops", gen_gauss, check_gaussian_ops, lambda c: len(c["g1"]["vars"]) >= 2, engine="E3",
              bound="72 (900) seeded Gaussians of dimension 1-3 (rational PD covariance), every marginalised / reduced subset in both inplace modes, "
                    "canonical conversion and round trip, out-of-place product / * with a second Gaussian of dimension 1-3 on an overlapping / "
                    "disjoint scope"),
        Group("gaussian_product_inplace", gen_gauss_few, check_product_inplace, lambda c: True, engine="E3",
              bound="every third of the first 180 Gaussian pairs whose first operand has dimension >= 2: product with the default inplace=True"),
        Group("canonical_ops", gen_gauss, check_canonical_ops, lambda c: len(c["g1"]["vars"]) >= 2, engine="E3",
              bound="same seeds: unnormalised canonical factors (PD K, arbitrary h, g): marginalize (K, h), reduce, to_joint_gaussian, product, "
                    "divide, operators, both inplace modes; K, h of marginal(canonical(N)) == canonical(marginal(N))"),
        Group("canonical_marginalize_g", gen_gauss_few, check_canonical_g, lambda c: len(c["g1"]["vars"]) >= 2, engine="E3",
              bound="every third of the first 180 canonical factors of dimension >= 2: constant g after marginalize against the Gaussian integral, and against "
                    "canonical(marginal(N))"),
    ]
