"""C09 bounded groups (E3): write -> read round trips for BIF, XMLBIF, UAI (Bayesian + Markov), NET.

A case is one model spec (plain JSON, floats are stored with repr precision => exactly replayable)
plus the format and the I/O routes to exercise.  The check builds the pgmpy model, writes it with
the real writer, reads the text back with the real reader (string=..., path=..., save/load) and
compares with the *spec* (never with pgmpy's own view of the original model):
  same variables, same edges, same state names (as strings; positional var_i / 0..k-1 for UAI),
  same probability for every named assignment of every CPD / factor,
  the writer left the model untouched.
Independent side checks (attribution): hand-written files -> reader, writer text -> tiny parsers
written here from the format definitions.

Known-defect input classes live in their own small groups (a worker stops a group after 40
failures, so a defect that fires on a whole input class must not sit in a big enumeration);
every such split is spelled out in the group's `bound`.
"""
from __future__ import annotations

import itertools
import os
import re
import tempfile

from vf.core import Group
from vf.bounded import oracles as O

# ----------------------------------------------------------------------------- name pools
ADVERSARIAL = ["variable1", "probability_x", "table", "default", "network", "node_a", "states", "x_1", "prob", "variable_x"]
EXTRA_KW = ["property_p", "type1", "net_x", "data1", "potential_q", "discrete_d", "Variable", "e_1"]
PLAIN = ["alpha", "b", "Cee_long", "d4", "_e", "Zed"]
BIF_KEYWORDS = ["variable", "probability", "network", "property", "discrete", "default", "table", "type"]
SHARED_STATES = ["yes", "no", "maybe", "rarely"]
KW_STATES = ["table0", "default_1", "mid__hi", "node_3", "_lead4", "data_5", "trail6_", "e7"]  # identifiers: keyword-like, double/leading/trailing underscores
KW_STATES_BIF_BREAKING = ["variable_s", "s_probability", "probability2", "my_variable"]


def bif_breaking(name):
    """names on which DESIGN #18 fires: BIFReader splits blocks by re.finditer('variable' / 'probability')."""
    return "variable" in name or "probability" in name


def contained_keyword(name):
    for k in BIF_KEYWORDS:
        if k in name:
            return k
    return "none"


# ----------------------------------------------------------------------------- probability columns
def _plain_specials(card):
    if card == 1:
        return [[1.0]]
    if card == 2:
        return [[0.0, 1.0], [1.0, 0.0], [0.1, 0.9], [1 / 3, 2 / 3], [0.5, 0.5], [0.0001, 0.9999], [0.00015, 0.99985]]
    if card == 3:
        return [[0.0, 0.0, 1.0], [0.0, 1.0, 0.0], [0.1, 1 / 3, 1 - 0.1 - 1 / 3], [1 / 3, 1 / 3, 1 / 3], [0.999, 0.0, 0.001]]
    return [[1.0] + [0.0] * (card - 1), [0.0] * (card - 1) + [1.0]]


def _tiny_specials(card):
    if card == 1:
        return [[1.0]]
    if card == 2:
        return [[1e-12, 1 - 1e-12], [1e-5, 1 - 1e-5], [0.999999, 1 - 0.999999], [0.999999999999, 1e-12], [3e-7, 1 - 3e-7],
                [1.2345678901234567e-12, 1 - 1.2345678901234567e-12], [9.87654321987e-09, 1 - 9.87654321987e-09]]
    if card == 3:
        return [[1e-12, 1e-5, 1 - 1e-12 - 1e-5], [0.999999, 1e-12, 1 - 0.999999 - 1e-12], [1e-5, 0.0, 1 - 1e-5], [1 / 3, 1e-12, 2 / 3 - 1e-12]]
    return [[1e-12] * (card - 1) + [1 - (card - 1) * 1e-12], [1e-5] + [0.0] * (card - 2) + [1 - 1e-5]]


def has_exponent(x):
    return "e" in repr(float(x))


def _random_column(rng, card):
    """full-precision floats, every entry >= 1e-3 (no exponent in repr), pairwise different."""
    while True:
        w = [rng.uniform(0.05, 1.0) for _ in range(card)]
        s = sum(w)
        col = [x / s for x in w]
        if all(x >= 1e-3 and not has_exponent(x) for x in col):
            return col


def columns(rng, card, ncol, mode):
    """ncol probability columns over `card` states.  mode 'plain': exact 0/1, 0.1, 1/3, 1e-4 and random
    full-precision floats, none of which prints with an exponent; mode 'tiny': additionally 1e-12, 1e-5, 0.999999..."""
    sp = _plain_specials(card) + (_tiny_specials(card) if mode == "tiny" else [])
    out = []
    for j in range(ncol):
        r = rng.random()
        if card == 1:
            out.append([1.0])
        elif mode == "tiny" and (j == ncol - 1 or r < 0.5):
            out.append(list(rng.choice(_tiny_specials(card))))   # the very last column is always tiny (UAI: last token of a table)
        elif r < 0.35:
            out.append(list(rng.choice(sp)))
        else:
            out.append(_random_column(rng, card))
    return out


# ----------------------------------------------------------------------------- BN specs
def state_list(i, card, style):
    if style == "shared" and card <= len(SHARED_STATES):
        return SHARED_STATES[:card]
    if style == "kw" and card <= len(KW_STATES):
        return [KW_STATES[(i + k) % len(KW_STATES)] for k in range(card)]
    if style == "kwbif" and card <= len(KW_STATES_BIF_BREAKING):
        return [KW_STATES_BIF_BREAKING[(i + k) % len(KW_STATES_BIF_BREAKING)] for k in range(card)]
    return [f"v{i}s{card - 1 - k}" for k in range(card)]          # reverse-sorted, different per variable


def build_spec(rng, names, edges, cards, mode="plain", style="own", order_choice=0, node_rot=1):
    """names: list of variable names; edges over names; cards: dict.  Parent (evidence) order: the edges are
    stored so that insertion order == sorted order; the CPD's evidence order is another permutation
    (order_choice % 4 == 3 keeps the sorted one for variety)."""
    names = list(names)
    edges = sorted([list(e) for e in edges], key=lambda e: (e[1], e[0]))
    nodes = names[node_rot % len(names):] + names[:node_rot % len(names)]
    if len(nodes) > 1 and nodes == sorted(nodes):
        nodes = nodes[::-1]
    states = {v: state_list(names.index(v), cards[v], style) for v in names}
    cpd = {}
    for v in names:
        ps = sorted(O.parents_of(edges, v))
        if len(ps) >= 2 and order_choice % 4 != 3:
            perms = [list(p) for p in itertools.permutations(ps)][1:]
            ps = perms[order_choice % len(perms)]
        ncol = 1
        for p in ps:
            ncol *= cards[p]
        cols = columns(rng, cards[v], ncol, mode)
        cpd[v] = {"parents": ps, "table": [[cols[j][i] for j in range(ncol)] for i in range(cards[v])]}
    return {"nodes": nodes, "edges": edges, "states": states, "cpd": cpd}


CARD_VECTORS = {
    1: [(2,), (3,), (1,)],
    2: [(2, 3), (3, 2), (1, 2), (2, 1), (3, 1), (1, 3), (2, 2)],
    3: [p for p in itertools.permutations((1, 2, 3))] + [(2, 3, 2), (3, 2, 2)],
    4: [p for p in itertools.permutations((1, 2, 3, 4))][::2] + [(2, 3, 2, 3), (3, 1, 2, 3)],
}


def base_params(tier, seed, salt, per_dag, pool, max_n=None):
    """(names, edges, cards, variant index) over all DAGs <= 3 (thorough 4) nodes; `per_dag` card vectors per DAG,
    rotating with the seed and the DAG index; names rotate through `pool`."""
    max_n = max_n or (3 if tier == "quick" else 4)
    k = 0
    for n in range(1, max_n + 1):
        ph = [f"#{i}" for i in range(n)]
        for d, edges in enumerate(O.all_dags(n, ph)):
            cvs = CARD_VECTORS[n]
            reps = per_dag if n < 4 else max(1, per_dag // 3)
            for r in range(reps):
                k += 1
                cv = cvs[(d + r + seed) % len(cvs)]
                start = (k * 3 + seed) % len(pool)
                names = [pool[(start + i * 5) % len(pool)] for i in range(n)]
                if len(set(names)) < n:
                    names = [pool[(start + i) % len(pool)] for i in range(n)]
                m = dict(zip(ph, names))
                yield names, [[m[u], m[v]] for u, v in edges], dict(zip(names, cv)), k


def single_value_tables(edges, cards):
    """variables whose table has exactly one entry (cardinality 1 and only cardinality-1 parents)."""
    return [v for v in cards if cards[v] == 1 and all(cards[p] == 1 for p in O.parents_of(edges, v))]


def spec_features(spec):
    return {
        "multi_parent": any(len(c["parents"]) >= 2 for c in spec["cpd"].values()),
        "exponent": any(has_exponent(x) for c in spec["cpd"].values() for row in c["table"] for x in row),
        "single_value": any(len(c["table"]) == 1 and len(c["table"][0]) == 1 for c in spec["cpd"].values()),
    }


# ----------------------------------------------------------------------------- pgmpy access
def rw(fmt):
    from pgmpy import readwrite as RW

    return {"bif": (RW.BIFReader, RW.BIFWriter, "write_bif"), "xmlbif": (RW.XMLBIFReader, RW.XMLBIFWriter, "write_xmlbif"),
            "uai": (RW.UAIReader, RW.UAIWriter, "write_uai"), "net": (RW.NETReader, RW.NETWriter, "write_net")}[fmt]


WNAME = {"bif": "BIFWriter", "xmlbif": "XMLBIFWriter", "uai": "UAIWriter", "net": "NETWriter"}
RNAME = {"bif": "BIFReader", "xmlbif": "XMLBIFReader", "uai": "UAIReader", "net": "NETReader"}
TOL = {"bif": 1e-12, "xmlbif": 1e-12, "uai": 1e-12, "net": 5e-5 + 1e-9}


def snapshot_bn(m):
    import numpy as np

    return {
        "nodes": list(m.nodes()), "edges": list(m.edges()), "attrs": {repr(n): sorted((repr(k), repr(v)) for k, v in m.nodes[n].items()) for n in m.nodes()},
        "name": repr(getattr(m, "name", None)), "latents": sorted(map(repr, getattr(m, "latents", []))),
        "cpds": [{"id": id(c), "variable": c.variable, "variables": list(c.variables), "card": [int(x) for x in c.cardinality],
                  "values": np.array(c.values, dtype=float).copy(), "shape": tuple(c.values.shape),
                  "state_names": {k: list(v) for k, v in c.state_names.items()}} for c in m.cpds],
    }


def snapshot_mn(m):
    import numpy as np

    return {
        "nodes": list(m.nodes()), "edges": list(m.edges()), "attrs": {}, "name": None, "latents": [],
        "cpds": [{"id": id(f), "variable": None, "variables": list(f.variables), "card": [int(x) for x in f.cardinality],
                  "values": np.array(f.values, dtype=float).copy(), "shape": tuple(f.values.shape),
                  "state_names": {k: list(v) for k, v in f.state_names.items()}} for f in m.factors],
    }


def _cpd_same(a, b):
    import numpy as np

    return (a["id"] == b["id"] and a["variable"] == b["variable"] and a["variables"] == b["variables"] and a["card"] == b["card"]
            and a["shape"] == b["shape"] and np.array_equal(a["values"], b["values"]) and a["state_names"] == b["state_names"])


def purity_failure(before, after, writer, strict_order):
    """None, or (key, what).  A changed order of model.cpds (DESIGN #12) has its own key and is only demanded when
    strict_order is set (group `purity`)."""
    for k in ("nodes", "edges", "attrs", "name", "latents"):
        if before[k] != after[k]:
            return f"{writer}:mutates-model:{k}", f"{writer} changed model.{k}: {before[k]!r} -> {after[k]!r}"
    b, a = before["cpds"], after["cpds"]
    if len(a) != len(b):
        return f"{writer}:mutates-model:cpds", f"{writer} changed the number of CPDs/factors {len(b)} -> {len(a)}"
    if all(_cpd_same(x, y) for x, y in zip(b, a)):
        return None
    bi = {x["id"]: x for x in b}
    if sorted(bi) == sorted(y["id"] for y in a) and all(_cpd_same(bi[y["id"]], y) for y in a):
        if strict_order:
            return (f"{writer}:reorders-model-cpds", f"{writer} reordered the model's own CPD list: "
                    f"{[x['variables'][0] for x in b]} -> {[y['variables'][0] for y in a]}")
        return None
    return f"{writer}:mutates-model:cpds", f"{writer} modified a CPD/factor of the model it was given"


def uai_index(cards):
    """UAIWriter numbers the variables by (str(cardinality), name) - the cardinality is compared as a string, which only
    matters for the >= 10-state variables of the large-table group.  name -> 'var_i'."""
    order = sorted(cards, key=lambda v: (str(cards[v]), v))
    return {v: f"var_{i}" for i, v in enumerate(order)}


def compare_bn(spec, got, fmt, tol, multi_parent_strict=True):
    """list of (key, what) - empty when the read-back model agrees with the spec."""
    R = RNAME[fmt]
    positional = fmt == "uai"
    cards = {v: len(spec["states"][v]) for v in spec["states"]}
    vm = uai_index(cards) if positional else {v: v for v in cards}
    out = []
    want_nodes = {vm[v] for v in cards}
    if set(got.nodes()) != want_nodes or len(list(got.nodes())) != len(want_nodes):
        return [(f"{fmt}:variables", f"variables read back {sorted(map(str, got.nodes()))}, expected {sorted(want_nodes)}")]
    want_edges = {(vm[u], vm[v]) for u, v in spec["edges"]}
    if set(map(tuple, got.edges())) != want_edges:
        out.append((f"{fmt}:edges", f"edges read back {sorted(got.edges())}, expected {sorted(want_edges)}"))
    cv = [c.variable for c in got.get_cpds()]
    if sorted(cv) != sorted(want_nodes):
        out.append((f"{fmt}:cpd-set", f"CPDs read back for {sorted(cv)}, expected one each for {sorted(want_nodes)}"))
        return out
    for v in spec["nodes"]:
        c = got.get_cpds(vm[v])
        ps = spec["cpd"][v]["parents"]
        table = spec["cpd"][v]["table"]

        def names_of(x):
            return list(range(cards[x])) if positional else [str(s) for s in spec["states"][x]]

        gp = list(c.variables[1:])
        if c.variables[0] != vm[v] or sorted(gp) != sorted(vm[p] for p in ps):
            out.append((f"{fmt}:cpd-scope", f"CPD of {v}: scope {list(c.variables)}, expected {[vm[v]] + [vm[p] for p in ps]} (any parent order)"))
            continue
        bad_states = [x for x in [v] + ps if list(c.state_names[vm[x]]) != names_of(x)]
        if bad_states:
            x = bad_states[0]
            out.append((f"{fmt}:state-names", f"CPD of {v}: states of {x} read back as {list(c.state_names[vm[x]])!r}, expected {names_of(x)!r}"))
            continue
        want_flat = [x for row in table for x in row]
        if len(ps) >= 2 and positional:
            # UAI: parent order of the reader comes from a set (DESIGN #13).  Layout part: the value sequence is intact.
            got_flat = [float(x) for x in c.values.ravel()]
            if len(got_flat) != len(want_flat) or any(abs(a - b) > tol for a, b in zip(got_flat, want_flat)):
                out.append((f"{fmt}:table-sequence", f"CPD of {v} (parents {ps}): value sequence read back differs from the one written"))
                continue
            if gp != [vm[p] for p in ps]:
                if multi_parent_strict:
                    out.append(("UAIReader:parent-order-from-set", f"CPD of {v}: written with evidence order {[vm[p] for p in ps]} (cards {[cards[p] for p in ps]}), "
                                f"reader attached the same flat table to parents {gp} (PYTHONHASHSEED={os.environ.get('PYTHONHASHSEED')}) => probabilities mis-assigned"))
                continue
        if [int(x) for x in c.cardinality] != [len(c.state_names[x]) for x in c.variables]:
            out.append((f"{fmt}:cardinality", f"CPD of {v}: cardinality {list(c.cardinality)} inconsistent with its state names"))
            continue
        bad = None
        for a in O.all_assignments(spec, [v] + ps):
            idx = tuple(spec["states"][x].index(a[x]) for x in [v] + ps)      # state names were checked position by position above
            pos = {vm[x]: i for x, i in zip([v] + ps, idx)}
            g = float(c.values[tuple(pos[x] for x in c.variables)])
            w = float(table[idx[0]][O.col_index(spec, ps, a)])
            # very small entries additionally by relative error (the absolute tolerance says nothing about a value of 1e-12);
            # NET files carry 4 decimals by format, there only the absolute tolerance applies
            if not abs(g - w) <= tol or (fmt != "net" and 0 < w < 1e-6 and abs(g - w) > 1e-9 * w):
                bad = (a, g, w)
                break
        if bad:
            out.append((f"{fmt}:probability", f"P({v} | {ps}) at {bad[0]}: read back {bad[1]!r}, written {bad[2]!r} (tolerance {tol:g})"))
    return out


def first_failure(fails, prefer_not=("UAIReader:parent-order-from-set",)):
    if not fails:
        return None
    for k, w in fails:
        if k not in prefer_not:
            return {"key": k, "what": w}
    return {"key": fails[0][0], "what": fails[0][1]}


def roundtrip_bn(spec, fmt, io, n_jobs=1, strict_order=False, multi_parent_strict=True, reader_guard=None):
    """Runs the requested routes.  reader_guard(exc_or_None, fails) -> failure dict or None lets a known-defect group
    classify reader failures by input class."""
    from pgmpy.models import BayesianNetwork

    R, W, wm = rw(fmt)
    tol = TOL[fmt]
    rkw = {"n_jobs": n_jobs} if fmt == "bif" else {}
    model = O.make_bn(spec)
    before = snapshot_bn(model)
    writer = W(model)
    text = str(writer)
    pf = purity_failure(before, snapshot_bn(model), WNAME[fmt], strict_order)
    if pf:
        return {"key": pf[0], "what": pf[1]}
    if fmt != "uai" and str(W(model)) != text:
        return {"key": f"{WNAME[fmt]}:not-deterministic", "what": "two writers on the same model produced different text"}

    def read(**kw):
        if reader_guard is None:
            return R(**kw, **rkw).get_model(), None
        try:
            return R(**kw, **rkw).get_model(), None
        except Exception as e:  # classified by the caller's guard
            return None, e

    def judge(got, exc, route):
        fails = compare_bn(spec, got, fmt, tol, multi_parent_strict) if exc is None else []
        if reader_guard is not None:
            r = reader_guard(exc, fails, text)
            if r is not None or exc is not None:
                return r
        f = first_failure(fails)
        if f:
            f["what"] = f"[{route}] " + f["what"]
        return f

    if "string" in io:
        got, exc = read(string=text)
        f = judge(got, exc, "string")
        if f:
            return f
    if "file" in io or "saveload" in io:
        with tempfile.TemporaryDirectory(prefix="c09_") as d:
            if "file" in io:
                p = os.path.join(d, "written_by_writer")
                getattr(W(model), wm)(p)
                ftext = open(p).read()
                if ftext != text:
                    return {"key": f"{WNAME[fmt]}:file-differs-from-str", "what": f"{wm} wrote a text different from str(writer)"}
                got, exc = read(path=p)
                f = judge(got, exc, "file")
                if f:
                    return f
            if "saveload" in io and fmt != "net":
                for fname, kw in ((f"model.{fmt}", {}), ("model_noext", {"filetype": fmt})):
                    p = os.path.join(d, fname)
                    model.save(p, **kw)
                    if open(p).read() != text:
                        return {"key": f"save:{fmt}:differs-from-writer", "what": f"BayesianNetwork.save({fname!r}, {kw}) wrote a text different from str({WNAME[fmt]}(model))"}
                    lkw = dict(kw)
                    if fmt == "bif" and n_jobs is not None:
                        lkw["n_jobs"] = n_jobs
                    try:
                        got, exc = BayesianNetwork.load(p, **lkw), None
                    except Exception as e:
                        if reader_guard is None:
                            raise
                        got, exc = None, e
                    f = judge(got, exc, f"save/load {fname}")
                    if f:
                        f["key"] = f["key"] if reader_guard else f"load:{f['key']}"
                        return f
                    if fmt == "bif":
                        break
    pf = purity_failure(before, snapshot_bn(model), WNAME[fmt], strict_order)
    if pf:
        return {"key": pf[0], "what": pf[1]}
    return None


# ----------------------------------------------------------------------------- main round-trip groups
def _gen_format(fmt, per_dag, pool, modes, uai_safe=False, per_dag_thorough=None):
    def gen(tier, seed):
        rng = O.mk_rng(seed, "c09", fmt)
        for names, edges, cards, k in base_params(tier, seed, fmt, per_dag if tier == "quick" else (per_dag_thorough or per_dag), pool):
            if uai_safe:
                for v in single_value_tables(edges, cards):
                    cards[v] = 4                      # tables with exactly one entry: group uai_single_value
            mode = modes[k % len(modes)]
            style = ("own", "shared", "kw", "own")[k % 4]
            spec = build_spec(rng, names, edges, cards, mode, style, order_choice=k, node_rot=k)
            io = ["string", "file", "saveload"]
            if fmt == "bif":
                io = ["string"] + (["saveload"] if k % 3 == 0 else []) + (["file"] if k % 10 == 1 else [])
            if fmt == "uai":                          # UAIReader re-parses the whole text once per function: ~50 ms per read
                io = ["string"] + (["file", "saveload"] if k % 4 == 0 else [])
            yield {"fmt": fmt, "spec": spec, "io": io, "n_jobs": 1}
    return gen


def check_roundtrip(case):
    return roundtrip_bn(case["spec"], case["fmt"], case["io"], case.get("n_jobs", 1), multi_parent_strict=case.get("strict", True))


def check_roundtrip_uai_main(case):
    return roundtrip_bn(case["spec"], "uai", case["io"], multi_parent_strict=False)


def nontrivial(case):
    s = case.get("spec") or {}
    return len(s.get("edges", [])) >= 1 or any(len(f["scope"]) >= 2 for f in s.get("factors", []))


# ----------------------------------------------------------------------------- BIF: names, n_jobs
def _chain_spec(rng, mid, states_mid=None, style="own"):
    names = ["pa", mid, "zc"]
    cards = {"pa": 2, mid: 3, "zc": 2}
    spec = build_spec(rng, names, [["pa", mid], [mid, "zc"]], cards, "plain", style, node_rot=1)
    if states_mid:
        spec["states"][mid] = states_mid
    return spec


def gen_bif_names(tier, seed):
    rng = O.mk_rng(seed, "c09", "bifnames")
    for nm in ADVERSARIAL + EXTRA_KW:
        yield {"fmt": "bif", "kind": "variable", "word": nm, "spec": _chain_spec(rng, nm), "io": ["string"]}
    for st in KW_STATES_BIF_BREAKING + KW_STATES[:4] + ADVERSARIAL[2:9]:
        yield {"fmt": "bif", "kind": "state", "word": st, "spec": _chain_spec(rng, "mid", ["u", st, "w"]), "io": ["string"]}
    # two-parent collider whose child / parent carries the name
    for nm in ADVERSARIAL:
        names = [nm, "pa", "qb"]
        spec = build_spec(rng, names, [["pa", nm], ["qb", nm]], {nm: 2, "pa": 3, "qb": 2}, "plain", "own", order_choice=0, node_rot=2)
        yield {"fmt": "bif", "kind": "variable", "word": nm, "spec": spec, "io": ["string"]}


def check_bif_names(case):
    word, kind = case["word"], case["kind"]

    def guard(exc, fails, text):
        if exc is None and not fails:
            return None
        what = (f"{type(exc).__name__}: {exc}" if exc is not None else fails[0][1])
        return {"key": f"BIFReader:keyword-in-{kind}-name:{contained_keyword(word)}",
                "what": f"{kind} name {word!r} (contains BIF keyword {contained_keyword(word)!r}): reading back BIFWriter's own output failed: {what}"}

    return roundtrip_bn(case["spec"], "bif", case["io"], 1, reader_guard=guard)


def gen_bif_njobs(tier, seed):
    rng = O.mk_rng(seed, "c09", "njobs")
    todo = [(2, ["string"]), (2, ["saveload"]), (None, ["saveload"])] if tier == "quick" else \
        [(2, ["string", "saveload"]), (2, ["string"]), (3, ["string"]), (None, ["saveload"]), (-1, ["string"])]
    for i, (nj, io) in enumerate(todo):
        names = ["Zed", "alpha", "node_a", "x_1"]
        cards = dict(zip(names, CARD_VECTORS[4][(i + seed) % len(CARD_VECTORS[4])]))
        edges = [["alpha", "Zed"], ["node_a", "Zed"], ["x_1", "Zed"], ["alpha", "x_1"]]
        yield {"fmt": "bif", "spec": build_spec(rng, names, edges, cards, "tiny", "shared", order_choice=i + 1, node_rot=i), "io": io, "n_jobs": nj}


# ----------------------------------------------------------------------------- large tables
def _large_spec(rng, par_cards, child_card, mode="plain"):
    ps = [f"p{i}_x" for i in range(len(par_cards))]
    names = ps + ["kid"]
    cards = dict(zip(ps, par_cards))
    cards["kid"] = child_card
    return build_spec(rng, names, [[p, "kid"] for p in ps], cards, mode, "own", order_choice=1, node_rot=1)


def gen_large(tier, seed):
    rng = O.mk_rng(seed, "c09", "large")
    shapes = [([7, 8, 9], 2), ([9, 8], 15)] if tier == "quick" else [([7, 8, 9], 2), ([9, 8], 15), ([4, 4, 4, 4, 4], 2), ([7, 11], 14), ([3, 2, 9, 5], 4)]
    for par_cards, cc in shapes:
        for fmt in ("bif", "xmlbif", "uai", "net"):
            if fmt == "uai" and len(par_cards) > 1:
                # >= 2 parents in UAI is the known parent-order defect; the large UAI table has one parent
                spec = _large_spec(rng, [9], 120 if cc == 2 else 9 * 15)
            else:
                spec = _large_spec(rng, par_cards, cc)
            yield {"fmt": fmt, "spec": spec, "io": ["string"] if fmt == "bif" else ["string", "file"], "n_jobs": 1}


def check_large(case):
    fmt = case["fmt"]
    if fmt == "net":
        _, W, _ = rw("net")
        text = str(W(O.make_bn(case["spec"])))
        if "..." in text:
            n = max(len(r) * len(c["table"]) for c in case["spec"]["cpd"].values() for r in c["table"][:1])
            return {"key": "NETWriter:large-table-elided", "what": f"NETWriter printed a {n}-entry table through str(ndarray): numpy summarised it with '...' "
                    "(more than 1000 entries and an axis longer than 6); the file does not contain the table and NETReader cannot read it"}
    return roundtrip_bn(case["spec"], fmt, case["io"], 1)


# ----------------------------------------------------------------------------- UAI known-defect input classes
def gen_uai_multiparent(tier, seed):
    rng = O.mk_rng(seed, "c09", "uaimp")
    n = 0
    for names, edges, cards, k in base_params(tier, seed, "uaimp", 4, PLAIN + ADVERSARIAL, max_n=3):
        if not any(len(O.parents_of(edges, v)) >= 2 for v in names):
            continue
        for v in single_value_tables(edges, cards):
            cards[v] = 4
        n += 1
        if n > 36:
            return
        yield {"fmt": "uai", "spec": build_spec(rng, names, edges, cards, "plain", "own", order_choice=k, node_rot=k), "io": ["string"], "strict": True}


def gen_uai_exponent(tier, seed):
    rng = O.mk_rng(seed, "c09", "uaiexp")
    n = 0
    for names, edges, cards, k in base_params(tier, seed, "uaiexp", 2, PLAIN + ADVERSARIAL, max_n=3):
        if any(len(O.parents_of(edges, v)) >= 2 for v in names) or all(c == 1 for c in cards.values()):
            continue
        for v in single_value_tables(edges, cards):
            cards[v] = 4
        spec = build_spec(rng, names, edges, cards, "tiny", "own", order_choice=k, node_rot=k)
        if not spec_features(spec)["exponent"]:
            continue
        n += 1
        if n > 24:
            return
        yield {"fmt": "uai", "spec": spec, "io": ["string"]}


def check_uai_exponent(case):
    def guard(exc, fails, text):
        toks = [t for t in text.split() if re.fullmatch(r"[0-9.]+[eE][-+]?[0-9]+", t)]
        if not toks:
            return {"key": "checker:no-exponent-token", "what": "the generator promised a value printed with an exponent"}
        if exc is not None and type(exc).__name__ != "ParseException":
            raise exc
        if exc is None and not fails:
            return None
        what = f"ParseException: {exc}" if exc is not None else fails[0][1]
        return {"key": "UAIReader:exponent-notation", "what": f"UAIWriter wrote {toks[:3]} (str(float) of values < 1e-4); UAIReader's number grammar has no exponent: {what}"}

    return roundtrip_bn(case["spec"], "uai", case["io"], reader_guard=guard)


def gen_uai_single_value(tier, seed):
    rng = O.mk_rng(seed, "c09", "uai1")
    n = 0
    for names, edges, cards, k in base_params(tier, seed, "uai1", 3, PLAIN + ADVERSARIAL, max_n=3):
        if not single_value_tables(edges, cards) or any(len(O.parents_of(edges, v)) >= 2 for v in names):
            continue
        n += 1
        if n > 20:
            return
        yield {"fmt": "uai", "spec": build_spec(rng, names, edges, cards, "plain", "own", order_choice=k, node_rot=k), "io": ["string"]}


def check_uai_single_value(case):
    def guard(exc, fails, text):
        if exc is not None and not (isinstance(exc, ValueError) and "could not convert string to float" in str(exc)):
            raise exc
        if exc is None and not fails:
            return None
        what = f"{type(exc).__name__}: {exc}" if exc is not None else fails[0][1]
        return {"key": "UAIReader:single-value-table", "what": "model has a table with exactly one entry (cardinality-1 variable); pyparsing returns the single "
                f"token as a str and UAIReader iterates over its characters: {what}"}

    return roundtrip_bn(case["spec"], "uai", case["io"], reader_guard=guard)


# ----------------------------------------------------------------------------- UAI Markov networks
def all_graphs(names):
    pairs = list(itertools.combinations(names, 2))
    for mask in itertools.product((0, 1), repeat=len(pairs)):
        yield [list(p) for p, b in zip(pairs, mask) if b]


def maximal_cliques(names, edges):
    E = {frozenset(e) for e in edges}
    cl = [set(c) for r in range(1, len(names) + 1) for c in itertools.combinations(names, r)
          if all(frozenset(p) in E for p in itertools.combinations(c, 2))]
    return [sorted(c) for c in cl if not any(c < d for d in cl)]


def build_mn_spec(rng, names, edges, cards, structure, k):
    """structure 'edge': one factor per edge (+ unary factors); 'clique': one factor per maximal clique (+ some unaries).
    Scope orders are rotated so that they are neither sorted nor insertion order."""
    factors = []
    scopes = [list(e) for e in edges] if structure == "edge" else [c for c in maximal_cliques(names, edges) if len(c) >= 2]
    covered = {v for s in scopes for v in s}
    for i, s in enumerate(scopes):
        s = sorted(s)
        r = (i + k) % len(s)
        s = (s[r:] + s[:r])[::-1] if (i + k) % 3 else s[r:] + s[:r]
        factors.append(s)
    for i, v in enumerate(names):
        if v not in covered or (cards[v] > 1 and (i + k) % 2 == 0):
            factors.insert((i + k) % (len(factors) + 1), [v])
    out = []
    for s in factors:
        n = 1
        for v in s:
            n *= cards[v]
        vals = [rng.choice((0.0, 1.0, 2.5, 0.1, 1 / 3)) if rng.random() < 0.25 else rng.uniform(0.01, 9.0) for _ in range(n)]
        vals = [x if not has_exponent(x) else 0.5 for x in vals]
        out.append({"scope": s, "values": vals})
    nodes = names[k % len(names):] + names[:k % len(names)]
    return {"nodes": nodes, "edges": [list(e) for e in edges], "cards": dict(cards), "factors": out}


def mn_params(tier, seed, pool):
    k = 0
    for n in range(1, (3 if tier == "quick" else 4) + 1):
        ph = [f"#{i}" for i in range(n)]
        for g, edges in enumerate(all_graphs(ph)):
            for r in range(12 if n < 4 else 3):
                k += 1
                cv = CARD_VECTORS[n][(g + r + seed) % len(CARD_VECTORS[n])]
                start = (k * 3 + seed) % len(pool)
                names = [pool[(start + i * 5) % len(pool)] for i in range(n)]
                if len(set(names)) < n:
                    names = [pool[(start + i) % len(pool)] for i in range(n)]
                m = dict(zip(ph, names))
                yield names, [[m[u], m[v]] for u, v in edges], dict(zip(names, cv)), ("edge", "clique")[r % 2], k


def gen_uai_mn(tier, seed):
    rng = O.mk_rng(seed, "c09", "mn")
    for names, edges, cards, structure, k in mn_params(tier, seed, PLAIN + ADVERSARIAL):
        deg = {v: sum(v in e for e in edges) for v in names}
        if any(d == 0 for d in deg.values()):
            continue                                  # isolated nodes: group uai_mn_isolated
        spec = build_mn_spec(rng, names, edges, cards, structure, k)
        if any(len(f["values"]) == 1 for f in spec["factors"]):
            continue                                  # single-value tables: group uai_single_value (BN) / uai_mn_isolated
        yield {"fmt": "uai", "spec": spec, "io": ["string", "file"]}


def gen_uai_mn_isolated(tier, seed):
    rng = O.mk_rng(seed, "c09", "mniso")
    n = 0
    for names, edges, cards, structure, k in mn_params("quick", seed, PLAIN + ADVERSARIAL):
        deg = {v: sum(v in e for e in edges) for v in names}
        if not any(d == 0 for d in deg.values()):
            continue
        cards = {v: (c if c > 1 else 2) for v, c in cards.items()}
        n += 1
        if n > 24:
            return
        yield {"fmt": "uai", "spec": build_mn_spec(rng, names, edges, cards, structure, k), "io": ["string"]}


def make_mn(spec):
    from pgmpy.factors.discrete import DiscreteFactor
    from pgmpy.models import MarkovNetwork

    m = MarkovNetwork()
    m.add_nodes_from(spec["nodes"])
    m.add_edges_from([tuple(e) for e in spec["edges"]])
    m.add_factors(*[DiscreteFactor(f["scope"], [spec["cards"][v] for v in f["scope"]], list(f["values"])) for f in spec["factors"]])
    return m


def _factor_table(scope, cards, flat):
    """canonical {frozenset((var, state index))...: value} of a C-ordered flat table."""
    out = {}
    for idx, val in zip(itertools.product(*[range(cards[v]) for v in scope]), flat):
        out[frozenset(zip(scope, idx))] = float(val)
    return out


def compare_mn(spec, got, tol=1e-12):
    vm = uai_index(spec["cards"])
    cards = {vm[v]: c for v, c in spec["cards"].items()}
    want_nodes = set(cards)
    if set(got.nodes()) != want_nodes:
        return [("uai:markov:variables", f"variables read back {sorted(got.nodes())}, expected {sorted(want_nodes)}")]
    we = {frozenset((vm[u], vm[v])) for u, v in spec["edges"]}
    ge = {frozenset(e) for e in got.edges()}
    out = []
    if we != ge:
        out.append(("uai:markov:edges", f"edges read back {sorted(map(sorted, ge))}, expected {sorted(map(sorted, we))}"))
    want = [_factor_table([vm[v] for v in f["scope"]], cards, f["values"]) for f in spec["factors"]]
    have = []
    for f in got.get_factors():
        sc = list(f.variables)
        if [int(x) for x in f.cardinality] != [cards.get(v) for v in sc]:
            out.append(("uai:markov:cardinality", f"factor over {sc}: cardinality {list(f.cardinality)}, expected {[cards.get(v) for v in sc]}"))
            return out
        have.append(_factor_table(sc, cards, [float(x) for x in f.values.ravel()]))
    if len(have) != len(want):
        out.append(("uai:markov:factor-count", f"{len(have)} factors read back, {len(want)} written"))
        return out
    rest = list(have)
    for i, w in enumerate(want):
        hit = next((h for h in rest if h.keys() == w.keys() and all(abs(h[a] - w[a]) <= tol for a in w)), None)
        if hit is None:
            out.append(("uai:markov:factor-values", f"factor #{i} over {spec['factors'][i]['scope']} (as {[vm[v] for v in spec['factors'][i]['scope']]}): "
                        "no factor read back has the same value for every assignment"))
            break
        rest.remove(hit)
    return out


def roundtrip_mn(spec, io, guard=None, strict_order=False):
    R, W, wm = rw("uai")
    model = make_mn(spec)
    model.check_model()
    before = snapshot_mn(model)
    text = str(W(model))
    pf = purity_failure(before, snapshot_mn(model), "UAIWriter", strict_order)
    if pf:
        return {"key": pf[0], "what": pf[1]}

    def one(**kw):
        try:
            got, exc = R(**kw).get_model(), None
        except Exception as e:
            if guard is None:
                raise
            got, exc = None, e
        fails = compare_mn(spec, got) if exc is None else []
        if guard is not None:
            return guard(exc, fails)
        return first_failure(fails)

    if "string" in io:
        f = one(string=text)
        if f:
            return f
    if "file" in io:
        with tempfile.TemporaryDirectory(prefix="c09_") as d:
            p = os.path.join(d, "mn.uai")
            getattr(W(model), wm)(p)
            if open(p).read() != text:
                return {"key": "UAIWriter:file-differs-from-str", "what": "write_uai wrote a text different from str(writer)"}
            f = one(path=p)
            if f:
                f["what"] = "[file] " + f["what"]
                return f
    return None


def check_uai_mn(case):
    return roundtrip_mn(case["spec"], case["io"])


def check_uai_mn_isolated(case):
    def guard(exc, fails):
        if exc is not None and not (isinstance(exc, ValueError) and "not in the model" in str(exc)):
            raise exc
        if exc is None and not fails:
            return None
        what = f"{type(exc).__name__}: {exc.args[0] if exc.args else exc}" if exc is not None else fails[0][1]
        return {"key": "UAIReader:markov-isolated-node", "what": "valid Markov network with an isolated node (unary factor only): UAIReader builds the graph from "
                f"factor edges only and then rejects the unary factor: {what}"}

    return roundtrip_mn(case["spec"], case["io"], guard)


# ----------------------------------------------------------------------------- purity incl. order of model.cpds (DESIGN #12)
def gen_purity(tier, seed):
    rng = O.mk_rng(seed, "c09", "purity")
    shapes = [(["Zed", "alpha", "mid"], [["Zed", "alpha"], ["mid", "alpha"]], (2, 2, 3)),
              (["b", "a"], [["b", "a"]], (3, 2)),
              (["q", "p", "r"], [["p", "q"], ["q", "r"]], (2, 3, 2))]
    for i, (names, edges, cv) in enumerate(shapes):
        for fmt in ("bif", "xmlbif", "uai", "net"):
            spec = build_spec(rng, names, edges, dict(zip(names, cv)), "plain", "own", order_choice=3, node_rot=0)
            spec["nodes"] = sorted(names, reverse=True)          # CPDs are added in this (non-sorted) order
            if fmt == "bif" and i > 0:
                continue
            yield {"fmt": fmt, "kind": "bn", "spec": spec}
    names = ["y", "x", "z"]
    yield {"fmt": "uai", "kind": "mn", "spec": build_mn_spec(rng, names, [["x", "y"], ["y", "z"]], dict(zip(names, (3, 2, 2))), "edge", 1)}


def check_purity(case):
    fmt = case["fmt"]
    R, W, wm = rw(fmt)
    if case["kind"] == "mn":
        model, snap = make_mn(case["spec"]), snapshot_mn
    else:
        model, snap = O.make_bn(case["spec"]), snapshot_bn
    before = snap(model)
    w = W(model)
    pf = purity_failure(before, snap(model), WNAME[fmt], True)
    if pf:
        return {"key": pf[0], "what": "after constructing the writer: " + pf[1]}
    s1 = str(w)
    pf = purity_failure(before, snap(model), WNAME[fmt], True)
    if pf:
        return {"key": pf[0], "what": "after str(writer): " + pf[1]}
    s2 = str(w)
    if s1 != s2:
        return {"key": f"{WNAME[fmt]}:str-not-idempotent", "what": f"str(writer) called twice on one writer gives different texts (lengths {len(s1)} and {len(s2)}); "
                "write_* after str() would write the second one"}
    with tempfile.TemporaryDirectory(prefix="c09_") as d:
        getattr(W(model), wm)(os.path.join(d, "f"))
    pf = purity_failure(before, snap(model), WNAME[fmt], True)
    if pf:
        return {"key": pf[0], "what": f"after {wm}: " + pf[1]}
    return None


# ----------------------------------------------------------------------------- hand-written files -> reader
HAND_SPEC = {
    "nodes": ["a", "b", "c", "d"], "edges": [["a", "c"], ["b", "c"], ["a", "d"]],
    "states": {"a": ["a0", "a1"], "b": ["b0", "b1", "b2"], "c": ["c0", "c1"], "d": ["d0", "d1", "d2"]},
    "cpd": {"a": {"parents": [], "table": [[0.2], [0.8]]}, "b": {"parents": [], "table": [[0.25], [0.35], [0.4]]},
            "c": {"parents": ["b", "a"], "table": [[0.1, 0.2, 0.3, 0.4, 0.55, 0.6], [0.9, 0.8, 0.7, 0.6, 0.45, 0.4]]},
            "d": {"parents": ["a"], "table": [[0.11, 0.21], [0.12, 0.22], [0.77, 0.57]]}},
}
HAND = {
    "bif": """network hand {
}
variable a {
  type discrete [ 2 ] { a0, a1 };
}
variable b {
  type discrete [ 3 ] { b0, b1, b2 };
}
variable c {
  type discrete [ 2 ] { c0, c1 };
}
variable d {
  type discrete [ 3 ] { d0, d1, d2 };
}
probability ( a ) {
  table 0.2, 0.8;
}
probability ( b ) {
  table 0.25, 0.35, 0.4;
}
probability ( c | b, a ) {
  (b1, a1) 0.4, 0.6;
  (b0, a0) 0.1, 0.9;
  (b2, a0) 0.55, 0.45;
  (b0, a1) 0.2, 0.8;
  (b2, a1) 0.6, 0.4;
  (b1, a0) 0.3, 0.7;
}
probability ( d | a ) {
  table 0.11, 0.21, 0.12, 0.22, 0.77, 0.57;
}
""",
    "xmlbif": """<?xml version="1.0"?>
<BIF VERSION="0.3">
<NETWORK>
<NAME>hand</NAME>
<VARIABLE TYPE="nature"><NAME>a</NAME><OUTCOME>a0</OUTCOME><OUTCOME>a1</OUTCOME></VARIABLE>
<VARIABLE TYPE="nature"><NAME>b</NAME><OUTCOME>b0</OUTCOME><OUTCOME>b1</OUTCOME><OUTCOME>b2</OUTCOME></VARIABLE>
<VARIABLE TYPE="nature"><NAME>c</NAME><OUTCOME>c0</OUTCOME><OUTCOME>c1</OUTCOME></VARIABLE>
<VARIABLE TYPE="nature"><NAME>d</NAME><OUTCOME>d0</OUTCOME><OUTCOME>d1</OUTCOME><OUTCOME>d2</OUTCOME></VARIABLE>
<DEFINITION><FOR>a</FOR><TABLE>0.2 0.8</TABLE></DEFINITION>
<DEFINITION><FOR>b</FOR><TABLE>0.25 0.35 0.4</TABLE></DEFINITION>
<DEFINITION><FOR>c</FOR><GIVEN>b</GIVEN><GIVEN>a</GIVEN>
<TABLE>0.1 0.9  0.2 0.8  0.3 0.7  0.4 0.6  0.55 0.45  0.6 0.4</TABLE></DEFINITION>
<DEFINITION><FOR>d</FOR><GIVEN>a</GIVEN><TABLE>0.11 0.12 0.77 0.21 0.22 0.57</TABLE></DEFINITION>
</NETWORK>
</BIF>
""",
    "net": """net
{
}
node a
{
  states = ("a0" "a1");
}
node b
{
  states = ("b0" "b1" "b2");
}
node c
{
  states = ("c0" "c1");
}
node d
{
  states = ("d0" "d1" "d2");
}
potential (a)
{
  data = (0.2 0.8);
}
potential (b)
{
  data = (0.25 0.35 0.4);
}
potential (c | b a)
{
  data = (((0.1 0.9) (0.2 0.8)) ((0.3 0.7) (0.4 0.6)) ((0.55 0.45) (0.6 0.4)));
}
potential (d | a)
{
  data = ((0.11 0.12 0.77) (0.21 0.22 0.57));
}
""",
}
HAND_UAI_MARKOV = """MARKOV
3
2 2 3
3
1 0
2 0 1
2 1 2

2
 0.436 0.564

4
 0.128 0.872
 0.920 0.080

6
 0.210 0.333 0.457
 0.811 0.000 0.189
"""
HAND_UAI_MARKOV_SPEC = {
    "nodes": ["v0", "v1", "v2"], "edges": [["v0", "v1"], ["v1", "v2"]], "cards": {"v0": 2, "v1": 2, "v2": 3},
    "factors": [{"scope": ["v0"], "values": [0.436, 0.564]}, {"scope": ["v0", "v1"], "values": [0.128, 0.872, 0.920, 0.080]},
                {"scope": ["v1", "v2"], "values": [0.210, 0.333, 0.457, 0.811, 0.000, 0.189]}],
}


def gen_hand(tier, seed):
    for fmt in ("bif", "xmlbif", "net"):
        yield {"fmt": fmt, "kind": "bn"}
    yield {"fmt": "uai", "kind": "mn"}


def check_hand(case):
    fmt = case["fmt"]
    R, W, wm = rw(fmt)
    if case["kind"] == "mn":
        fails = compare_mn(HAND_UAI_MARKOV_SPEC, R(string=HAND_UAI_MARKOV).get_model())
    else:
        kw = {"n_jobs": 1} if fmt == "bif" else {}
        fails = compare_bn(HAND_SPEC, R(string=HAND[fmt], **kw).get_model(), fmt, 1e-12)
    if fails:
        return {"key": f"{RNAME[fmt]}:hand-written:{fails[0][0]}", "what": f"hand-written {fmt} file: " + fails[0][1]}
    return None


# ----------------------------------------------------------------------------- writer text -> independent mini parsers
def parse_xmlbif(text):
    """XMLBIF 0.3: TABLE lists the FOR variable fastest, then the GIVENs from last to first."""
    import xml.etree.ElementTree as ET

    net = ET.fromstring(text.encode("utf-8")).find("NETWORK")
    states = {v.find("NAME").text: [o.text for o in v.findall("OUTCOME")] for v in net.findall("VARIABLE")}
    cpd = {}
    for d in net.findall("DEFINITION"):
        v = d.find("FOR").text
        cpd[v] = ([g.text for g in d.findall("GIVEN")], [float(x) for x in d.find("TABLE").text.split()], "child-fastest")
    return states, cpd


def parse_net(text):
    """Hugin NET: data lists the node itself fastest, parents in the listed order, first parent slowest."""
    states = {m.group(1): re.findall(r'"([^"]*)"', m.group(2)) for m in re.finditer(r"node\s+(\S+?)\s*\{\s*states\s*=\s*\(([^)]*)\)", text)}
    cpd = {}
    for m in re.finditer(r"potential\s*\(\s*(\S+)\s*\|?([^)]*)\)\s*\{\s*data\s*=\s*([^;]*);", text):
        cpd[m.group(1)] = (m.group(2).split(), [float(x) for x in re.sub(r"[()]", " ", m.group(3)).split()], "child-fastest")
    return states, cpd


def parse_bif(text):
    """BIF 0.15: rows '(parent states) p(child states)'; 'table' lists the child slowest."""
    states = {m.group(1): [s.strip() for s in m.group(2).split(",")] for m in
              re.finditer(r"variable\s+(\S+)\s*\{\s*type\s+discrete\s*\[\s*\d+\s*\]\s*\{([^}]*)\}", text)}
    cpd = {}
    for m in re.finditer(r"probability\s*\(\s*([^|)\s]+)\s*\|?([^)]*)\)\s*\{(.*?)\n\}", text, re.S):
        v, ps, body = m.group(1), [p.strip() for p in m.group(2).split(",") if p.strip()], m.group(3)
        t = re.search(r"table\s+([^;]*);", body)
        if t and not ps:
            cpd[v] = (ps, [float(x) for x in t.group(1).replace(",", " ").split()], "child-slowest")
        else:
            rows = {}
            for r in re.finditer(r"\(([^)]*)\)\s*([^;]*);", body):
                rows[tuple(s.strip() for s in r.group(1).split(","))] = [float(x) for x in r.group(2).replace(",", " ").split()]
            cpd[v] = (ps, rows, "rows")
    return states, cpd


def gen_writer_text(tier, seed):
    for fmt, per in (("xmlbif", 4), ("net", 4), ("bif", 3)):
        pool = PLAIN + [n for n in ADVERSARIAL + EXTRA_KW if fmt != "bif" or not bif_breaking(n)]
        rng = O.mk_rng(seed, "c09", "wtext", fmt)
        for names, edges, cards, k in base_params(tier, seed, "wtext" + fmt, per, pool, max_n=3 if tier == "quick" else 4):
            yield {"fmt": fmt, "spec": build_spec(rng, names, edges, cards, ("plain", "tiny")[k % 2], ("own", "shared")[k % 2], order_choice=k, node_rot=k)}


def check_writer_text(case):
    fmt, spec = case["fmt"], case["spec"]
    R, W, wm = rw(fmt)
    text = str(W(O.make_bn(spec)))
    states, cpd = {"xmlbif": parse_xmlbif, "net": parse_net, "bif": parse_bif}[fmt](text)
    Wn, tol = WNAME[fmt], TOL[fmt]
    if {k: list(v) for k, v in states.items()} != {k: [str(s) for s in v] for k, v in spec["states"].items()}:
        return {"key": f"{Wn}:text:states", "what": f"variables/states in the written text {states}, expected {spec['states']}"}
    if set(cpd) != set(spec["nodes"]):
        return {"key": f"{Wn}:text:definitions", "what": f"tables written for {sorted(cpd)}, expected {sorted(spec['nodes'])}"}
    for v in spec["nodes"]:
        ps, data, layout = cpd[v]
        if sorted(ps) != sorted(spec["cpd"][v]["parents"]):
            return {"key": f"{Wn}:text:parents", "what": f"{v}: parents written {ps}, model has {spec['cpd'][v]['parents']}"}
        for a in O.all_assignments(spec, [v] + ps):
            want = float(O.cpd_value(spec, v, a))
            if layout == "rows":
                row = data.get(tuple(a[p] for p in ps))
                got = None if row is None or len(row) != len(spec["states"][v]) else row[spec["states"][v].index(a[v])]
            else:
                order = ps + [v] if layout == "child-fastest" else [v] + ps
                j = 0
                for x in order:
                    j = j * len(spec["states"][x]) + spec["states"][x].index(a[x])
                total = 1
                for x in order:
                    total *= len(spec["states"][x])
                got = data[j] if len(data) == total else None
            if got is None or not abs(got - want) <= tol:
                return {"key": f"{Wn}:text:table-layout", "what": f"{v} | {ps} at {a}: the written text (read per the {fmt} format definition) says {got!r}, model says {want!r}"}
    return None


# ----------------------------------------------------------------------------- groups
def groups(tier):
    q = tier == "quick"
    all_names = PLAIN + ADVERSARIAL + EXTRA_KW
    bif_pool = [n for n in all_names if not bif_breaking(n)]
    sizes = "all DAGs <= 3 nodes" if q else "all DAGs <= 4 nodes"
    common = ("cardinalities 1..3 (4 nodes: 1..4) all different where possible, rotating with seed; CPD evidence order a non-sorted permutation "
              "(edges inserted in sorted order), CPDs added in non-sorted order; state names own/shared/keyword-like strings; entries from "
              "{0,1,0.1,1/3,1e-4,0.999} + random full-precision floats; post: variables, edges, state names, every named assignment of every CPD, "
              "model unchanged up to the order of model.cpds (order: group purity)")
    return [
        Group("hand_written", gen_hand, check_hand, lambda c: True, engine="E3",
              bound="one hand-written file per reader (BIF rows in shuffled order + table form, XMLBIF, NET, UAI MARKOV example of the format page); 2 parents of cards 3,2"),
        Group("writer_text", gen_writer_text, check_writer_text, nontrivial, engine="E3",
              bound=f"writer text parsed by independent mini parsers (XMLBIF child-fastest, NET parents-slowest, BIF rows): {sizes} x 3-4 card vectors, plain+tiny entries"),
        Group("xmlbif", _gen_format("xmlbif", 12, all_names, ["plain", "tiny"]), check_roundtrip, nontrivial, seed_fanout=2, engine="E3",
              bound=f"XMLBIF string/file/save-load: {sizes} x 12 (4 nodes: 4) variants; all adversarial names; plain and tiny (1e-12, 1e-5, 0.999999) entries; exact (1e-12); {common}"),
        Group("net", _gen_format("net", 12, all_names, ["plain", "tiny"]), check_roundtrip, nontrivial, seed_fanout=2, engine="E3",
              bound=f"NET string/file: {sizes} x 12 (4 nodes: 4) variants; all adversarial names; plain and tiny entries; tolerance 5e-5; {common}"),
        Group("uai_bn", _gen_format("uai", 12, all_names, ["plain"], uai_safe=True, per_dag_thorough=6), check_roundtrip_uai_main, nontrivial, seed_fanout=8, engine="E3",
              bound=f"UAI BAYES string (all) + file/save-load (1/4) under 8 hash seeds: {sizes} x 12 (thorough 6; 4 nodes 2) variants; positional names var_i by (card, name); no entry that prints with an exponent "
                    "(group uai_exponent), no one-entry table (a root of cardinality 1 is given cardinality 4; group uai_single_value); CPDs with >= 2 parents: scope set, "
                    f"cardinalities and the flat value sequence are checked, the parent ORDER only in group uai_bn_multiparent; {common}"),
        Group("uai_bn_multiparent", gen_uai_multiparent, check_roundtrip, nontrivial, seed_fanout=8, engine="E3",
              bound="UAI BAYES, strict named-assignment check, the first 36 models <= 3 nodes with a CPD of >= 2 parents, 8 hash seeds (DESIGN #13)"),
        Group("uai_exponent", gen_uai_exponent, check_uai_exponent, nontrivial, seed_fanout=2, engine="E3",
              bound="UAI BAYES, <= 24 models <= 3 nodes, <= 1 parent, entries 1e-12/1e-5/1-0.999999 (str(float) uses an exponent), incl. as last token of the file"),
        Group("uai_single_value", gen_uai_single_value, check_uai_single_value, lambda c: True, seed_fanout=2, engine="E3",
              bound="UAI BAYES, <= 20 models <= 3 nodes containing a table with exactly one entry (root of cardinality 1)"),
        Group("uai_mn", gen_uai_mn, check_uai_mn, nontrivial, seed_fanout=8, engine="E3",
              bound="UAI MARKOV string/file under 8 hash seeds: all graphs <= 3 (thorough 4) nodes without isolated nodes x 12 (4 nodes: 3) variants: cards 1..3(4), one factor per edge or "
                    "per maximal clique + unary factors (not on cardinality-1 variables), rotated/reversed scope orders, values {0,1,2.5,0.1,1/3} + random; every edge is covered "
                    "by a factor (UAI cannot express an edge without one); factors compared as a multiset on every assignment"),
        Group("uai_mn_isolated", gen_uai_mn_isolated, check_uai_mn_isolated, lambda c: True, seed_fanout=2, engine="E3",
              bound="UAI MARKOV, <= 24 graphs <= 3 nodes with an isolated node that has a unary factor"),
        Group("large_table", gen_large, check_large, nontrivial, engine="E3",
              bound="per format one CPD with 1008 (7x8x9x2) and one with 1080 (9x8x15) entries (thorough: + 2048, 1078, 1080); UAI: one parent (9) x 120/135 states"),
        Group("purity", gen_purity, check_purity, lambda c: True, engine="E3",
              bound="3 models x 4 writers (BIF 1) + 1 Markov network: deep snapshot incl. ORDER of model.cpds after constructor, str() and write_*; str() twice"),
        Group("bif", _gen_format("bif", 2, bif_pool, ["plain", "tiny", "plain"]), check_roundtrip, nontrivial, engine="E3",
              bound=f"BIF string (all), save/load (1/3) and write_bif/path (1/10), n_jobs=1: {sizes} x 2 (4 nodes: 1) variants (BIFReader costs ~2 s per call); names from the pool without "
                    f"the substrings 'variable'/'probability' (those: group bif_names); plain and tiny entries; exact (1e-12); {common}"),
        Group("bif_names", gen_bif_names, check_bif_names, nontrivial, engine="E3",
              bound="BIF: every name of the adversarial list + 8 more as the middle variable of a 3-chain and as child of a collider; keyword-like state names; "
                    "key carries the contained BIF keyword"),
        Group("bif_njobs", gen_bif_njobs, check_roundtrip, nontrivial, engine="E3",
              bound="BIFReader n_jobs=2 (string, load) and load() with its default n_jobs=-1 on a 4-node model with a 3-parent CPD (thorough: + n_jobs 3, -1)"),
    ]
