"""C04 bounded groups (E3): the real DiscreteFactor algebra vs. the textbook pointwise definition.

Oracle = *named-assignment view*: a factor is a map  frozenset({(var, state), ...}) -> Fraction, computed from
the definition with itertools/Fractions only (never through pgmpy).  The real code runs on float tables whose
entries are small dyadic rationals (k/8), so products / sums / maxima / slices are exact in float arithmetic and
are compared with 1e-12; normalize / divide are compared with 1e-9 relative.

A case fixes the variables (names, cardinalities, state lists), the operand scopes and the tables *by name*;
the check sweeps every axis order of every operand, every operation, in-place and out-of-place, and the
frame conditions (operands untouched, results not aliased with operands).
"""
from __future__ import annotations

import itertools
import warnings
from fractions import Fraction

from vf.core import Group
from vf.bounded import oracles as O

NAMES = ["rain", "x10", "x2", "Wet_Grass"]
LABELINGS = ("default", "str", "tuple", "perm", "mix", "default+named")
INF = "inf"


# ----------------------------------------------------------------------------- spec side (no pgmpy)
def _states(var, card, style):
    if style in ("default", "int"):
        return list(range(card))
    if style == "str":
        return [f"{var}_s{k}" for k in range(card)]
    if style == "tuple":
        return [[var[:1], k] for k in range(card)]  # JSON list, turned into a tuple by _decode_states
    if style == "perm":
        return [(k + 1) % card for k in range(card)] if card > 1 else [0]
    raise ValueError(style)


def _var_styles(variables, labeling, shift=0):
    if labeling in ("default", "str", "tuple", "perm"):
        return {v: labeling for v in variables}
    if labeling == "mix":
        cyc = ("str", "perm", "tuple", "int")
        return {v: cyc[(i + shift) % 4] for i, v in enumerate(variables)}
    if labeling == "default+named":
        return {v: "int" for v in variables}
    raise ValueError(labeling)


def _decode_states(case):
    out = {}
    for v, d in case["vars"].items():
        out[v] = [tuple(s) if isinstance(s, list) else s for s in d["states"]]
    return out


def _fr(x):
    return x if x == INF else Fraction(x)


class OF:
    """oracle factor: scope (tuple, canonical order is irrelevant) and tab: named assignment -> Fraction | 'inf'."""

    def __init__(self, scope, tab):
        self.scope = tuple(scope)
        self.tab = tab


def assignments(scope, states):
    scope = list(scope)
    for combo in itertools.product(*[states[v] for v in scope]):
        yield frozenset(zip(scope, combo))


def restrict(a, scope):
    scope = set(scope)
    return frozenset(p for p in a if p[0] in scope)


def of_from_flat(scope, states, flat):
    keys = list(assignments(scope, states))
    assert len(keys) == len(flat)
    return OF(scope, {k: _fr(x) for k, x in zip(keys, flat)})


def s_pointwise(F, G, states, fn):
    scope = list(F.scope) + [v for v in G.scope if v not in F.scope]
    return OF(scope, {a: fn(F.tab[restrict(a, F.scope)], G.tab[restrict(a, G.scope)]) for a in assignments(scope, states)})


def _div(a, b):
    if b == 0:
        return Fraction(0) if a == 0 else INF
    return a / b


def s_product(F, G, states):
    return s_pointwise(F, G, states, lambda a, b: a * b)


def s_sum(F, G, states):
    return s_pointwise(F, G, states, lambda a, b: a + b)


def s_divide(F, G, states):
    assert set(G.scope) <= set(F.scope)
    return s_pointwise(F, G, states, _div)


def s_eliminate(F, V, states, fn):
    rest = [v for v in F.scope if v not in V]
    V = [v for v in F.scope if v in V]
    return OF(rest, {a: fn([F.tab[a | b] for b in assignments(V, states)]) for a in assignments(rest, states)})


def s_marg(F, V, states):
    return s_eliminate(F, V, states, lambda xs: sum(xs, Fraction(0)))


def s_max(F, V, states):
    return s_eliminate(F, V, states, max)


def s_reduce(F, ev, states):
    rest = [v for v in F.scope if v not in ev]
    fixed = frozenset(ev.items())
    return OF(rest, {a: F.tab[a | fixed] for a in assignments(rest, states)})


def s_normalize(F):
    z = sum(F.tab.values(), Fraction(0))
    return OF(F.scope, {a: x / z for a, x in F.tab.items()})


def s_map(F, fn):
    return OF(F.scope, {a: fn(x) for a, x in F.tab.items()})


# ----------------------------------------------------------------------------- real side helpers
def build(F, order, states, named=True, cls=None, state_lists=None):
    """DiscreteFactor with axes in `order` holding the oracle factor F (values by name)."""
    from pgmpy.factors.discrete import DiscreteFactor

    sl = state_lists or states
    order = list(order)
    card = [len(sl[v]) for v in order]
    flat = []
    for combo in itertools.product(*[sl[v] for v in order]):
        x = F.tab[frozenset(zip(order, combo))]
        flat.append(float("inf") if x == INF else float(x))
    if named:
        return DiscreteFactor(order, card, flat, state_names={v: list(sl[v]) for v in order})
    return DiscreteFactor(order, card, flat)


def snap(phi):
    import numpy as np

    return (list(phi.variables), np.array(phi.cardinality).tolist(), np.array(phi.values, copy=True),
            {v: list(s) for v, s in phi.state_names.items()},
            {v: dict(d) for v, d in phi.name_to_no.items()},
            {v: dict(d) for v, d in phi.no_to_name.items()})


def same_snap(a, b):
    import numpy as np

    return (a[0] == b[0] and a[1] == b[1] and a[2].shape == b[2].shape and bool(np.array_equal(a[2], b[2]))
            and a[3] == b[3] and a[4] == b[4] and a[5] == b[5])


def scribble(r):
    """mutate a result through its public attributes / in-place API; operands must not notice."""
    import numpy as np

    if isinstance(r.values, np.ndarray):
        r.values[...] = -7.0
    if isinstance(r.cardinality, np.ndarray) and r.cardinality.size:
        r.cardinality[...] = 99
    if r.variables:
        v = r.variables[0]
        if v in r.state_names:
            r.del_state_names([v])
    r.variables.reverse()
    r.variables.append("__scribble__")
    r.state_names["__scribble__"] = ["q"]
    r.name_to_no["__scribble__"] = {"q": 0}
    r.no_to_name["__scribble__"] = {0: "q"}


def close(got, want, tol):
    if want == INF:
        return got == float("inf")
    w = float(want)
    return abs(got - w) <= tol * max(1.0, abs(w))


def diff(phi, E, states, tol=1e-12):
    """None if the real factor `phi` has exactly the view E (scope set, cards, state names, values by name)."""
    import numpy as np

    vs = list(phi.variables)
    if len(set(vs)) != len(vs) or set(vs) != set(E.scope):
        return "scope", f"scope {vs} != expected {sorted(E.scope)}"
    want_card = [len(states[v]) for v in vs]
    vals = np.asarray(phi.values)
    if np.array(phi.cardinality).tolist() != want_card or list(vals.shape) != want_card:
        return "cardinality", f"variables {vs}: cardinality {np.array(phi.cardinality).tolist()} values.shape {vals.shape} expected {want_card}"
    if set(phi.state_names) != set(vs) or set(phi.name_to_no) != set(vs) or set(phi.no_to_name) != set(vs):
        return "state_names", f"state-name maps keyed by {sorted(map(str, phi.state_names))}/{sorted(map(str, phi.name_to_no))} for scope {vs}"
    for v in vs:
        if list(phi.state_names[v]) != states[v]:
            return "state_names", f"state_names[{v}]={phi.state_names[v]} expected {states[v]}"
        if phi.name_to_no[v] != {s: i for i, s in enumerate(states[v])} or phi.no_to_name[v] != {i: s for i, s in enumerate(states[v])}:
            return "state_names", f"name<->number maps of {v} inconsistent with {states[v]}: {phi.name_to_no[v]} {phi.no_to_name[v]}"
    for idx in itertools.product(*[range(n) for n in want_card]):
        a = frozenset((v, states[v][i]) for v, i in zip(vs, idx))
        got = float(vals[idx])
        if not close(got, E.tab[a], tol):
            return "values", f"at {sorted(a, key=repr)} got {got!r} expected {E.tab[a]} (axes {vs})"
    return None


def fail(op, d, ctx):
    return {"key": f"{op}:{d[0]}", "what": f"{op} {ctx}: {d[1]}"}


def _subsets(xs):
    xs = list(xs)
    for r in range(len(xs) + 1):
        for c in itertools.combinations(xs, r):
            yield list(c)


def _quiet():
    import numpy as np

    warnings.simplefilter("ignore")
    np.seterr(all="ignore")
    import logging

    logging.getLogger("pgmpy").setLevel(logging.ERROR)


# ----------------------------------------------------------------------------- generators
def _rand_flat(rng, n, pzero, hi=8):
    while True:
        xs = [0 if rng.random() < pzero else rng.randint(1, hi) for _ in range(n)]
        if n <= 1 or len(set(xs)) > 1 or n == 0:
            return [f"{x}/8" for x in xs]


def _size(scope, cards):
    n = 1
    for v in scope:
        n *= cards[v]
    return n


def _mk_vars(variables, cards, labeling, shift):
    st = _var_styles(variables, labeling, shift)
    return {v: {"card": cards[v], "style": st[v], "states": _states(v, cards[v], st[v])} for v in variables}


CARD_ROT = [(2, 3, 1, 2), (3, 1, 2, 3), (1, 2, 3, 2), (3, 2, 2, 1)]


def _card_choices(tier, n, salt):
    if tier == "quick":
        return [CARD_ROT[(salt + j) % 4][:n] for j in range(3)]
    out = list(itertools.product((1, 2, 3), repeat=n))
    if n == 4:  # 81 assignments: keep those with at least two different cardinalities, every 2nd of the rest
        out = [c for i, c in enumerate(out) if len(set(c)) >= 3 or i % 2 == 0]
    return out


def gen_binary(tier, seed):
    rng = O.mk_rng(seed, "c04-binary")
    pidx = 0
    for rf in range(4):
        for rg in range(4):
            for k in range(max(0, rf + rg - 4), min(rf, rg) + 1):
                n = rf + rg - k
                names = NAMES[pidx % 4:] + NAMES[:pidx % 4]
                shared, fo, go = names[:k], names[k:rf], names[rf:n]
                union = names[:n]
                labs = LABELINGS
                for ci, cs in enumerate(_card_choices(tier, n, pidx)):
                    cards = dict(zip(union, cs))
                    for lab in labs:
                        fs, gs = shared + fo, go + shared[::-1]
                        case = {"vars": _mk_vars(union, cards, lab, pidx), "labeling": lab, "f": fs, "g": gs,
                                "fv": _rand_flat(rng, _size(fs, cards), 0.2), "gv": _rand_flat(rng, _size(gs, cards), 0.3)}
                        yield case
                        if (pidx + ci) % 3 == 0 and lab == labs[0]:
                            # same tables at magnitude 2^-40 (~1e-12): quotients are of ordinary size although numerator and denominator are
                            # far below any absolute closeness tolerance; only exact zeros may be treated as zero
                            tiny = lambda xs: [f"{x.split('/')[0]}/{8 * 2 ** 40}" for x in xs]  # noqa
                            yield dict(case, fv=tiny(case["fv"]), gv=tiny(case["gv"]))
                pidx += 1


def gen_unary(tier, seed):
    rng = O.mk_rng(seed, "c04-unary")
    idx = 0
    for r in range(5 if tier != "quick" else 4):
        choices = list(itertools.product((1, 2, 3), repeat=r))
        if tier == "quick" and r == 3:
            choices = [c for c in choices if len(set(c)) == 3] + [(2, 2, 2), (1, 1, 3), (3, 3, 2)]
        if r == 4:
            choices = [c for c in choices if len(set(c)) == 3][::3]
        for cs in choices:
            for lab in LABELINGS[:5]:
                names = NAMES[idx % 4:] + NAMES[:idx % 4]
                scope = names[:r]
                cards = dict(zip(scope, cs))
                idx += 1
                case = {"vars": _mk_vars(scope, cards, lab, idx), "labeling": lab, "f": scope,
                        "fv": _rand_flat(rng, _size(scope, cards), 0.2)}
                yield case
                if idx % 4 == 0 and lab == LABELINGS[0]:
                    # the same table rescaled to a total just below 1 (1 - 2^-14): "almost normalised" input must still be normalised exactly
                    xs = [int(x.split("/")[0]) for x in case["fv"]]
                    tot = sum(xs)
                    if tot:
                        yield dict(case, fv=[f"{x * 16383}/{tot * 16384}" for x in xs])


def gen_nary(tier, seed):
    rng = O.mk_rng(seed, "c04-nary")
    for i in range(48 if tier == "quick" else 600):
        names = NAMES[:]
        rng.shuffle(names)
        cs = list(CARD_ROT[i % 4])
        if i % 3 == 0:
            cs = [rng.choice((1, 2, 3)) for _ in range(4)]
        cards = dict(zip(names, cs))
        scopes = []
        for j in range(3):
            r = rng.choice((0, 1, 2, 2, 3)) if j else rng.choice((1, 2, 3))
            scopes.append(rng.sample(names, r))
        union = [v for v in names if any(v in s for s in scopes)]
        lab = LABELINGS[i % 5]
        orders = []
        for _ in range(3):
            orders.append([rng.sample(s, len(s)) for s in scopes])
        outs = [rng.sample(o, len(o)) for o in _subsets(union)]
        yield {"vars": _mk_vars(union, cards, lab, i), "labeling": lab, "scopes": scopes, "orders": orders, "outs": outs,
               "vals": [_rand_flat(rng, _size(s, cards), 0.15, hi=4) for s in scopes]}


# ----------------------------------------------------------------------------- checks
def _frame(op, ctx, before, operands):
    for nm, phi in operands.items():
        if not same_snap(before[nm], snap(phi)):
            return {"key": f"{op}:operand-mutated", "what": f"{op} {ctx}: operand {nm} changed; before {before[nm][:2]} {before[nm][2].tolist()} "
                    f"{before[nm][3]} after {phi.variables} {phi.cardinality} {getattr(phi.values, 'tolist', lambda: phi.values)()} {phi.state_names}"}
    return None


def check_binary(case):
    _quiet()
    states = _decode_states(case)
    F = of_from_flat(case["f"], states, case["fv"])
    G = of_from_flat(case["g"], states, case["gv"])
    lab = case["labeling"]
    f_named = lab not in ("default", "default+named")
    g_named = lab != "default"
    P, S = s_product(F, G, states), s_sum(F, G, states)
    D_fg = s_divide(F, G, states) if set(G.scope) <= set(F.scope) else None
    D_gf = s_divide(G, F, states) if set(F.scope) <= set(G.scope) else None
    from pgmpy.factors.base import factor_divide, factor_product

    pending = None
    for pf in itertools.permutations(case["f"]):
        for pg in itertools.permutations(case["g"]):
            ctx = f"f{list(pf)} g{list(pg)} labeling={lab}"

            def mk():
                return build(F, pf, states, f_named), build(G, pg, states, g_named)

            f, g = mk()
            before = {"f": snap(f), "g": snap(g)}
            res = []
            table = [("product", lambda: f.product(g, inplace=False), P, 1e-12), ("product", lambda: g.product(f, inplace=False), P, 1e-12),
                     ("__mul__", lambda: f * g, P, 1e-12), ("__mul__", lambda: g * f, P, 1e-12),
                     ("factor_product", lambda: factor_product(f, g), P, 1e-12),
                     ("sum", lambda: f.sum(g, inplace=False), S, 1e-12), ("sum", lambda: g.sum(f, inplace=False), S, 1e-12),
                     ("__add__", lambda: f + g, S, 1e-12), ("__add__", lambda: g + f, S, 1e-12)]
            div_ok = True
            if not case["f"] and not case["g"]:
                # both operands have an empty scope (e.g. after eliminating every variable)
                try:
                    build(F, pf, states, f_named).divide(build(G, pg, states, g_named), inplace=False)
                except TypeError as e:
                    div_ok = False
                    pending = {"key": "divide:empty-scope:raised-TypeError", "what": f"divide {ctx}: both operands have an empty scope "
                               f"(values {case['fv']} / {case['gv']}): TypeError {e}"}
            if D_fg is not None and div_ok:
                table += [("divide", lambda: f.divide(g, inplace=False), D_fg, 1e-9), ("__truediv__", lambda: f / g, D_fg, 1e-9),
                          ("factor_divide", lambda: factor_divide(f, g), D_fg, 1e-9)]
            if D_gf is not None and div_ok:
                table += [("divide", lambda: g.divide(f, inplace=False), D_gf, 1e-9), ("__truediv__", lambda: g / f, D_gf, 1e-9)]
            for op, fn, E, tol in table:
                r = fn()
                if r is None or r is f or r is g:
                    return {"key": f"{op}:no-new-object", "what": f"{op} {ctx}: out-of-place call returned {r!r}"}
                d = diff(r, E, states, tol)
                if d:
                    return fail(op, d, ctx)
                fr = _frame(op, ctx, before, {"f": f, "g": g})
                if fr:
                    return fr
                res.append((op, r))
            if D_fg is None:
                try:
                    f.divide(g, inplace=False)
                    return {"key": "divide:scope-not-subset-accepted", "what": f"divide {ctx}: divisor scope is not a subset, no ValueError"}
                except ValueError:
                    pass
            # equality of results computed in different operand orders (commutativity through the real __eq__)
            if not (res[0][1] == res[1][1]) or not (res[5][1] == res[6][1]) or (res[0][1] != res[3][1]):
                return {"key": "__eq__:commuted-results-unequal", "what": f"{ctx}: f*g == g*f or f+g == g+f evaluated to False"}
            # aliasing: scribbling on any result must not reach the operands
            for op, r in res:
                scribble(r)
                fr = _frame(op, ctx + " (after mutating the result)", before, {"f": f, "g": g})
                if fr:
                    fr["key"] = f"{op}:result-aliases-operand"
                    return fr
            # in-place variants: self becomes the result, the other operand is untouched
            inpl = [("product", lambda a, b: a.product(b, inplace=True), P, 1e-12, False), ("product", lambda a, b: a.product(b, inplace=True), P, 1e-12, True),
                    ("sum", lambda a, b: a.sum(b, inplace=True), S, 1e-12, False), ("sum", lambda a, b: a.sum(b, inplace=True), S, 1e-12, True)]
            if D_fg is not None and div_ok:
                inpl.append(("divide", lambda a, b: a.divide(b, inplace=True), D_fg, 1e-9, False))
            if D_gf is not None and div_ok:
                inpl.append(("divide", lambda a, b: a.divide(b, inplace=True), D_gf, 1e-9, True))
            for op, fn, E, tol, swap in inpl:
                f, g = mk()
                a, b = (g, f) if swap else (f, g)
                bb = snap(b)
                ret = fn(a, b)
                if ret is not None:
                    return {"key": f"{op}:inplace-returned-value", "what": f"{op}(inplace=True) {ctx}: returned {ret!r}"}
                d = diff(a, E, states, tol)
                if d:
                    return fail(op + ":inplace", d, ctx)
                if not same_snap(bb, snap(b)):
                    return {"key": f"{op}:inplace:operand-mutated", "what": f"{op}(inplace=True) {ctx}: the argument factor changed"}
    return pending


def _reduce_args(sub, states):
    for combo in itertools.product(*[states[v] for v in sub]):
        yield dict(zip(sub, combo))


def check_unary(case):
    _quiet()
    states = _decode_states(case)
    F = of_from_flat(case["f"], states, case["fv"])
    lab = case["labeling"]
    named = lab != "default"
    scope = list(case["f"])
    total = sum(F.tab.values(), Fraction(0))
    exp_marg = {tuple(V): s_marg(F, V, states) for V in _subsets(scope)}
    exp_max = {tuple(V): s_max(F, V, states) for V in _subsets(scope)}
    for pf in itertools.permutations(scope):
        ctx = f"f{list(pf)} labeling={lab}"

        def mk():
            return build(F, pf, states, named)

        f = mk()
        before = {"f": snap(f)}
        d = diff(f, F, states)
        if d:
            return fail("__init__", d, ctx)
        res = []

        def out_of_place(op, fn, E, tol=1e-12, extra=""):
            r = fn()
            if r is None or r is f:
                return {"key": f"{op}:no-new-object", "what": f"{op} {ctx} {extra}: out-of-place call returned {r!r}"}
            dd = diff(r, E, states, tol)
            if dd:
                return fail(op, dd, ctx + " " + extra)
            fr = _frame(op, ctx + " " + extra, before, {"f": f})
            if fr:
                return fr
            res.append((op, r))
            return None

        def in_place(op, fn, E, tol=1e-12, extra=""):
            h = mk()
            ret = fn(h)
            if ret is not None:
                return {"key": f"{op}:inplace-returned-value", "what": f"{op}(inplace=True) {ctx} {extra}: returned {ret!r}"}
            dd = diff(h, E, states, tol)
            if dd:
                return fail(op + ":inplace", dd, ctx + " " + extra)
            return None

        for V in _subsets(scope):
            for Vl in ([V, V[::-1]] if len(V) > 1 else [V]):
                for op, exp in (("marginalize", exp_marg), ("maximize", exp_max)):
                    e = out_of_place(op, lambda: getattr(f, op)(list(Vl), inplace=False), exp[tuple(V)], extra=f"{Vl}") or \
                        in_place(op, lambda h: getattr(h, op)(list(Vl)), exp[tuple(V)], extra=f"{Vl}")
                    if e:
                        return e
            # elimination order irrelevance, one variable at a time in both orders
            if len(V) == 2:
                for op, exp in (("marginalize", exp_marg), ("maximize", exp_max)):
                    r1 = getattr(getattr(f, op)([V[0]], inplace=False), op)([V[1]], inplace=False)
                    r2 = getattr(getattr(f, op)([V[1]], inplace=False), op)([V[0]], inplace=False)
                    for r in (r1, r2):
                        dd = diff(r, exp[tuple(V)], states)
                        if dd:
                            return fail(op + ":stepwise", dd, ctx + f" {V}")
                    if not (r1 == r2) or (r1 != r2):
                        return {"key": "__eq__:elimination-orders-unequal", "what": f"{ctx}: {op} {V} in both orders compare unequal"}
            # reduce: every assignment of every subset, by state name
            for ev in _reduce_args(V, states):
                E = s_reduce(F, ev, states)
                items = list(ev.items())
                for vals in ([items, items[::-1]] if len(items) > 1 else [items]):
                    e = out_of_place("reduce", lambda: f.reduce(list(vals), inplace=False), E, extra=f"{vals}") or \
                        in_place("reduce", lambda h: h.reduce(list(vals)), E, extra=f"{vals}")
                    if e:
                        return e
                if lab == "str" and ev:
                    nums = [(v, states[v].index(s)) for v, s in ev.items()]
                    dd = diff(f.reduce(nums, inplace=False, show_warnings=False), E, states)
                    if dd:
                        return fail("reduce:fallback-numbers", dd, ctx + f" {nums}")
                # reduce and marginalize commute
                rest = [v for v in scope if v not in ev]
                for W in _subsets(rest):
                    if not ev or not W or len(W) > 1:
                        continue
                    E2 = s_marg(E, W, states)
                    r1 = f.reduce(list(items), inplace=False).marginalize(list(W), inplace=False)
                    r2 = f.marginalize(list(W), inplace=False).reduce(list(items), inplace=False)
                    for r in (r1, r2):
                        dd = diff(r, E2, states)
                        if dd:
                            return fail("reduce-marginalize", dd, ctx + f" {items} {W}")
                    if not (r1 == r2):
                        return {"key": "__eq__:reduce-marginalize-unequal", "what": f"{ctx}: reduce{items} and marginalize{W} in both orders compare unequal"}
        if total > 0:
            N = s_normalize(F)
            e = out_of_place("normalize", lambda: f.normalize(inplace=False), N, 1e-9) or in_place("normalize", lambda h: h.normalize(), N, 1e-9)
            if e:
                return e
        e = out_of_place("copy", lambda: f.copy(), F)
        if e:
            return e
        for k in (2, 0.5, 0, 3):
            Ek, Ea = s_map(F, lambda x: x * Fraction(k)), s_map(F, lambda x: x + Fraction(k))
            e = (out_of_place("product:scalar", lambda: f.product(k, inplace=False), Ek) or out_of_place("__mul__:scalar", lambda: f * k, Ek)
                 or out_of_place("__rmul__:scalar", lambda: k * f, Ek) or in_place("product:scalar", lambda h: h.product(k, inplace=True), Ek)
                 or out_of_place("sum:scalar", lambda: f.sum(k, inplace=False), Ea) or out_of_place("__add__:scalar", lambda: f + k, Ea)
                 or out_of_place("__radd__:scalar", lambda: k + f, Ea) or in_place("sum:scalar", lambda h: h.sum(k, inplace=True), Ea))
            if e:
                return e
        if not (f == f.copy()) or (f != f.copy()):
            return {"key": "__eq__:copy-unequal", "what": f"{ctx}: f == f.copy() is False"}
        for op, r in res:
            scribble(r)
            fr = _frame(op, ctx + " (after mutating the result)", before, {"f": f})
            if fr:
                fr["key"] = f"{op}:result-aliases-operand"
                return fr
    return None


def _perm_states(states, how):
    out = {}
    for i, (v, s) in enumerate(states.items()):
        if how == "rev":
            out[v] = s[::-1]
        elif how == "rot":
            out[v] = s[1:] + s[:1]
        elif how == "alt":
            out[v] = s[::-1] if i % 2 == 0 else list(s)
        else:
            out[v] = list(s)
    return out


def check_eq(case):
    """__eq__/__ne__: True exactly when the two factors agree on every named assignment (np.allclose, atol 1e-8)."""
    _quiet()
    states = _decode_states(case)
    F = of_from_flat(case["f"], states, case["fv"])
    lab = case["labeling"]
    scope = list(case["f"])
    keys = list(F.tab)
    for pf in itertools.permutations(scope):
        f = build(F, pf, states, lab != "default")
        bf = snap(f)
        for pg in itertools.permutations(scope):
            for how in ("same", "rev", "rot", "alt"):
                gst = _perm_states(states, how)
                ctx = f"f{list(pf)} g{list(pg)} g-state-order={how} labeling={lab}"
                explicit = not (how == "same" and lab == "default")

                def mkg(G):
                    return build(G, pg, states, explicit, state_lists=gst)

                g = mkg(F)
                bg = snap(g)
                if not (f == g) or not (g == f) or (f != g) or (g != f):
                    return {"key": "__eq__:equal-factors-unequal", "what": f"{ctx}: same value on every named assignment but f == g / g == f is "
                            f"{f == g}/{g == f}; f.values={f.values.tolist()} g.values={g.values.tolist()} g.state_names={g.state_names}"}
                if not same_snap(bf, snap(f)) or not same_snap(bg, snap(g)):
                    return {"key": "__eq__:operand-mutated", "what": f"{ctx}: comparison changed an operand"}
                if how in ("same", "rev"):
                    for j in sorted({0, len(keys) - 1, len(keys) // 2}):
                        for delta, want in ((Fraction(1, 1000), False), (Fraction(-1, 1000), False), (Fraction(1, 10 ** 11), True)):
                            G = OF(F.scope, dict(F.tab))
                            G.tab[keys[j]] = F.tab[keys[j]] + delta
                            g2 = mkg(G)
                            if (f == g2) != want or (g2 == f) != want or (f != g2) == want:
                                return {"key": "__eq__:tolerance" if want else "__eq__:different-values-equal",
                                        "what": f"{ctx}: value at {sorted(keys[j], key=repr)} shifted by {float(delta)}: f == g gives {f == g2}, g == f gives {g2 == f}, expected {want}"}
        # different scope / cardinality / state names / foreign objects
        others = []
        if scope:
            v = scope[0]
            ren = {x: ("other_" + x if x == v else x) for x in scope}
            st2 = {ren[x]: s for x, s in states.items()}
            G = OF([ren[x] for x in F.scope], {frozenset((ren[a], b) for a, b in k): x for k, x in F.tab.items()})
            others.append(("renamed variable", build(G, [ren[x] for x in pf], st2, True)))
            # one more state for v (values repeated), i.e. different cardinality
            s0 = states[v][0]
            new_state = ("extra", 9) if isinstance(s0, tuple) else (len(states[v]) + 5 if isinstance(s0, int) else "extra_state")
            st3 = dict(states)
            st3[v] = states[v] + [new_state]
            G = OF(F.scope, {})
            for a in assignments(F.scope, st3):
                base = frozenset((x, (states[v][0] if (x == v and s == new_state) else s)) for x, s in a)
                G.tab[a] = F.tab[base]
            others.append(("extra state", build(G, pf, st3, True)))
            # same cardinality, one state renamed
            st4 = dict(states)
            st4[v] = [new_state] + states[v][1:]
            G = OF(F.scope, {frozenset((x, (new_state if (x == v and s == states[v][0]) else s)) for x, s in k): x_ for k, x_ in F.tab.items()})
            others.append(("renamed state", build(G, pf, st4, True)))
            # sub-scope
            sub = s_marg(F, [v], states)
            others.append(("sub-scope", build(sub, [x for x in pf if x != v], states, True)))
        for what, g in others:
            if (f == g) or (g == f) or not (f != g):
                return {"key": "__eq__:different-signature-equal", "what": f"f{list(pf)} labeling={lab}: factor with {what} compares equal"}
        for other in (None, 5, "x", [1.0]):
            if f == other or not (f != other):
                return {"key": "__eq__:non-factor-equal", "what": f"f == {other!r} is True"}
    return None


def check_nary(case):
    _quiet()
    from pgmpy.factors.base import factor_divide, factor_product, factor_sum_product

    states = _decode_states(case)
    lab = case["labeling"]
    Fs = [of_from_flat(s, states, v) for s, v in zip(case["scopes"], case["vals"])]
    P = s_product(s_product(Fs[0], Fs[1], states), Fs[2], states)
    P12 = s_product(Fs[0], Fs[1], states)
    Dv = s_divide(P, Fs[2], states)
    for orders in case["orders"]:
        ctx = f"orders={orders} labeling={lab}"
        fs = [build(F, o, states, lab != "default") for F, o in zip(Fs, orders)]
        before = {i: snap(f) for i, f in enumerate(fs)}
        ops = dict(enumerate(fs))
        res = []
        for perm in itertools.permutations(range(3)):
            r = factor_product(*[fs[i] for i in perm])
            d = diff(r, P, states)
            if d:
                return fail("factor_product", d, ctx + f" argument order {perm}")
            res.append(("factor_product", r))
        left, right = (fs[0] * fs[1]) * fs[2], fs[0] * (fs[1] * fs[2])
        for r in (left, right):
            d = diff(r, P, states)
            if d:
                return fail("product:associativity", d, ctx)
        if not (left == right) or not (res[0][1] == res[-1][1]):
            return {"key": "__eq__:associated-products-unequal", "what": f"{ctx}: (f*g)*h == f*(g*h) is False"}
        single = factor_product(fs[0])
        d = diff(single, Fs[0], states)
        if d or single is fs[0]:
            return fail("factor_product:single", d or ("identity", "returned the argument itself"), ctx)
        res.append(("factor_product:single", single))
        for out in case["outs"]:
            E = s_marg(P, [v for v in P.scope if v not in out], states)
            r = factor_sum_product(list(out), list(fs))
            d = diff(r, E, states)
            if d:
                return fail("factor_sum_product", d, ctx + f" output_vars={out}")
            res.append(("factor_sum_product", r))
            fr = _frame("factor_sum_product", ctx, before, ops)
            if fr:
                return fr
        pf = factor_product(*fs)
        r = factor_divide(pf, fs[2])
        d = diff(r, Dv, states, 1e-9)
        if d:
            return fail("factor_divide", d, ctx)
        res.append(("factor_divide", r))
        d = diff(pf, P, states)
        if d:
            return fail("factor_divide:operand-mutated", d, ctx)
        d = diff(factor_sum_product(list(P12.scope), fs[:2]), P12, states)
        if d:
            return fail("factor_sum_product:pure-product", d, ctx)
        fr = _frame("factor_product/factor_divide", ctx, before, ops)
        if fr:
            return fr
        for op, r in res:
            scribble(r)
            fr = _frame(op, ctx + " (after mutating the result)", before, ops)
            if fr:
                fr["key"] = f"{op}:result-aliases-operand"
                return fr
    return None


def nontrivial(case):
    vals = list(case.get("fv", [])) + list(case.get("gv", [])) + [x for v in case.get("vals", []) for x in v]
    return len(case["vars"]) >= 1 and len(set(vals)) > 1


def groups(tier):
    common = "variables named by multi-character strings, cards in {1,2,3}, tables of dyadic rationals k/8 incl. zeros; labelings " \
             "default ints / strings / tuples / permuted ints / mixed per variable / default-vs-explicit"
    return [
        Group("binary", gen_binary, check_binary, nontrivial, seed_fanout=8, engine="E3",
              bound="all 26 scope-overlap patterns of operand ranks 0..3 with union <= 4, every axis permutation of both operands; "
                    "quick: 3 cardinality assignments per pattern, thorough: all cardinality assignments (4-variable unions: those with 3 "
                    "distinct cards + every 2nd other), each with all 6 labelings; product/sum/divide, operators, factor_product/factor_divide, both operand orders, "
                    "in-place and out-of-place, operand snapshots, result scribbling; every third pattern also with both tables scaled by 2^-40; "
                    "8 hash seeds per case. " + common),
        Group("unary", gen_unary, check_unary, nontrivial, seed_fanout=2, engine="E3",
              bound="every fourth table also rescaled to the total 1 - 2^-14; ranks 0..3 (thorough 0..4), quick: all card assignments for rank <= 2 and 9 for rank 3, thorough: all; 5 labelings; every axis "
                    "permutation; marginalize/maximize every subset (both listing orders), reduce every assignment of every subset, normalize, copy, "
                    "scalar product/sum, step-wise elimination in both orders, reduce/marginalize commute, frame and aliasing. " + common),
        Group("equality", gen_unary, check_eq, nontrivial, seed_fanout=1, engine="E3",
              bound="same factors as group unary; every pair of axis orders x 4 state-list orders (same, reversed, rotated, alternating); one entry "
                    "shifted by +-1e-3 (must be unequal) and by 1e-11 (must be equal); renamed variable, extra state, renamed state, sub-scope, "
                    "non-factor operands. Tolerance boundary itself (atol 1e-8 + numpy's default rtol 1e-5) is not probed."),
        Group("nary", gen_nary, check_nary, nontrivial, seed_fanout=8, engine="E3",
              bound="48 (thorough 600) seeded triples of factors with ranks 0..3 over <= 4 variables, 3 axis-order triples each: factor_product in all "
                    "6 argument orders, associativity, factor_sum_product for every subset of the union as output, factor_divide, frame and aliasing"),
    ]
