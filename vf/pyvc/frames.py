"""Frame checking (modifies-clauses) for methods whose bodies are numpy/list/dict manipulation.

Question decided:  may a call write to an object that existed before the call (the receiver, another
operand, anything reachable from them)?  Contract form:  `modifies {}` for out-of-place calls,
`modifies self` for in-place calls, and always `modifies {}` for the other operands.

Method: flow-sensitive may-points-to + write-effect analysis over the *real* AST (re-read on every run), with
strong updates for local names, allocation-site abstraction for new objects, views (numpy basic slicing,
reshape, swapaxes, transpose, .T, asarray ...) sharing the storage of their base, shallow copies sharing their
elements, inlining of repo methods/functions reached from the analysed method, and a fix-point over loops.
Every write (attribute store, item store, in-place operator, mutating method, `del`) to a location that may
be (storage-shared with) a pre-existing location is an *effect*; an effect outside the allowed frame refutes
the obligation.  Being a may-analysis it can only over-report: "discharged" means no execution can write outside
the frame *under the listed assumptions* (tables of library functions below; unknown callables are assumed not to
write to their arguments, and to return something that may alias any array argument).
"""
from __future__ import annotations

import ast
import itertools
from pathlib import Path

# --- library knowledge (assumed contracts, listed in evidence) -------------------------------------------------
MUTATORS = {"append", "extend", "insert", "remove", "pop", "sort", "reverse", "clear", "update", "popitem", "setdefault",
            "add", "discard", "difference_update", "intersection_update", "symmetric_difference_update",
            "fill", "put", "itemset", "resize", "setflags", "partition", "__setitem__", "__delitem__", "__iadd__", "__imul__",
            # torch in-place variants
            "add_", "mul_", "div_", "sub_", "zero_", "copy_", "fill_"}
VIEW_METHODS = {"reshape", "swapaxes", "transpose", "squeeze", "ravel", "view", "T", "real", "imag", "flat", "diagonal",
                "moveaxis", "expand_dims", "permute", "to", "type", "numpy", "detach", "__getitem__", "values", "keys", "items",
                "get", "__iter__", "flip"}
FRESH_METHODS = {"copy", "flatten", "astype", "sum", "max", "min", "prod", "mean", "round", "tolist", "index", "count",
                 "argmax", "argmin", "any", "all", "nonzero", "cumsum", "dot", "clone", "union", "intersection",
                 "difference", "issubset", "issuperset", "isdisjoint", "lower", "upper", "join", "format", "split",
                 "__add__", "__mul__", "__truediv__", "__sub__", "__eq__", "__hash__", "size", "item"}
VIEW_FUNCS = {"np.asarray", "np.reshape", "np.swapaxes", "np.transpose", "np.moveaxis", "np.squeeze", "np.ravel",
              "np.expand_dims", "np.atleast_1d", "np.broadcast_to", "compat_fns.transpose", "compat_fns.to_numpy",
              "compat_fns.ravel_f", "compat_fns.flip", "iter", "reversed", "enumerate", "zip", "map", "filter"}
FRESH_FUNCS = {"np.array", "np.ones", "np.zeros", "np.prod", "np.sum", "np.append", "np.delete", "np.concatenate", "np.allclose",
               "np.einsum", "np.max", "np.argmax", "np.unique", "np.arange", "np.isnan", "np.where", "np.log", "np.exp",
               "np.fromiter", "np.product", "np.cumprod", "np.tile", "np.repeat", "np.stack", "np.empty", "np.full",
               "compat_fns.copy", "compat_fns.einsum", "compat_fns.max", "compat_fns.size", "compat_fns.ones", "compat_fns.sum",
               "compat_fns.argmax", "compat_fns.tobytes", "compat_fns.exp", "compat_fns.stack", "compat_fns.unique",
               "len", "range", "int", "float", "str", "bool", "tuple", "sorted", "list", "set", "frozenset", "dict", "sum", "min",
               "max", "abs", "any", "all", "isinstance", "hasattr", "type", "repr", "hash", "id", "print", "round", "getattr",
               "itertools.product", "itertools.combinations", "itertools.chain", "product", "combinations", "chain", "reduce",
               "warn", "warnings.warn", "tabulate", "deepcopy", "copy.deepcopy", "contract", "torch.Tensor", "torch.tensor",
               "torch.ones", "torch.zeros", "slice"}
SHALLOW = {"list", "set", "frozenset", "dict", "tuple", "sorted"}  # new container, shared elements


class Loc:
    _ids = itertools.count()

    def __init__(self, site, kind, pre=False):
        self.id = next(Loc._ids)
        self.site, self.kind, self.pre = site, kind, pre
        self.fields = {}      # attr -> frozenset[Loc]
        self.elems = frozenset()   # contained objects (containers / instance dict values)
        self.base = frozenset()    # storage shared with (views)

    def __repr__(self):
        return f"<{self.kind}@{self.site}{'*' if self.pre else ''}>"


EMPTY = frozenset()


class Effect:
    def __init__(self, loc, how, line, path):
        self.loc, self.how, self.line, self.path = loc, how, line, path

    def __repr__(self):
        return f"write to {self.loc} by {self.how} at line {self.line} ({' > '.join(self.path)})"


class State:
    def __init__(self):
        self.env = {}          # name -> frozenset[Loc]
        self.alive = True

    def copy(self):
        s = State()
        s.env = dict(self.env)
        s.alive = self.alive
        return s


def join(a: State, b: State) -> State:
    if not a.alive:
        return b.copy()
    if not b.alive:
        return a.copy()
    s = State()
    for k in set(a.env) | set(b.env):
        x, y = a.env.get(k, EMPTY), b.env.get(k, EMPTY)
        if isinstance(x, tuple) or isinstance(y, tuple):
            s.env[k] = x if (isinstance(x, tuple) and isinstance(y, tuple) and x[:2] == y[:2]) else \
                ((x if isinstance(x, frozenset) else EMPTY) | (y if isinstance(y, frozenset) else EMPTY))
        else:
            s.env[k] = x | y
    return s


class ClassIndex:
    """AST lookup of repo classes/functions (re-read from the working tree)."""

    def __init__(self, repo, files, bare_funcs_from=("base",)):
        self.repo = Path(repo)
        self.classes = {}   # name -> (ClassDef, module rel, bases)
        self.funcs = {}     # "module.func" / "func" -> FunctionDef
        import warnings
        for rel in files:
            with warnings.catch_warnings():
                warnings.simplefilter("ignore", SyntaxWarning)
                tree = ast.parse((self.repo / rel).read_text())
            mod = Path(rel).stem
            for n in tree.body:
                if isinstance(n, ast.ClassDef):
                    bases = [b.id if isinstance(b, ast.Name) else getattr(b, "attr", "?") for b in n.bases]
                    self.classes[n.name] = (n, rel, bases)
                elif isinstance(n, ast.FunctionDef):
                    self.funcs[f"{mod}.{n.name}"] = n
                    if mod in bare_funcs_from:
                        self.funcs.setdefault(n.name, n)

    def mro(self, cls):
        out, todo = [], [cls]
        while todo:
            c = todo.pop(0)
            if c in out or c not in self.classes:
                continue
            out.append(c)
            todo += self.classes[c][2]
        return out

    def method(self, cls, name, after=None):
        mro = self.mro(cls)
        if after in mro:
            mro = mro[mro.index(after) + 1:]
        for c in mro:
            for n in self.classes[c][0].body:
                if isinstance(n, ast.FunctionDef) and n.name == name:
                    return n, c
        return None, None


class FrameAnalysis:
    def __init__(self, index: ClassIndex, max_depth=4):
        self.ix = index
        self.effects = []
        self.assumed = set()
        self.unknown_calls = set()
        self.max_depth = max_depth
        self.stack = []
        self.site_locs = {}
        self.returns = []

    # ---------------------------------------------------------------- heap helpers
    def new(self, node, kind, tag=""):
        key = (getattr(node, "lineno", 0), getattr(node, "col_offset", 0), kind, tag, tuple(self.stack[-2:]))
        if key not in self.site_locs:
            self.site_locs[key] = Loc(f"L{key[0]}:{key[1]}{tag}", kind)
        return self.site_locs[key]

    def storage(self, locs):
        """all locations whose storage a write through `locs` may touch (views -> bases, transitively)"""
        out, todo = set(), list(locs)
        while todo:
            l = todo.pop()
            if l in out:
                continue
            out.add(l)
            todo += list(l.base)
        return out

    def write(self, locs, how, node):
        for l in self.storage(locs):
            self.effects.append(Effect(l, how, getattr(node, "lineno", 0), list(self.stack)))

    # ---------------------------------------------------------------- statements
    def run_block(self, body, st):
        for s in body:
            if not st.alive:
                break
            st = self.stmt(s, st)
        return st

    def stmt(self, n, st):
        m = getattr(self, "s_" + type(n).__name__, None)
        if m is None:
            self.assumed.add(f"statement {type(n).__name__} has no effect on tracked objects")
            return st
        return m(n, st)

    def s_Pass(self, n, st):
        return st

    def s_Expr(self, n, st):
        self.ev(n.value, st)
        return st

    def s_Assign(self, n, st):
        v = self.ev(n.value, st)
        for t in n.targets:
            self.assign(t, v, st, n)
        return st

    def s_AnnAssign(self, n, st):
        if n.value is not None:
            self.assign(n.target, self.ev(n.value, st), st, n)
        return st

    def s_AugAssign(self, n, st):
        cur = self.ev(n.target, st)
        rhs = self.ev(n.value, st)
        # in-place operator on a mutable object (ndarray, list, set, dict) writes to it
        mutable = {l for l in cur if l.kind in ("array", "list", "dict", "set", "unknown")}
        if mutable:
            self.write(mutable, f"in-place operator {type(n.op).__name__}=", n)
            for l in mutable:
                l.elems = l.elems | rhs
        return st

    def assign(self, t, v, st, node):
        if isinstance(t, ast.Name):
            st.env[t.id] = v
        elif isinstance(t, (ast.Tuple, ast.List)):
            elems = frozenset().union(*[l.elems for l in v]) | v if v else EMPTY
            for e in t.elts:
                self.assign(e, elems, st, node)
        elif isinstance(t, ast.Attribute):
            objs = self.ev(t.value, st)
            self.write(objs, f"attribute store .{t.attr}", node)
            for o in objs:
                o.fields[t.attr] = (o.fields.get(t.attr, EMPTY) | v) if len(objs) > 1 else v
        elif isinstance(t, ast.Subscript):
            objs = self.ev(t.value, st)
            self.ev(t.slice, st)
            self.write(objs, "item store", node)
            for o in objs:
                o.elems = o.elems | v
        elif isinstance(t, ast.Starred):
            self.assign(t.value, v, st, node)

    def s_Delete(self, n, st):
        for t in n.targets:
            if isinstance(t, ast.Subscript):
                self.write(self.ev(t.value, st), "del item", n)
            elif isinstance(t, ast.Attribute):
                self.write(self.ev(t.value, st), "del attribute", n)
            elif isinstance(t, ast.Name):
                st.env.pop(t.id, None)
        return st

    def s_If(self, n, st):
        self.ev(n.test, st)
        const = self.const_test(n.test, st)
        if const is True:
            return self.run_block(n.body, st)
        if const is False:
            return self.run_block(n.orelse, st)
        a = self.run_block(n.body, st.copy())
        b = self.run_block(n.orelse, st.copy())
        return join(a, b)

    def const_test(self, test, st):
        """decide `inplace`-style tests on parameters bound to python constants (path sensitivity on the frame flag)"""
        if isinstance(test, ast.Name) and test.id in st.env and isinstance(st.env[test.id], tuple):
            return bool(st.env[test.id][1])
        if isinstance(test, ast.UnaryOp) and isinstance(test.op, ast.Not):
            c = self.const_test(test.operand, st)
            return None if c is None else (not c)
        return None

    def loop(self, body, st, bind=None):
        prev = None
        cur = st.copy()
        for _ in range(6):
            s = cur.copy()
            if bind:
                bind(s)
            out = self.run_block(body, s)
            nxt = join(cur, out)
            sig = {k: frozenset(v) if not isinstance(v, tuple) else v for k, v in nxt.env.items()}
            if sig == prev:
                break
            prev, cur = sig, nxt
        return cur

    def s_For(self, n, st):
        it = self.ev(n.iter, st)
        elems = frozenset().union(*[l.elems for l in it]) | it if it else EMPTY
        st2 = self.loop(n.body, st, bind=lambda s: self.assign(n.target, elems, s, n))
        return self.run_block(n.orelse, st2) if n.orelse else st2

    def s_While(self, n, st):
        self.ev(n.test, st)
        return self.loop(n.body, st)

    def s_Return(self, n, st):
        v = self.ev(n.value, st) if n.value is not None else EMPTY
        self.returns[-1].append(v if not isinstance(v, tuple) else EMPTY)
        st.alive = False
        return st

    def s_Raise(self, n, st):
        st.alive = False
        return st

    def s_Try(self, n, st):
        a = self.run_block(n.body, st.copy())
        outs = [a]
        for h in n.handlers:
            outs.append(self.run_block(h.body, join(st.copy(), a)))
        r = outs[0]
        for o in outs[1:]:
            r = join(r, o)
        if n.orelse:
            r = self.run_block(n.orelse, r)
        if n.finalbody:
            r = self.run_block(n.finalbody, r)
        return r

    def s_With(self, n, st):
        for it in n.items:
            self.ev(it.context_expr, st)
        return self.run_block(n.body, st)

    def s_FunctionDef(self, n, st):
        st.env[n.name] = ("func", n, dict(st.env))
        return st

    def s_Import(self, n, st):
        return st

    s_ImportFrom = s_Import
    s_Assert = s_Pass
    s_Global = s_Pass
    s_Nonlocal = s_Pass
    s_Break = s_Pass
    s_Continue = s_Pass

    # ---------------------------------------------------------------- expressions
    def ev(self, n, st):
        if n is None:
            return EMPTY
        m = getattr(self, "e_" + type(n).__name__, None)
        if m is None:
            for ch in ast.iter_child_nodes(n):
                if isinstance(ch, ast.expr):
                    self.ev(ch, st)
            return EMPTY
        r = m(n, st)
        return r

    def locs(self, v):
        return v if isinstance(v, frozenset) else EMPTY

    def e_Constant(self, n, st):
        if n.value is True or n.value is False or n.value is None:
            return ("const", n.value)   # frame flags such as inplace=False must stay decidable across calls
        return EMPTY

    def e_Name(self, n, st):
        v = st.env.get(n.id, EMPTY)
        return v

    def e_Attribute(self, n, st):
        objs = self.locs(self.ev(n.value, st))
        out = set()
        for o in objs:
            if n.attr in o.fields:
                out |= o.fields[n.attr]
            elif o.kind in ("array", "unknown") and n.attr in VIEW_METHODS:
                v = self.new(n, "array", ".view")
                v.base = v.base | {o}
                out.add(v)
            elif o.kind == "instance":
                # field never assigned in the analysed code: a pre-existing / unknown sub-object of o
                f = self.new(n, "unknown", f".{n.attr}")
                f.pre = o.pre
                o.fields[n.attr] = frozenset([f])
                out.add(f)
        return frozenset(out)

    def e_Subscript(self, n, st):
        objs = self.locs(self.ev(n.value, st))
        self.ev(n.slice, st)
        out = set()
        for o in objs:
            out |= o.elems
            if o.kind in ("array", "unknown"):
                v = self.new(n, "array", "[view]")
                v.base = v.base | {o}
                out.add(v)
        return frozenset(out)

    def container(self, n, st, kind, elts):
        c = self.new(n, kind)
        for e in elts:
            v = self.locs(self.ev(e.value if isinstance(e, ast.Starred) else e, st))
            if isinstance(e, ast.Starred):
                v = frozenset().union(*[l.elems for l in v]) if v else EMPTY
            c.elems = c.elems | v
        return frozenset([c])

    def e_List(self, n, st):
        return self.container(n, st, "list", n.elts)

    def e_Tuple(self, n, st):
        return self.container(n, st, "tuple", n.elts)

    def e_Set(self, n, st):
        return self.container(n, st, "set", n.elts)

    def e_Dict(self, n, st):
        c = self.new(n, "dict")
        for k, v in zip(n.keys, n.values):
            if k is not None:
                self.ev(k, st)
            c.elems = c.elems | self.locs(self.ev(v, st))
        return frozenset([c])

    def comp(self, n, st, kind, elt_nodes):
        s = st.copy()
        for g in n.generators:
            it = self.locs(self.ev(g.iter, s))
            elems = frozenset().union(*[l.elems for l in it]) | it if it else EMPTY
            self.assign(g.target, elems, s, n)
            for c in g.ifs:
                self.ev(c, s)
        c = self.new(n, kind)
        for e in elt_nodes:
            c.elems = c.elems | self.locs(self.ev(e, s))
        return frozenset([c])

    def e_ListComp(self, n, st):
        return self.comp(n, st, "list", [n.elt])

    def e_SetComp(self, n, st):
        return self.comp(n, st, "set", [n.elt])

    def e_GeneratorExp(self, n, st):
        return self.comp(n, st, "list", [n.elt])

    def e_DictComp(self, n, st):
        return self.comp(n, st, "dict", [n.key, n.value])

    def e_BinOp(self, n, st):
        a, b = self.locs(self.ev(n.left, st)), self.locs(self.ev(n.right, st))
        r = self.new(n, "array" if any(l.kind in ("array", "unknown") for l in a | b) else "list")
        r.elems = frozenset().union(*[l.elems for l in a | b]) if a | b else EMPTY
        return frozenset([r])

    def e_UnaryOp(self, n, st):
        self.ev(n.operand, st)
        return EMPTY

    def e_BoolOp(self, n, st):
        out = EMPTY
        for v in n.values:
            out = out | self.locs(self.ev(v, st))
        return out

    def e_Compare(self, n, st):
        self.ev(n.left, st)
        for c in n.comparators:
            self.ev(c, st)
        return EMPTY

    def e_IfExp(self, n, st):
        c = self.const_test(n.test, st)
        self.ev(n.test, st)
        if c is True:
            return self.ev(n.body, st)
        if c is False:
            return self.ev(n.orelse, st)
        a, b = self.ev(n.body, st), self.ev(n.orelse, st)
        return self.locs(a) | self.locs(b)

    def e_Lambda(self, n, st):
        return ("func", n, dict(st.env))

    def e_JoinedStr(self, n, st):
        return EMPTY

    def e_Starred(self, n, st):
        v = self.locs(self.ev(n.value, st))
        return frozenset().union(*[l.elems for l in v]) if v else EMPTY

    def e_Slice(self, n, st):
        for x in (n.lower, n.upper, n.step):
            self.ev(x, st)
        return EMPTY

    # ---------------------------------------------------------------- calls
    def dotted(self, f):
        parts = []
        while isinstance(f, ast.Attribute):
            parts.append(f.attr)
            f = f.value
        if isinstance(f, ast.Name):
            parts.append(f.id)
            return ".".join(reversed(parts))
        return None

    def e_Call(self, n, st):
        args = [self.ev(a, st) for a in n.args]
        kwargs = {k.arg: self.ev(k.value, st) for k in n.keywords}
        arg_locs = frozenset().union(*[self.locs(a) for a in list(args) + list(kwargs.values())]) if (args or kwargs) else EMPTY
        f = n.func
        # super().method(...) / super(Cls, self).method(...)
        if isinstance(f, ast.Attribute) and isinstance(f.value, ast.Call) and isinstance(f.value.func, ast.Name) and f.value.func.id == "super":
            sargs = f.value.args
            selfv = self.ev(sargs[1], st) if len(sargs) == 2 else st.env.get("self", EMPTY)
            cls_now = sargs[0].id if len(sargs) == 2 and isinstance(sargs[0], ast.Name) else self.stack_cls()
            fdef, owner = (None, None)
            for o in self.locs(selfv):
                fdef, owner = self.ix.method(o.cls if hasattr(o, "cls") else cls_now, f.attr, after=cls_now)
                break
            if fdef is not None:
                return self.inline(fdef, owner, [selfv] + args, kwargs, n)
            return self.unknown_call(f"super().{f.attr}", arg_locs, n)
        if isinstance(f, ast.Attribute):
            recv = self.ev(f.value, st)
            name = f.attr
            dotted = self.dotted(f)
            if dotted and not self.locs(recv) and not isinstance(recv, tuple):
                # module-level function (np.x, compat_fns.x, config.get_compute_backend().x ...)
                return self.call_function(dotted, args, kwargs, arg_locs, n, st)
            out = set()
            for o in self.locs(recv):
                out |= self.call_method(o, name, args, kwargs, arg_locs, n, recv)
            return frozenset(out)
        if isinstance(f, ast.Name):
            v = st.env.get(f.id)
            if isinstance(v, tuple) and v[0] == "func":
                return self.inline_closure(v, args, kwargs, n)
            return self.call_function(f.id, args, kwargs, arg_locs, n, st)
        self.ev(f, st)
        return self.unknown_call("<computed callee>", arg_locs, n)

    def stack_cls(self):
        for fr in reversed(self.stack):
            if "." in fr:
                return fr.split(".")[0]
        return None

    def call_method(self, o, name, args, kwargs, arg_locs, n, recv):
        if o.kind == "instance":
            fdef, owner = self.ix.method(o.cls, name)
            if fdef is not None:
                return self.inline(fdef, owner, [frozenset([o])] + args, kwargs, n)
            return self.unknown_call(f"{o.cls}.{name}", arg_locs | {o}, n)
        if name in MUTATORS:
            self.write([o], f".{name}()", n)
            for a in args:
                la = self.locs(a)
                o.elems = o.elems | la | (frozenset().union(*[l.elems for l in la]) if la else EMPTY)
            return o.elems if name in ("pop", "setdefault", "popitem") else EMPTY
        if name == "copy" and o.kind in ("list", "dict", "set"):
            c = self.new(n, o.kind, ".copy")
            c.elems = c.elems | o.elems       # shallow copy: new container, same elements
            return frozenset([c])
        if name in FRESH_METHODS:
            c = self.new(n, "array" if o.kind in ("array", "unknown") else "list", f".{name}")
            if name in ("union", "intersection", "difference"):
                c.elems = o.elems | (frozenset().union(*[l.elems for l in arg_locs]) if arg_locs else EMPTY)
            return frozenset([c])
        if name in VIEW_METHODS:
            if o.kind in ("array", "unknown"):
                v = self.new(n, "array", f".{name}")
                v.base = v.base | {o}
                return frozenset([v]) | o.elems
            return o.elems | frozenset([o]) if name in ("__iter__",) else o.elems
        return self.unknown_call(f"<{o.kind}>.{name}", arg_locs | {o}, n)

    def call_function(self, name, args, kwargs, arg_locs, n, st):
        short = name.split(".")[-1]
        if name in self.ix.classes or short in self.ix.classes and name == short:
            cls = short
            obj = self.new(n, "instance", cls)
            obj.cls = cls
            fdef, owner = self.ix.method(cls, "__init__")
            if fdef is not None:
                self.inline(fdef, owner, [frozenset([obj])] + args, kwargs, n)
            return frozenset([obj])
        if name.endswith(".__new__") or name == "object.__new__":
            # X.__new__(cls): fresh instance of the class of the first argument (self.__class__)
            cls = self.stack_cls()
            for a in args:
                if isinstance(a, tuple) and a[0] == "class":
                    cls = a[1]
            obj = self.new(n, "instance", ".__new__")
            obj.cls = cls
            return frozenset([obj])
        key = name if name in FRESH_FUNCS | VIEW_FUNCS else ("np." + short if ("np." + short) in FRESH_FUNCS | VIEW_FUNCS else
                                                          ("compat_fns." + short if ("compat_fns." + short) in FRESH_FUNCS | VIEW_FUNCS else short))
        if key in VIEW_FUNCS:
            v = self.new(n, "array", f"{short}()")
            v.base = v.base | {l for l in arg_locs if l.kind in ("array", "unknown")}
            v.elems = frozenset().union(*[l.elems for l in arg_locs]) | arg_locs if arg_locs else EMPTY
            return frozenset([v])
        if key in FRESH_FUNCS:
            kind = "array" if key.startswith(("np.", "compat_fns.")) else ("list" if short in SHALLOW or short in ("range",) else "list")
            c = self.new(n, kind, f"{short}()")
            if short in SHALLOW or short in ("append", "concatenate", "reduce"):
                c.elems = frozenset().union(*[l.elems for l in arg_locs]) if arg_locs else EMPTY
            return frozenset([c])
        fdef = self.ix.funcs.get(name) or (self.ix.funcs.get(short) if name == short else None)
        if fdef is not None and not name.startswith("compat_fns."):
            return self.inline(fdef, None, args, kwargs, n)
        return self.unknown_call(name, arg_locs, n)

    def unknown_call(self, name, arg_locs, n):
        self.unknown_calls.add(name)
        v = self.new(n, "unknown", f"{name}()")
        v.base = v.base | {l for l in arg_locs if l.kind in ("array", "unknown")}
        v.elems = frozenset().union(*[l.elems for l in arg_locs]) if arg_locs else EMPTY
        return frozenset([v])

    def inline_closure(self, clo, args, kwargs, n):
        _, fdef, env = clo
        if len(self.stack) >= self.max_depth:
            return self.unknown_call("<closure beyond depth>", EMPTY, n)
        st = State()
        st.env = dict(env)
        self.bind(fdef.args, args, kwargs, st)
        if isinstance(fdef, ast.Lambda):
            return self.locs(self.ev(fdef.body, st))
        self.stack.append(getattr(fdef, "name", "lambda"))
        self.returns.append([])
        self.run_block(fdef.body, st)
        rets = self.returns.pop()
        self.stack.pop()
        return frozenset().union(*rets) if rets else EMPTY

    def inline(self, fdef, owner, args, kwargs, n):
        fr = f"{owner}.{fdef.name}" if owner else fdef.name
        if len(self.stack) >= self.max_depth or self.stack.count(fr) >= 2:
            all_args = frozenset().union(*[self.locs(a) for a in args]) if args else EMPTY
            self.assumed.add(f"call to {fr} beyond the inlining depth is assumed to write only to objects it creates")
            return self.unknown_call(fr, all_args, n)
        st = State()
        self.bind(fdef.args, args, kwargs, st)
        # `self.__class__` / class attribute lookups
        self.stack.append(fr)
        self.returns.append([])
        self.run_block(fdef.body, st)
        rets = self.returns.pop()
        self.stack.pop()
        return frozenset().union(*rets) if rets else EMPTY

    def bind(self, a, args, kwargs, st):
        names = [x.arg for x in a.posonlyargs + a.args]
        for i, nm in enumerate(names):
            if i < len(args):
                st.env[nm] = args[i]
            elif nm in kwargs:
                st.env[nm] = kwargs[nm]
            else:
                di = i - (len(names) - len(a.defaults))
                d = a.defaults[di] if 0 <= di < len(a.defaults) else None
                if isinstance(d, ast.Constant):
                    st.env[nm] = ("const", d.value)
                elif d is not None:
                    st.env[nm] = self.ev(d, State())
                else:
                    st.env[nm] = EMPTY
        if a.vararg:
            c = Loc("varargs", "tuple")
            for x in args[len(names):]:
                c.elems = c.elems | self.locs(x)
            st.env[a.vararg.arg] = frozenset([c])
        for k in a.kwonlyargs:
            if k.arg in kwargs:
                st.env[k.arg] = kwargs[k.arg]
        if a.kwarg:
            st.env[a.kwarg.arg] = EMPTY


# ------------------------------------------------------------------------------------------------- pre-state + checks
def make_factor(tag, cls, pre=True):
    """a pre-existing DiscreteFactor / TabularCPD instance with its sub-objects"""
    o = Loc(tag, "instance", pre)
    o.cls = cls
    for f, kind in (("variables", "list"), ("cardinality", "array"), ("values", "array"), ("state_names", "dict"),
                    ("no_to_name", "dict"), ("name_to_no", "dict")):
        l = Loc(f"{tag}.{f}", kind, pre)
        if kind == "dict":
            inner = Loc(f"{tag}.{f}[*]", "list" if f == "state_names" else "dict", pre)
            l.elems = frozenset([inner])
        o.fields[f] = frozenset([l])
    return o


def reachable(roots):
    out, todo = set(), list(roots)
    while todo:
        l = todo.pop()
        if l in out:
            continue
        out.add(l)
        for v in l.fields.values():
            todo += list(v)
        todo += list(l.elems) + list(l.base)
    return out


def check_method(index, cls, method, params, allowed, label):
    """params: name -> Loc | ('const', value).  allowed: set of Locs whose storage may be written.
    returns (ok, offending effects, analysis)"""
    fa = FrameAnalysis(index)
    fdef, owner = index.method(cls, method)
    if fdef is None:
        raise LookupError(f"{cls}.{method} not found in the current source")
    st = State()
    pre_locs = set()
    for name, v in params.items():
        if isinstance(v, Loc):
            st.env[name] = frozenset([v])
            pre_locs |= reachable([v])
        else:
            st.env[name] = v
    for a in fdef.args.args:
        if a.arg not in st.env:
            st.env[a.arg] = EMPTY
    # defaults
    names = [x.arg for x in fdef.args.args]
    for i, nm in enumerate(names):
        if nm not in params:
            di = i - (len(names) - len(fdef.args.defaults))
            if 0 <= di < len(fdef.args.defaults) and isinstance(fdef.args.defaults[di], ast.Constant):
                st.env[nm] = ("const", fdef.args.defaults[di].value)
    allowed_storage = set()
    for l in allowed:
        allowed_storage |= reachable([l])
    fa.stack.append(f"{owner}.{method}")
    fa.returns.append([])
    fa.run_block(fdef.body, st)
    rets = fa.returns.pop()
    bad = [e for e in fa.effects if e.loc in pre_locs and e.loc not in allowed_storage]
    return (not bad), bad, fa, rets, pre_locs


def check_callable(index, fdef, owner, params, allowed):
    fa = FrameAnalysis(index)
    st = State()
    pre_locs = set()
    for name, v in params.items():
        if isinstance(v, Loc):
            st.env[name] = frozenset([v])
            pre_locs |= reachable([v])
        elif isinstance(v, list):   # *args of pre-existing objects
            c = Loc("args", "tuple")
            c.elems = frozenset(v)
            st.env[name] = frozenset([c])
            for x in v:
                pre_locs |= reachable([x])
        else:
            st.env[name] = v
    names = [x.arg for x in fdef.args.args]
    for i, nm in enumerate(names):
        if nm not in st.env:
            di = i - (len(names) - len(fdef.args.defaults))
            if 0 <= di < len(fdef.args.defaults) and isinstance(fdef.args.defaults[di], ast.Constant):
                st.env[nm] = ("const", fdef.args.defaults[di].value)
            else:
                st.env[nm] = EMPTY
    if fdef.args.vararg and fdef.args.vararg.arg not in st.env:
        st.env[fdef.args.vararg.arg] = EMPTY
    allowed_storage = set()
    for l in allowed:
        allowed_storage |= reachable([l])
    fa.stack.append(f"{owner}.{fdef.name}" if owner else fdef.name)
    fa.returns.append([])
    fa.run_block(fdef.body, st)
    rets = fa.returns.pop()
    bad = [e for e in fa.effects if e.loc in pre_locs and e.loc not in allowed_storage]
    # separation of the result: an object returned by an out-of-place call must not share its mutable parts
    # (variables list, cardinality/values arrays, the three outer state-name dicts) with a pre-existing object
    shared = []
    for r in rets:
        for l in r:
            if l.kind != "instance" or l in pre_locs:
                continue
            for fld in ("variables", "cardinality", "values", "state_names", "no_to_name", "name_to_no"):
                for x in l.fields.get(fld, EMPTY):
                    for s_ in fa.storage([x]):
                        if s_ in pre_locs:
                            shared.append((fld, s_))
    inner = [e for e in fa.effects if e.loc.pre and e.loc.site.endswith("[*]")]
    return {"effects_outside_frame": bad, "result_shares": shared, "inner_writes": inner, "analysis": fa, "returned_pre": [
        l for r in rets for l in r if l in pre_locs and l.kind == "instance"]}
