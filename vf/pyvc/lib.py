"""Library contracts (the assumed, listed, differentially validated trusted base - DESIGN.md §3).

networkx graphs are objects with abstract state
    _nodes : Atom -> Bool          _E : Atom x Atom -> Bool   (symmetric for nx.Graph)
and the representation invariant  E(u,v) => nodes(u) /\\ nodes(v)   (assumed for parameters,
re-established by every mutator below).
"""
from __future__ import annotations

import ast

import z3
import vf.pyvc.engine as _eng

from .engine import (Atom, B, I, Opaque, OpaqueFn, BoundMethod, ClassV, Closure, Coll, DictV, ModuleV, NONE, NoneV, Obj, Scalar, TupleV,
                     Unsupported, diff, empty_set, fresh, inter, mk_set, nonempty, set_sort, seteq, singleton, subset,
                     tuple_sort, union, val_of, z3_of)

PairAA = tuple_sort([Atom, Atom])
RelSort = z3.ArraySort(Atom, Atom, B)

GRAPH_CLASSES = {"DAG", "DiGraph", "Graph", "UndirectedGraph", "BayesianNetwork", "PDAG", "MarkovNetwork", "JunctionTree",
                 "ClusterGraph", "FactorGraph", "DynamicBayesianNetwork", "NaiveBayes"}
DIRECTED = {"DAG", "DiGraph", "BayesianNetwork", "PDAG", "DynamicBayesianNetwork", "NaiveBayes"}

# thin wrappers around networkx mutators: at call sites the networkx model is used directly (cheaper terms than a quantified
# postcondition).  That this model is the exact effect of the wrapper's body is proved separately, per wrapper, as a lemma
# (contracts/c15.py WrapperLemma / DAGAddEdgesFrom, obligations listed under C15) for the argument shapes the contracted code uses.
ASSUMED_WRAPPERS = {
    ("DAG", "add_node"), ("DAG", "add_nodes_from"), ("DAG", "add_edges_from"),
    ("UndirectedGraph", "add_node"), ("UndirectedGraph", "add_nodes_from"), ("UndirectedGraph", "add_edge"),
    ("UndirectedGraph", "add_edges_from"),
}


def E_(g, u, v):
    return g.fields["@E"][u, v]


def N_(g, u):
    return g.fields["@nodes"][u]


def wf_graph(g):
    a, b = fresh("a", Atom), fresh("b", Atom)
    f = z3.ForAll([a, b], z3.Implies(g.fields["@E"][a, b], z3.And(g.fields["@nodes"][a], g.fields["@nodes"][b])))
    if not g.fields["@directed"]:
        f = z3.And(f, z3.ForAll([a, b], g.fields["@E"][a, b] == g.fields["@E"][b, a]))
    return f


def new_graph(cls, tag, directed=None, latents=True):
    directed = (cls in DIRECTED) if directed is None else directed
    g = Obj(cls, {"@nodes": fresh(tag + "@nodes", set_sort(Atom)), "@E": fresh(tag + "@E", RelSort), "@directed": directed})
    if latents:
        g.fields["latents"] = Coll("set", Atom, fresh(tag + "_latents", set_sort(Atom)))
    return g


def empty_graph(cls, directed=None):
    directed = (cls in DIRECTED) if directed is None else directed
    a, b = fresh("a", Atom), fresh("b", Atom)
    g = Obj(cls, {"@nodes": empty_set(Atom), "@E": z3.Lambda([a, b], z3.BoolVal(False)), "@directed": directed})
    if cls in ("DAG", "BayesianNetwork", "PDAG"):
        g.fields["latents"] = Coll("set", Atom, empty_set(Atom))
    return g


Tok = z3.DeclareSort("OrderToken")
PathSeq = z3.DeclareSort("NodeSequence")
plen = z3.Function("seq_len", PathSeq, I)
p_on = z3.Function("seq_has", PathSeq, Atom, B)   # node x occurs in the node sequence p
SetA = set_sort(Atom)
IA = z3.Datatype("IndAssertion")
IA.declare("mk", ("event1", SetA), ("event2", SetA), ("event3", SetA))
IA = IA.create()


def ia_fields(z):
    return IA.event1(z), IA.event2(z), IA.event3(z)


def ia_eq(a, b):
    """IndependenceAssertion.__eq__: same three sets, or the first two swapped"""
    a1, a2, a3 = ia_fields(a)
    b1, b2, b3 = ia_fields(b)
    return z3.Or(z3.And(seteq(a1, b1, Atom), seteq(a2, b2, Atom), seteq(a3, b3, Atom)),
                 z3.And(seteq(a1, b2, Atom), seteq(a2, b1, Atom), seteq(a3, b3, Atom)))


# dynamic-network nodes: DynamicNode(name, time_slice) is an injective pairing on names
DN = z3.Function("DynamicNode", Atom, I, Atom)
dn_name = z3.Function("dn_name", Atom, Atom)
dn_slice = z3.Function("dn_slice", Atom, I)


def ensure_dn(ex):
    if not getattr(ex, "_dn_ax", False):
        ex._dn_ax = True
        a, t = fresh("a", Atom), fresh("t", I)
        ex.axioms.append(z3.ForAll([a, t], z3.And(dn_name(DN(a, t)) == a, dn_slice(DN(a, t)) == t), patterns=[DN(a, t)]))
        ex.assumed.add("DynamicNode(name, slice) is modelled as an injective pairing on abstract names (projections dn_name / dn_slice)")


def is_dn(n):
    return n == DN(dn_name(n), dn_slice(n))


class EdgeView(Coll):
    def __init__(self, g_E, directed, mem):
        super().__init__("iter", PairAA, mem, nodup=True)
        self.E = g_E
        self.directed = directed


# ------------------------------------------------------------------ reachability (lfp)
class PathTheory:
    """Path_E = reflexive-transitive closure of E, axiomatised by closure rules; leastness is
    supplied as explicit induction instances (sound: every instance is a theorem about the lfp)."""

    def __init__(self, ex):
        self.ex = ex
        self.rels = {}
        self.watch = []   # ghost relations: every edge relation that comes into play gets the two monotonicity instances against them

    def watch_rel(self, W):
        """Path_W <= Path_E whenever Path_E is closed under W-steps, and vice versa, for every relation E in play now or later
        (instances of the induction schema, i.e. theorems of the least fix-point; needed to move acyclicity between pointwise-equal
        relations that are different terms)"""
        PW = self.path(W)
        for k, (X, PX) in list(self.rels.items()):
            if isinstance(k, int) and not X.eq(W):
                self.ex.axioms.append(self.induct_rel(W, lambda x, y, PX=PX: PX(x, y)))
                self.ex.axioms.append(self.induct_rel(X, lambda x, y: PW(x, y)))
        self.watch.append((W, PW))

    def path(self, E):
        k = E.get_id()
        if k not in self.rels:
            P = z3.Function(f"Path!{len(self.rels)}", Atom, Atom, B)
            a, b, c = fresh("a", Atom), fresh("b", Atom), fresh("c", Atom)
            self.ex.axioms.append(z3.ForAll([a], P(a, a)))
            self.ex.axioms.append(z3.ForAll([a, b, c], z3.Implies(z3.And(P(a, b), E[b, c]), P(a, c))))
            self.ex.axioms.append(z3.ForAll([a, b, c], z3.Implies(z3.And(E[a, b], P(b, c)), P(a, c))))
            self.ex.axioms.append(z3.ForAll([a, b, c], z3.Implies(z3.And(P(a, b), P(b, c)), P(a, c))))
            # theorems of the least fix-point: a non-trivial path has a first and a last edge
            self.ex.axioms.append(z3.ForAll([a, b], z3.Implies(z3.And(P(a, b), a != b), z3.Exists([c], E[a, c]))))
            self.ex.axioms.append(z3.ForAll([a, b], z3.Implies(z3.And(P(a, b), a != b), z3.Exists([c], E[c, b]))))
            self.rels[k] = (E, P)  # pin E: ast ids are recycled after garbage collection
            _eng.PATH_PAIRS.append((E, P))   # lets solve() recognise counter-models in which P is not the closure of E
            for W, PW in self.watch:
                self.ex.axioms.append(self.induct_rel(W, lambda x, y: P(x, y)))
                self.ex.axioms.append(self.induct_rel(E, lambda x, y, PW=PW: PW(x, y)))
            self.ex.assumed.add("Path_E axiomatised as a reflexive relation closed under E-steps; leastness only through "
                                "explicitly listed induction instances (each a theorem of the least fix-point)")
        return self.rels[k][1]

    def induct_forward(self, E, S):
        """S closed under E-successors  =>  S closed under Path."""
        P = self.path(E)
        a, b = fresh("a", Atom), fresh("b", Atom)
        closed = z3.ForAll([a, b], z3.Implies(z3.And(S[a], E[a, b]), S[b]))
        return z3.Implies(closed, z3.ForAll([a, b], z3.Implies(z3.And(S[a], P(a, b)), S[b])))

    def induct_rel(self, E, Rf):
        """Rf reflexive and closed under E-steps on the right  =>  Path_E subseteq Rf (Rf: python fn (a,b)->Bool)."""
        P = self.path(E)
        a, b, c = fresh("a", Atom), fresh("b", Atom), fresh("c", Atom)
        hyp = z3.And(z3.ForAll([a], Rf(a, a)), z3.ForAll([a, b, c], z3.Implies(z3.And(Rf(a, b), E[b, c]), Rf(a, c))))
        return z3.Implies(hyp, z3.ForAll([a, b], z3.Implies(P(a, b), Rf(a, b))))

    def unfold_first(self, E):
        """a non-trivial path starts with an edge followed by a path (theorem of the least fix-point)."""
        P = self.path(E)
        a, b, c = fresh("a", Atom), fresh("b", Atom), fresh("c", Atom)
        return z3.ForAll([a, b], z3.Implies(z3.And(P(a, b), a != b), z3.Exists([c], z3.And(E[a, c], P(c, b)))))

    def simple_paths(self, E):
        """nx.all_simple_paths(G, u, v) as a function (u, v) -> set of node sequences, axiomatised for acyclic G."""
        k = ("sp", E.get_id())
        if k not in self.rels:
            F = z3.Function(f"SimplePaths!{len(self.rels)}", Atom, Atom, set_sort(PathSeq))
            P = self.path(E)
            u, v, w, p = fresh("u", Atom), fresh("v", Atom), fresh("w", Atom), fresh("p", PathSeq)
            ax = z3.ForAll([u, v], z3.Implies(u != v, z3.And(
                z3.ForAll([p], z3.Implies(F(u, v)[p], plen(p) >= 2)),
                z3.Exists([p], z3.And(F(u, v)[p], plen(p) > 2)) == z3.Exists([w], z3.And(E[u, w], w != v, P(w, v))),
                z3.Exists([p], F(u, v)[p]) == P(u, v))))
            self.ex.axioms.append(z3.Implies(self.acyclic(E), ax))
            self.rels[k] = (E, F)
        return self.rels[k][1]

    def avoid_rel(self, E, W):
        """ghost relation: E without the nodes of W (one relation per (E, W) pair of terms; monotonicity instances against every
        relation in play are added, so that a pointwise-equal relation has the same paths)"""
        key = ("avoid", E.get_id(), W.get_id())
        if key not in self.rels:
            a, b = fresh("a", Atom), fresh("b", Atom)
            EW = fresh("E_minus", RelSort)
            self.ex.axioms.append(z3.ForAll([a, b], EW[a, b] == z3.And(E[a, b], z3.Not(W[a]), z3.Not(W[b]))))
            self.rels[key] = ((E, W), EW)
            self.watch_rel(EW)
        return self.rels[key][1]

    def sp_avoid(self, E, u, v, W):
        """assumed theorem of nx.all_simple_paths on a DAG (u != v): some listed u~>v path avoids the node set W  <=>  v is reachable
        from u in the graph without the nodes of W  (instance of the schema for one W)."""
        F = self.simple_paths(E)
        x, p = fresh("x", Atom), fresh("p", PathSeq)
        PW = self.path(self.avoid_rel(E, W))
        self.ex.assumed.add("nx.all_simple_paths(G, u, v) on a DAG, u != v: a listed path avoiding a node set W exists iff v is reachable from u "
                            "in G minus W; every node of a listed path lies between u and v (assumed library contract)")
        return z3.And(z3.Exists([p], z3.And(F(u, v)[p], z3.ForAll([x], z3.Implies(p_on(p, x), z3.Not(W[x]))))) == z3.And(z3.Not(W[u]), PW(u, v)),
                      z3.ForAll([p, x], z3.Implies(z3.And(F(u, v)[p], p_on(p, x)), z3.And(self.path(E)(u, x), self.path(E)(x, v)))))

    def acyclic(self, E):
        a, b = fresh("a", Atom), fresh("b", Atom)
        return z3.ForAll([a, b], z3.Implies(E[a, b], z3.Not(self.path(E)(b, a))))

    def induct_backward(self, E, S):
        """S closed under E-predecessors  =>  S closed under Path^-1."""
        P = self.path(E)
        a, b = fresh("a", Atom), fresh("b", Atom)
        closed = z3.ForAll([a, b], z3.Implies(z3.And(S[b], E[a, b]), S[a]))
        return z3.Implies(closed, z3.ForAll([a, b], z3.Implies(z3.And(S[b], P(a, b)), S[a])))


_le = z3.Function("atom_le", Atom, Atom, B)
_hash_fs = None


def order_axioms():
    a, b, c = fresh("a", Atom), fresh("b", Atom), fresh("c", Atom)
    return [z3.ForAll([a, b], z3.Or(_le(a, b), _le(b, a))),
            z3.ForAll([a, b], z3.Implies(z3.And(_le(a, b), _le(b, a)), a == b)),
            z3.ForAll([a, b, c], z3.Implies(z3.And(_le(a, b), _le(b, c)), _le(a, c)))]


class Lib:
    def __init__(self):
        self.order_added = False
        self.paths = None
        self.card_fns = {}

    def theory(self, ex):
        if self.paths is None or self.paths.ex is not ex:
            self.paths = PathTheory(ex)
        return self.paths

    # ---- names
    def global_name(self, ex, name, st):
        if name in ("UndirectedGraph", "Independencies", "IndependenceAssertion", "DAG", "PDAG", "BayesianNetwork", "Graph",
                    "DiGraph", "MarkovNetwork", "DynamicNode", "DynamicBayesianNetwork", "StructureScore", "TabularCPD", "ContinuousFactor", "BaseFactor"):
            return ClassV(name)
        if name == "logger":
            return ModuleV("logger")
        if name in ("config", "tqdm"):
            return ModuleV(name)
        if name == "deque":
            return ModuleV("collections.deque")
        if name in ("permutations", "combinations", "product", "chain"):
            return ModuleV("itertools." + name)
        if name in ("_variable_or_iterable_to_set", "_powerset"):
            return ModuleV("pgmpy.utils.sets." + name)
        return None

    # ---- objects
    def obj_attr(self, ex, o, attr, st):
        if o.cls in GRAPH_CLASSES:
            if attr == "nodes":
                return Coll("iter", Atom, o.fields["@nodes"], nodup=True)
            if attr == "edges":
                return self.edges(ex, o, st)
        return None

    def edges(self, ex, g, st):
        E = g.fields["@E"]
        p = fresh("p", PairAA)
        if g.fields["@directed"]:
            return EdgeView(E, True, z3.Lambda([p], E[PairAA.accessor(0, 0)(p), PairAA.accessor(0, 1)(p)]))
        # undirected edges(): every edge once, in an orientation fixed by an unknown listing order
        tok = fresh("eord", Tok)
        Bf = self.before_fn(ex, Atom)
        q = fresh("q", PairAA)
        q0, q1 = PairAA.accessor(0, 0)(q), PairAA.accessor(0, 1)(q)
        C = z3.Lambda([q], z3.And(E[q0, q1], z3.Or(q0 == q1, Bf(tok, q0, q1))))
        return EdgeView(E, False, C)

    def obj_equal(self, ex, a, b, st):
        return None

    # ---- CPD objects (opaque references with a few modelled attributes; used by BayesianNetwork.check_model)
    def isinstance_hook(self, ex, v, tnode, st):
        if isinstance(v, Scalar) and v.z.sort() == Opaque and v.pytype == "CPD":
            names = [t.attr if isinstance(t, ast.Attribute) else getattr(t, "id", "?") for t in (tnode.elts if isinstance(tnode, ast.Tuple) else [tnode])]
            return z3.Function("cpd_isinstance_" + "_".join(sorted(names)), Opaque, B)(v.z)
        return None

    def cpd_attr(self, ex, v, attr, st):
        ref = v.z
        if attr in ("variables", "cardinality"):
            es = Atom if attr == "variables" else I
            mem = z3.Function(f"cpd_{attr}", Opaque, set_sort(es))(ref)
            AT = z3.Function(f"cpd_{attr}_at", Opaque, I, es)
            IDX = z3.Function(f"cpd_{attr}_idx", Opaque, es, I)
            n = z3.Function(f"cpd_{attr}_len", Opaque, I)(ref)
            c = Coll("list", es, mem, nodup=False)
            c.len_z = n
            c.seq = ((lambda i, AT=AT, ref=ref: AT(ref, i)), (lambda x, IDX=IDX, ref=ref: IDX(ref, x)))
            i_, x_ = fresh("i", I), fresh("x", es)
            st.assume(z3.And(n >= 0, z3.ForAll([i_], z3.Implies(z3.And(0 <= i_, i_ < n), mem[AT(ref, i_)])),
                             z3.ForAll([x_], z3.Implies(mem[x_], z3.And(0 <= IDX(ref, x_), IDX(ref, x_) < n, AT(ref, IDX(ref, x_)) == x_)))))
            ex.assumed.add("CPD objects are opaque references; .variables / .cardinality are lists (sequence view), .state_names a dict, "
                           "get_evidence() / is_valid_cpd() pure functions of the object")
            return c
        if attr == "variable":
            return Scalar(z3.Function("cpd_variable", Opaque, Atom)(ref))
        if attr == "state_names":
            return DictV(Atom, "scalar", z3.Function("cpd_state_names_dom", Opaque, set_sort(Atom))(ref),
                         z3.Function("cpd_state_names_val", Opaque, z3.ArraySort(Atom, Opaque))(ref), vsort=Opaque)
        return None

    def scalar_attr(self, ex, v, attr, st):
        if v.z.sort() == Opaque and v.pytype in ("CPD", None) and attr in ("variable", "variables", "cardinality", "state_names"):
            r = self.cpd_attr(ex, v, attr, st)
            if r is not None:
                return r
        if v.z.sort() == IA and attr in ("event1", "event2", "event3"):
            return Coll("frozenset", Atom, getattr(IA, attr)(v.z))
        if v.z.sort() == IA and attr == "all_vars":
            e1, e2, e3 = ia_fields(v.z)
            return Coll("frozenset", Atom, union(union(e1, e2, Atom), e3, Atom))
        return None

    def equal_hook(self, ex, a, b, st):
        if isinstance(a, EdgeView) and isinstance(b, EdgeView):
            x, y = fresh("a", Atom), fresh("b", Atom)
            if not a.directed and not b.directed:
                ex.used_lib.add("EdgeView.__eq__ (undirected: same set of unordered pairs)")
                return z3.ForAll([x, y], a.E[x, y] == b.E[x, y])
            if a.directed and b.directed:
                return z3.ForAll([x, y], a.E[x, y] == b.E[x, y])
        return None

    def coll_contains(self, ex, c, item, st):
        """`x in seq` compares with __eq__: for IndependenceAssertion elements that is equality up to swapping the two event sets
        (the proved contract of IndependenceAssertion.__eq__)"""
        if c.esort == IA and c.kind in ("list", "tuple", "iter"):
            iz = z3_of(item)
            if iz.sort() != IA:
                return z3.BoolVal(False)
            e = fresh("e", IA)
            return z3.Exists([e], z3.And(c.mem[e], ia_eq(e, iz)))
        return None

    def obj_contains(self, ex, o, item, st):
        if o.cls in GRAPH_CLASSES:
            return o.fields["@nodes"][z3_of(item)]
        return None

    def obj_iter(self, ex, o, st):
        if o.cls in GRAPH_CLASSES:
            return Coll("iter", Atom, o.fields["@nodes"], nodup=True)
        return None

    def subscript(self, ex, o, k, st):
        if getattr(ex, "dynamic_nodes", False) and isinstance(o, Scalar) and o.z.sort() == Atom and isinstance(k, Scalar) \
                and z3.is_int_value(z3.simplify(k.z)):
            ensure_dn(ex)
            i = z3.simplify(k.z).as_long()
            if i == 0:
                return Scalar(dn_name(o.z))
            if i == 1:
                return Scalar(dn_slice(o.z))
        return None

    def unpack_hook(self, ex, v, n, st):
        if getattr(ex, "dynamic_nodes", False) and isinstance(v, Scalar) and v.z.sort() == Atom and n == 2:
            ensure_dn(ex)
            return [Scalar(dn_name(v.z)), Scalar(dn_slice(v.z))]
        return None

    def binop(self, ex, op, a, b, st):
        return None

    def construct(self, ex, name, args, kwargs, st, node):
        if name in GRAPH_CLASSES and not args and not kwargs:
            ex.used_lib.add(f"{name}() -> empty graph")
            g = empty_graph(name)
            if name == "BayesianNetwork":
                g.fields["cpds"] = Coll("list", Opaque, None, items=[])
                g.fields["__opaque__"] = {"add_cpds": OpaqueFn("add_cpds", Opaque, pure=False)}
            if name == "MarkovNetwork":
                g.fields["factors"] = Coll("list", Opaque, None, items=[])
                g.fields["__opaque__"] = {"add_factors": OpaqueFn("add_factors", Opaque, pure=False)}
            return g
        if name == "DynamicNode" and len(args) == 2:
            ensure_dn(ex)
            return Scalar(DN(z3_of(args[0]), z3_of(args[1])), "DynamicNode")
        if name == "Independencies" and not args and not kwargs:
            return Obj("Independencies", {"independencies": Coll("list", IA, None, items=[])})
        if name in ("MarkovNetwork", "UndirectedGraph") and len(args) == 1 and not kwargs:
            # MarkovNetwork(ebunch): empty undirected graph + add_edges_from(ebunch); requires no self loops
            g = empty_graph(name, directed=False)
            if name == "MarkovNetwork":
                g.fields["factors"] = Coll("list", Opaque, None, items=[])
                g.fields["__opaque__"] = {"add_factors": OpaqueFn("add_factors", Opaque, pure=False)}
            c = ex.as_coll(args[0], st)
            if c.mem is not None:
                a = fresh("a", Atom)
                if name == "MarkovNetwork":
                    ex.oblige(st, z3.ForAll([a], z3.Not(c.mem[PairAA.mk(a, a)])), "call.MarkovNetwork.add_edge.no-self-loop")
                self.graph_method(ex, "Graph", g, "add_edges_from", [c], {}, st)
            ex.used_lib.add(f"{name}(ebunch) -> undirected graph on the listed edges")
            return g
        if name == "PDAG" and not args and set(kwargs) <= {"directed_ebunch", "undirected_ebunch", "latents"}:
            # assumed contract of PDAG.__init__: directed graph on D + U + U^-1 (undirected edges stored in both directions), the edge
            # sets and latent names kept as attributes
            ex.assumed.add("PDAG(directed_ebunch, undirected_ebunch, latents): DiGraph on D + U + reversed U; attributes directed_edges = set(D), "
                           "undirected_edges = set(U), latents = set(latents) (constructor contract assumed)")
            g = empty_graph("PDAG")
            D = ex.as_coll(kwargs.get("directed_ebunch", Coll("list", PairAA, None, items=[])), st, PairAA)
            U = ex.as_coll(kwargs.get("undirected_ebunch", Coll("list", PairAA, None, items=[])), st, PairAA)
            Dm = D.mem if D.mem is not None else empty_set(PairAA)
            Um = U.mem if U.mem is not None else empty_set(PairAA)
            x, y = fresh("a", Atom), fresh("b", Atom)
            g.fields["@E"] = z3.Lambda([x, y], z3.Or(Dm[PairAA.mk(x, y)], Um[PairAA.mk(x, y)], Um[PairAA.mk(y, x)]))
            E = g.fields["@E"]
            g.fields["@nodes"] = z3.Lambda([x], z3.Exists([y], z3.Or(E[x, y], E[y, x])))
            g.fields["directed_edges"] = Coll("set", PairAA, Dm)
            g.fields["undirected_edges"] = Coll("set", PairAA, Um)
            lat = kwargs.get("latents")
            lc = ex.as_coll(lat, st, Atom) if lat is not None else None
            g.fields["latents"] = Coll("set", Atom, lc.mem if lc is not None and lc.mem is not None else empty_set(Atom))
            return g
        if name == "IndependenceAssertion" and len(args) == 3:
            es = []
            for a in args:
                if isinstance(a, Scalar) and a.z.sort() == Atom:
                    es.append(z3.Store(empty_set(Atom), a.z, True))  # a single name stands for [name]
                else:
                    c = ex.as_coll(a, st, Atom)
                    es.append(c.mem if c.mem is not None else empty_set(Atom))
            # assumed contract of the constructor: raises ValueError unless event1 and event2 are non-empty
            ex.oblige(st, z3.And(nonempty(es[0], Atom), nonempty(es[1], Atom)), "call.IndependenceAssertion.events-nonempty")
            ex.assumed.add("IndependenceAssertion(e1,e2,e3) stores frozenset(e_i) (constructor contract assumed; requires e1, e2 non-empty)")
            return Scalar(IA.mk(*es), "IndependenceAssertion")
        return NotImplemented

    def super_(self, ex, args, st):
        # super(Cls, self) -> view of self that dispatches after Cls in the MRO
        if len(args) == 2 and isinstance(args[0], ClassV) and isinstance(args[1], Obj):
            o = args[1]
            v = Obj("super:" + args[0].name, o.fields)
            v.target = o
            return v
        raise Unsupported("super() form")

    def hash_(self, ex, v, st):
        """hash: an uninterpreted function per sort (equal values hash equal by congruence; sets are
        extensional arrays, so equal frozensets hash equal)."""
        z = z3_of(v) if not (isinstance(v, Coll) and v.kind in ("frozenset",)) else v.mem
        key = "hash_" + str(z.sort()).replace(" ", "")
        f = self.card_fns.get(key)
        if f is None:
            f = self.card_fns[key] = z3.Function(key, z.sort(), I)
        ex.used_lib.add("hash(): uninterpreted function per sort (congruence only)")
        return f(z)

    def card(self, ex, c, st):
        """|S| of a duplicate-free collection: uninterpreted function on characteristic arrays with background
        axioms (quantified over all arrays, triggered by card(S)):  n >= 0,  n = 0 <=> empty,  n = 1 <=> singleton,
        extensional congruence, and |S u {x}| = |S| + 1 for x notin S."""
        key = str(c.esort)
        if key not in self.card_fns:
            self.card_fns[key] = z3.Function(f"card_{key}", set_sort(c.esort), I)
        d = self.card_fns[key]
        if (id(ex), key) not in self.__dict__.setdefault("_card_ax", set()):
            self._card_ax.add((id(ex), key))
            A, Bq = fresh("ca", set_sort(c.esort)), fresh("cb", set_sort(c.esort))
            x, y = fresh("x", c.esort), fresh("y", c.esort)
            ex.axioms.append(z3.ForAll([A, Bq], z3.Implies(z3.ForAll([x], A[x] == Bq[x]), d(A) == d(Bq)),
                                       patterns=[z3.MultiPattern(d(A), d(Bq))]))
            ex.axioms.append(z3.ForAll([A], z3.And(d(A) >= 0,
                                                   (d(A) == 0) == z3.Not(z3.Exists([x], A[x])),
                                                   (d(A) == 1) == z3.Exists([x], z3.ForAll([y], A[y] == (y == x)))),
                                       patterns=[d(A)]))
            ex.axioms.append(z3.ForAll([A, x], z3.Implies(z3.Not(A[x]), d(z3.Store(A, x, True)) == d(A) + 1),
                                       patterns=[d(z3.Store(A, x, True))]))
            ex.used_lib.add("len(): uninterpreted cardinality with axioms n>=0, n=0 <=> empty, n=1 <=> singleton, |S+x| = |S|+1")
        return d(c.mem)

    def card_strict_subset(self, ex, Bset, esort, st):
        """lemma instance for one finite set B: every strict subset of B has fewer elements (a fact of finite cardinality that
        the background axioms do not include)"""
        d0 = self.card(ex, Coll("frozenset", esort, Bset), st)
        d = self.card_fns[str(esort)]
        A, x = fresh("ca", set_sort(esort)), fresh("x", esort)
        ex.assumed.add("cardinality: a strict subset of a finite set has fewer elements (instances supplied by contracts)")
        return z3.ForAll([A], z3.Implies(z3.And(z3.ForAll([x], z3.Implies(A[x], Bset[x])), z3.Exists([x], z3.And(Bset[x], z3.Not(A[x])))),
                                         z3.And(0 <= d(A), d(A) < d0)), patterns=[d(A)])

    def before_fn(self, ex, esort):
        """Before(tok, a, b): a is listed before b in the (unknown) sequence order denoted by the order token.
        Only totality/asymmetry on distinct elements is axiomatised (all that pair enumeration depends on)."""
        key = ("before", str(esort))
        if key not in self.card_fns:
            F = z3.Function(f"Before_{esort}", Tok, esort, esort, B)
            t, a, b = fresh("t", Tok), fresh("a", esort), fresh("b", esort)
            ax = [z3.ForAll([t, a, b], z3.Implies(a != b, F(t, a, b) != F(t, b, a)), patterns=[F(t, a, b)]),
                  z3.ForAll([t, a], z3.Not(F(t, a, a)), patterns=[F(t, a, a)])]
            self.card_fns[key] = (F, ax)
        F, ax = self.card_fns[key]
        flag = "_before_ax_" + str(esort)
        if not getattr(ex, flag, False):
            setattr(ex, flag, True)
            ex.axioms += ax
            ex.used_lib.add("itertools.combinations(S,2) / Graph.edges(): each unordered pair once, oriented by an unknown total listing order")
        return F

    def ensure_order(self, ex):
        if not getattr(ex, "_order_added", False):
            ex.axioms += order_axioms()
            ex._order_added = True
            ex.assumed.add("sorted(): names are totally ordered by an uninterpreted total order (mixed-type names that do not compare are outside the model)")

    def len_hook(self, ex, v, st):
        if isinstance(v, Scalar) and v.z.sort() == PathSeq:
            return plen(v.z)
        return None

    def sorted_(self, ex, v, st):
        items = v.items if isinstance(v, (TupleV, Coll)) else None
        if items is None and isinstance(v, Scalar):
            tv = val_of(v.z)
            items = tv.items if isinstance(tv, TupleV) else None
        if items is None or len(items) != 2:
            raise Unsupported("sorted() of anything but a pair")
        self.ensure_order(ex)
        a, b = z3_of(items[0]), z3_of(items[1])
        lo = z3.If(_le(a, b), a, b)
        hi = z3.If(_le(a, b), b, a)
        return Coll("list", Atom, z3.Store(z3.Store(empty_set(Atom), a, True), b, True), items=[Scalar(lo), Scalar(hi)], nodup=False)

    def flatten(self, ex, outer, st):
        raise Unsupported("sum(list of lists)")

    # ---- module level functions
    def call_function(self, ex, name, args, kwargs, st, node):
        if name in ("itertools.combinations", "itertools.permutations"):
            c = ex.as_coll(args[0], st)
            r = args[1]
            if name.endswith("combinations") and isinstance(r, Scalar) and r.z.sort() == I and not z3.is_int_value(z3.simplify(r.z)):
                # combinations(S, r) for a symbolic r: every r-element subset of S exactly once (as a tuple; order within not modelled)
                if not c.nodup:
                    raise Unsupported("combinations over a sequence with possible duplicates")
                if c.mem is None:
                    raise Unsupported("combinations of an empty literal with symbolic r")
                ss = set_sort(c.esort)
                S = fresh("S", ss)
                ex.assumed.add("itertools.combinations(S, r), symbolic r: every r-element subset of S exactly once")
                res = Coll("iter", ss, z3.Lambda([S], z3.And(subset(S, c.mem, c.esort), self.card(ex, Coll("frozenset", c.esort, S), st) == r.z)), nodup=True)
                res.elem_kind = "tuple"
                return res
            if not (isinstance(r, Scalar) and z3.is_int_value(z3.simplify(r.z)) and z3.simplify(r.z).as_long() == 2):
                raise Unsupported(f"{name} with r != 2")
            if c.mem is None:
                return Coll("iter", PairAA, None, items=[])
            ps = tuple_sort([c.esort, c.esort])
            a, b = fresh("a", c.esort), fresh("b", c.esort)
            if name.endswith("permutations"):
                if not c.nodup:
                    raise Unsupported("permutations over a sequence with possible duplicates")
                p = fresh("p", ps)
                return Coll("iter", ps, z3.Lambda([p], z3.And(c.mem[ps.accessor(0, 0)(p)], c.mem[ps.accessor(0, 1)(p)],
                                                             ps.accessor(0, 0)(p) != ps.accessor(0, 1)(p))), nodup=True)
            # combinations(S, 2) lists every unordered pair once, in an orientation that depends on the (unknown) order
            # of S: Comb(S, tok) is an uninterpreted function of the member set and an order token
            tok = c.ord if c.ord is not None else fresh("ord", Tok)
            Bf = self.before_fn(ex, c.esort)
            p = fresh("p", ps)
            p0, p1 = ps.accessor(0, 0)(p), ps.accessor(0, 1)(p)
            if not c.nodup:
                raise Unsupported("combinations over a sequence with possible duplicates")
            C = z3.Lambda([p], z3.And(c.mem[p0], c.mem[p1], p0 != p1, Bf(tok, p0, p1)))
            return Coll("iter", ps, C, nodup=True)
        if name == "itertools.product" and len(args) == 2:
            c1, c2 = ex.as_coll(args[0], st), ex.as_coll(args[1], st)
            if c1.mem is None or c2.mem is None:
                return Coll("iter", None, None, items=[])
            ps = tuple_sort([c1.esort, c2.esort])
            p = fresh("p", ps)
            return Coll("iter", ps, z3.Lambda([p], z3.And(c1.mem[ps.accessor(0, 0)(p)], c2.mem[ps.accessor(0, 1)(p)])), nodup=c1.nodup and c2.nodup)
        if name == "itertools.chain":
            cs = [ex.as_coll(a, st) for a in args]
            cs = [c for c in cs if c.mem is not None]
            if not cs:
                return Coll("iter", None, None, items=[])
            m = cs[0].mem
            for c in cs[1:]:
                m = union(m, c.mem, cs[0].esort)
            return Coll("iter", cs[0].esort, m, nodup=False)
        if name in ("nx.has_path", "networkx.has_path"):
            g, u, v = args[0], z3_of(args[1]), z3_of(args[2])
            ex.oblige(st, z3.And(N_(g, u), N_(g, v)), "call.nx.has_path.nodes-present")
            th = self.theory(ex)
            if not g.fields["@directed"]:
                # undirected graphs keep E symmetric (wf_graph), so the reflexive-transitive closure of E is connectivity; ghost lemma
                # (induction instance, a theorem of the least fix-point): for symmetric E, Path_E is symmetric
                P = th.path(g.fields["@E"])
                st.assume(th.induct_rel(g.fields["@E"], lambda x, y: P(y, x)))
            return Scalar(th.path(g.fields["@E"])(u, v))
        if name in ("nx.is_directed_acyclic_graph", "networkx.is_directed_acyclic_graph"):
            g = args[0]
            if not g.fields["@directed"]:
                return Scalar(z3.BoolVal(False))
            ex.assumed.add("nx.is_directed_acyclic_graph(G) <=> no edge (a, b) with a path b ~> a (Path reflexive, so self loops count)")
            return Scalar(self.theory(ex).acyclic(g.fields["@E"]))
        if name in ("nx.dfs_preorder_nodes", "nx.descendants"):
            g, u = args[0], z3_of(args[1])
            ex.oblige(st, N_(g, u), f"call.{name}.node-present")
            P = self.theory(ex).path(g.fields["@E"])
            x = fresh("x", Atom)
            if name.endswith("descendants"):
                return Coll("set", Atom, z3.Lambda([x], z3.And(P(u, x), x != u)))
            return Coll("iter", Atom, z3.Lambda([x], P(u, x)), nodup=True)
        if name == "collections.deque" and not args and set(kwargs) == {"maxlen"}:
            n = kwargs["maxlen"]
            if not (isinstance(n, Scalar) and n.z.sort() == I):
                raise Unsupported("deque(maxlen=...) with a non-integer bound")
            ex.oblige(st, n.z >= 0, "call.deque.maxlen-nonnegative")   # ValueError otherwise
            d = Coll("list", None, None, items=[])
            d.maxlen = n.z
            ex.assumed.add("collections.deque(maxlen=n): append keeps a subset of old + {x}; nothing at all when n == 0")
            return d
        if name.startswith("logger."):
            return NONE
        if name == "tqdm":
            return Scalar(fresh("pbar", Opaque))
        if name == "pgmpy.utils.sets._variable_or_iterable_to_set":
            # assumed contract of the helper (names are strings): None -> {}, a name -> {name}, an iterable -> frozenset(it)
            ex.assumed.add("pgmpy.utils.sets._variable_or_iterable_to_set: None -> {}, str -> {x}, iterable of str -> frozenset(x) (names are str)")
            x = args[0]
            if isinstance(x, NoneV):
                return Coll("frozenset", Atom, empty_set(Atom), items=[])
            if isinstance(x, Scalar):
                return Coll("frozenset", Atom, z3.Store(empty_set(Atom), x.z, True), items=[x])
            c = ex.as_coll(x, st, Atom)
            return Coll("frozenset", Atom, c.mem if c.mem is not None else empty_set(Atom))
        if name == "pgmpy.utils.sets._powerset":
            # assumed contract of the helper: every subset of the argument, each exactly once (as a tuple; the listing order is not modelled)
            ex.assumed.add("pgmpy.utils.sets._powerset(S): every subset of S exactly once, as tuples, in an unmodelled order")
            c = ex.as_coll(args[0], st, Atom)
            if not c.nodup:
                raise Unsupported("_powerset of a sequence with possible duplicates")
            ss = set_sort(c.esort if c.esort is not None else Atom)
            base = c.mem if c.mem is not None else empty_set(Atom)
            S = fresh("S", ss)
            r = Coll("iter", ss, z3.Lambda([S], subset(S, base, ss.domain())), nodup=True)
            r.elem_kind = "tuple"
            return r
        if name in ("nx.all_simple_paths",):
            g, u, v = args[0], z3_of(args[1]), z3_of(args[2])
            ex.oblige(st, z3.And(N_(g, u), N_(g, v)), "call.nx.all_simple_paths.nodes-present")
            # contract (directed ACYCLIC graphs, u != v): the result is a collection of node sequences, each of
            # length >= 2, and one of them is longer than 2 iff some path u -> w ~> v avoids the direct edge
            ex.oblige(st, z3.And(self.theory(ex).acyclic(g.fields["@E"]), u != v), "call.nx.all_simple_paths.acyclic-graph")
            SP = self.theory(ex).simple_paths(g.fields["@E"])(u, v)
            return Coll("iter", PathSeq, SP, nodup=True)
        return NotImplemented

    # ---- methods
    def call_method(self, ex, cname, recv, name, args, kwargs, st, node):
        if isinstance(recv, Obj) and recv.fields.get("__cpds__") and name == "get_cpds" and (len(args) == 1 or set(kwargs) == {"node"}):
            # the CPD attached to a node, or None: a pure function of the node for the (unchanged) model
            n = z3_of(args[0] if args else kwargs["node"])
            r = Scalar(z3.Function("cpd_of", Atom, Opaque)(n), "CPD")
            r.none_if = z3.Not(z3.Function("has_cpd", Atom, B)(n))
            return r
        if isinstance(recv, Scalar) and recv.z.sort() == Opaque and recv.pytype == "CPD":
            if name == "get_evidence" and not args:
                return Coll("list", Atom, z3.Function("cpd_evidence", Opaque, set_sort(Atom))(recv.z))
            if name == "is_valid_cpd" and not args:
                return Scalar(z3.Function("cpd_is_valid", Opaque, B)(recv.z))
        if isinstance(recv, Obj) and recv.cls.startswith("super:"):
            target = recv.target
            after = recv.cls[6:]
            mro = ex.classes.get(target.cls, {}).get("mro", [target.cls])
            rest = mro[mro.index(after) + 1:] if after in mro else ["DiGraph"]
            for c in rest:
                if (c, name) in ASSUMED_WRAPPERS:
                    ex.assumed.add(f"{c}.{name} used through its networkx model (lemma {c}.{name} verified under C15, not re-checked in this run unless this is C15)")
                    c = "DiGraph" if target.fields["@directed"] else "Graph"
                r = self.graph_method(ex, c, target, name, args, kwargs, st)
                if r is not NotImplemented:
                    return r
            return NotImplemented
        if isinstance(recv, Obj) and recv.cls in GRAPH_CLASSES:
            if (cname, name) in ASSUMED_WRAPPERS:
                ex.assumed.add(f"{cname}.{name} used through its networkx model (lemma {cname}.{name} verified under C15, not re-checked in this run unless this is C15)")
                return self.graph_method(ex, "DiGraph" if recv.fields["@directed"] else "Graph", recv, name, args, kwargs, st)
            if cname in ("DiGraph", "Graph"):
                return self.graph_method(ex, cname, recv, name, args, kwargs, st)
        return NotImplemented

    def order_fn(self, ex, g, kind):
        """adjacency lists are reported in an order fixed by the (unmodelled) insertion history of this graph object"""
        key = ("ordfn", id(ex), g.fields["@E"].get_id(), kind)
        if key not in self.card_fns:
            self.card_fns[key] = (g.fields["@E"], z3.Function(f"order_{kind}!{len(self.card_fns)}", Atom, Tok))
        return self.card_fns[key][1]

    def graph_method(self, ex, cname, g, name, args, kwargs, st):
        if cname not in ("DiGraph", "Graph"):
            return NotImplemented
        F = g.fields
        E, Nn, directed = F["@E"], F["@nodes"], F["@directed"]
        x, y = fresh("a", Atom), fresh("b", Atom)
        tag = f"nx.{cname}.{name}"
        if name == "nodes" and not args:
            ex.used_lib.add(tag)
            return Coll("iter", Atom, Nn, nodup=True)
        if name == "edges" and not args:
            ex.used_lib.add(tag)
            return self.edges(ex, g, st)
        if name in ("predecessors", "successors", "neighbors"):
            n = z3_of(args[0])
            ex.oblige(st, Nn[n], f"call.nx.{name}.node-present")
            ex.used_lib.add(tag)
            if name == "predecessors":
                if not directed:
                    raise Unsupported("predecessors on undirected")
                r = Coll("iter", Atom, z3.Lambda([x], E[x, n]), nodup=True)
            else:
                r = Coll("iter", Atom, z3.Lambda([x], E[n, x]), nodup=True)
            r.ord = self.order_fn(ex, g, name)(n)
            return r
        if name == "has_edge":
            ex.used_lib.add(tag)
            return Scalar(E[z3_of(args[0]), z3_of(args[1])])
        if name == "has_node":
            ex.used_lib.add(tag)
            return Scalar(Nn[z3_of(args[0])])
        if name == "add_node":
            n = z3_of(args[0] if args else kwargs["node"])
            F["@nodes"] = z3.Store(Nn, n, True)
            lat = kwargs.get("latent", args[2] if len(args) > 2 else None)
            if lat is not None and "latents" in F:
                t = ex.truth_z(st, lat)
                F["latents"].mem = z3.If(t, z3.Store(F["latents"].mem, n, True), F["latents"].mem)
            ex.used_lib.add(tag)
            return NONE
        if name == "add_nodes_from":
            c = ex.as_coll(args[0] if args else kwargs["nodes"], st)
            if c.mem is not None:
                F["@nodes"] = union(Nn, c.mem, Atom)
            lat = kwargs.get("latent")
            if lat is not None:
                raise Unsupported("add_nodes_from(latent=...)")
            ex.used_lib.add(tag)
            return NONE
        if name == "add_edge":
            u, v = z3_of(args[0]), z3_of(args[1])
            if directed:
                F["@E"] = z3.Lambda([x, y], z3.Or(E[x, y], z3.And(x == u, y == v)))
            else:
                F["@E"] = z3.Lambda([x, y], z3.Or(E[x, y], z3.And(x == u, y == v), z3.And(x == v, y == u)))
            F["@nodes"] = z3.Store(z3.Store(Nn, u, True), v, True)
            if directed and getattr(ex.contract, "edge_lemmas", False):
                # ghost lemma (leastness instance): Path_{E+(u,v)}(a,b) => Path_E(a,b) \/ (Path_E(a,u) /\ Path_E(v,b))
                th = self.theory(ex)
                P0 = th.path(E)
                st.assume(th.induct_rel(F["@E"], lambda a, b: z3.Or(P0(a, b), z3.And(P0(a, u), P0(v, b)))))
            ex.used_lib.add(tag)
            return NONE
        if name == "add_edges_from":
            c = ex.as_coll(args[0] if args else kwargs["ebunch"], st)
            if c.mem is None:
                return NONE
            mk = tuple_sort([Atom, Atom]).mk
            if directed:
                F["@E"] = z3.Lambda([x, y], z3.Or(E[x, y], c.mem[mk(x, y)]))
            else:
                F["@E"] = z3.Lambda([x, y], z3.Or(E[x, y], c.mem[mk(x, y)], c.mem[mk(y, x)]))
            F["@nodes"] = z3.Lambda([x], z3.Or(Nn[x], z3.Exists([y], z3.Or(c.mem[mk(x, y)], c.mem[mk(y, x)]))))
            ex.used_lib.add(tag)
            return NONE
        if name == "remove_edge":
            u, v = z3_of(args[0]), z3_of(args[1])
            ex.oblige(st, E[u, v], "call.nx.remove_edge.edge-present")
            if directed:
                F["@E"] = z3.Lambda([x, y], z3.And(E[x, y], z3.Not(z3.And(x == u, y == v))))
            else:
                F["@E"] = z3.Lambda([x, y], z3.And(E[x, y], z3.Not(z3.And(x == u, y == v)), z3.Not(z3.And(x == v, y == u))))
            if directed and getattr(ex.contract, "edge_lemmas", False):
                # ghost lemmas: Path_{E-(u,v)} <= Path_E (leastness instance), and a non-trivial path of E-(u,v) starts with one of its edges
                th = self.theory(ex)
                P0, P1 = th.path(E), th.path(F["@E"])
                st.assume(th.induct_rel(F["@E"], lambda a, b: P0(a, b)))
                st.assume(th.unfold_first(F["@E"]))
            ex.used_lib.add(tag)
            return NONE
        if name == "remove_node":
            n = z3_of(args[0])
            ex.oblige(st, Nn[n], "call.nx.remove_node.node-present")
            F["@nodes"] = z3.Store(Nn, n, False)
            F["@E"] = z3.Lambda([x, y], z3.And(E[x, y], x != n, y != n))
            ex.used_lib.add(tag)
            return NONE
        if name == "to_undirected":
            ex.used_lib.add(tag)
            return Obj("Graph", {"@nodes": Nn, "@E": z3.Lambda([x, y], z3.Or(E[x, y], E[y, x])), "@directed": False})
        if name == "subgraph":
            c = ex.as_coll(args[0] if args else kwargs["nodes"], st)
            ex.used_lib.add(tag)
            f = {"@nodes": inter(Nn, c.mem, Atom), "@E": z3.Lambda([x, y], z3.And(E[x, y], c.mem[x], c.mem[y])), "@directed": directed}
            if "latents" in F:
                # networkx subgraph views of pgmpy graphs are built through __class__() and do not carry `latents`
                f["latents"] = Coll("set", Atom, empty_set(Atom))
            return Obj(g.cls, f)
        if name == "copy":
            ex.used_lib.add(tag)
            f = {"@nodes": Nn, "@E": E, "@directed": directed}
            if "latents" in F:
                f["latents"] = Coll("set", Atom, empty_set(Atom))
            return Obj(g.cls, f)
        if name in ("number_of_nodes", "__len__"):
            return Scalar(self.card(ex, Coll("set", Atom, Nn), st))
        return NotImplemented
