"""Driver of E1: verify a list of contracted functions, discharge in parallel, feed the Report."""
from __future__ import annotations

import importlib
import multiprocessing as mp
import os
import time
import traceback

from vf import core
from vf.pyvc import engine as eng
from vf.pyvc.lib import Lib

_OBS = []


def _discharge(i):
    ob = _OBS[i]
    if ob.kind == "cover":
        v, m, secs, be = eng.solve_cover(ob.hyps)
        return i, v, None, secs, be
    v, m, secs, be = eng.solve(ob.hyps, ob.goal)
    return i, v, m, secs, be


def verify_functions(rep: core.Report, module_names, quals, classes, prop=None, nproc=None):
    """Generate + discharge obligations for `quals` (contract names in eng.REGISTRY)."""
    global _OBS
    for m in module_names:
        importlib.import_module(m)
    src = eng.Source(core.REPO)
    all_obs = []
    for q in quals:
        c = eng.REGISTRY[q] if q in eng.REGISTRY else eng.LEMMAS[q]
        ex = eng.Executor(src, Lib(), classes)
        t0 = time.time()
        try:
            info = ex.verify(c)
        except eng.Unsupported as e:
            rep.undecided.append(f"{q}: left the modelled subset: {e}")
            rep.functions[q] = {"file": c.file, "status": "undecided", "reason": str(e)}
            continue
        except Exception as e:  # the sidecar contract refers to names/shapes the current source no longer has
            if os.environ.get("VERIF_TRACE"):
                traceback.print_exc()
            rep.undecided.append(f"{q}: contract could not be evaluated against the current source ({type(e).__name__}: {e})")
            rep.functions[q] = {"file": c.file, "status": "undecided", "reason": f"{type(e).__name__}: {e}"}
            continue
        info["gen_secs"] = round(time.time() - t0, 2)
        info["obligations"] = len(ex.obligations)
        info["inlined_callees"] = sorted(ex.inlined)
        info["callee_contracts_used"] = sorted(ex.used_contracts)
        rep.functions[q] = info
        rep.trusted += sorted("library contract: " + u for u in ex.used_lib)
        rep.assumptions += sorted(ex.assumed)
        if not ex.obligations:
            rep.faults.append({"what": f"{q}: zero obligations generated"})
        for ob in ex.obligations:
            ob.function = q
        all_obs += ex.obligations
    _OBS = all_obs
    n = nproc or min(16, os.cpu_count() or 4)
    results = []
    if all_obs:
        ctx = mp.get_context("fork")
        with ctx.Pool(min(n, len(all_obs))) as pool:
            results = pool.map(_discharge, range(len(all_obs)), chunksize=1)
    for i, verdict, model, secs, be in results:
        ob = all_obs[i]
        ob.verdict, ob.model, ob.secs, ob.backend = verdict, model, secs, be
        rep.add_obligation({"name": ob.name, "verdict": verdict, "backend": be, "secs": round(secs, 3), "function": ob.function,
                            "size": ob.size, "kind": ob.kind})
        f = rep.functions.get(ob.function, {})
        f["discharged"] = f.get("discharged", 0) + (1 if verdict == "discharged" else 0)
        if verdict in ("refuted", "refuted-bounded") and f.get("locals_remapped") and ob.kind != "cover":
            # the contract's local names were re-mapped by position onto renamed locals: good enough to find a proof, not to refute
            rep.undecided.append(f"{ob.name}: {verdict}, but not trusted: the sidecar contract's locals were re-mapped onto renamed "
                                 f"locals {f['locals_remapped']}")
            continue
        if verdict == "refuted-bounded":
            # counter-model found only by the ground search over a bounded universe of names: a candidate that
            # becomes a violation only when a bounded group of the same property exhibits a failing input
            rep.candidates.append({"key": f"E1:{ob.name}", "what": f"obligation {ob.name}: counter-model candidate ({be})",
                                   "payload": {"engine": "E1", "obligation": ob.name, "function": ob.function, "path": ob.trace[-12:],
                                               "solver_output": model, "no_failing_input": True}})
        elif verdict == "refuted":
            rep.add_violation(
                f"E1:{ob.name}", f"obligation {ob.name} refuted by {be}",
                {"engine": "E1", "obligation": ob.name, "function": ob.function, "path": ob.trace[-12:],
                 "solver_output": model, "no_failing_input": True})
        elif verdict == "vacuous":
            rep.faults.append({"what": f"vacuity guard: precondition of {ob.name} is unsatisfiable"})
        elif verdict == "unknown":
            rep.undecided.append(f"{ob.name}: solver returned unknown ({model}) after {secs:.1f}s")
    for q, f in rep.functions.items():
        if "obligations" in f:
            f["status"] = "proved" if f.get("discharged", 0) == f["obligations"] else "not-proved"
    return all_obs
