"""Concrete programs over the Python subset and the library models of vf/pyvc.  tools/crosscheck.py runs every function twice:
in CPython (real networkx / pgmpy / itertools / collections) and in the symbolic executor on the same AST, and demands that
the executor proves `result == <what CPython returned>` (compared at the executor's level of abstraction: lists by membership).
A model of a library function that deviates from the real one makes the corresponding equality unprovable.
"""
import itertools
from collections import deque

import networkx as nx

from pgmpy.base import DAG, UndirectedGraph
from pgmpy.models import BayesianNetwork
from pgmpy.utils.sets import _powerset, _variable_or_iterable_to_set


def _dag():
    g = DAG()
    g.add_nodes_from(["a", "b", "c", "d", "e"])
    g.add_edges_from([("a", "b"), ("b", "c"), ("a", "d"), ("d", "c")])
    return g


# ---- networkx / pgmpy graph models
def g_nodes():
    return set(_dag().nodes())


def g_edges():
    return set(_dag().edges())


def g_pred():
    g = _dag()
    return set(g.predecessors("c"))


def g_succ():
    g = _dag()
    return set(g.successors("a"))


def g_has_edge():
    g = _dag()
    return g.has_edge("a", "b") and not g.has_edge("b", "a")


def g_has_path():
    g = _dag()
    return nx.has_path(g, "a", "c") and not nx.has_path(g, "c", "a") and not nx.has_path(g, "a", "e")


def g_descendants():
    return set(nx.descendants(_dag(), "a"))


def g_dfs():
    return set(nx.dfs_preorder_nodes(_dag(), "b"))


def g_remove_edge():
    g = _dag()
    g.remove_edge("a", "b")
    return set(g.edges())


def g_remove_node():
    g = _dag()
    g.remove_node("d")
    return (set(g.nodes()), set(g.edges()))


def g_subgraph():
    g = _dag().subgraph(["a", "b", "c"])
    return (set(g.nodes()), set(g.edges()))


def g_add_edge_new_node():
    g = _dag()
    g.add_edge("e", "f")
    return (set(g.nodes()), set(g.edges()))


def g_is_dag():
    g = _dag()
    ok = nx.is_directed_acyclic_graph(g)
    g.add_edge("c", "a")
    return ok and not nx.is_directed_acyclic_graph(g)


def g_undirected():
    u = _dag().to_undirected()
    return u.has_edge("b", "a") and u.has_edge("a", "b") and not u.has_edge("a", "c")


def g_parents_children():
    g = _dag()
    return (set(g.get_parents("c")), set(g.get_children("a")))


def g_copy_independent():
    g = _dag()
    h = g.copy()
    h.add_edge("e", "a")
    return (set(g.edges()), set(h.edges()))


def bn_add_edge_rejected():
    m = BayesianNetwork()
    m.add_edges_from([("a", "b"), ("b", "c")])
    try:
        m.add_edge("c", "a")
        return "accepted"
    except ValueError:
        return "rejected"


def bn_self_loop_rejected():
    m = BayesianNetwork()
    try:
        m.add_edge("a", "a")
        return "accepted"
    except ValueError:
        return "rejected"


def ug_has_path():
    g = UndirectedGraph()
    g.add_nodes_from(["a", "b", "c", "d"])
    g.add_edges_from([("a", "b"), ("b", "c")])
    return (nx.has_path(g, "c", "a"), nx.has_path(g, "a", "d"), nx.has_path(g, "d", "d"))


# ---- itertools / helpers
def it_combinations():
    return set(frozenset(p) for p in itertools.combinations(["a", "b", "c"], 2))


def it_permutations():
    return set(itertools.permutations(["a", "b", "c"], 2))


def it_product():
    return set(itertools.product(["a", "b"], ["x"]))


def it_chain():
    return set(itertools.chain(["a"], ["b", "c"]))


def powerset_count():
    return len(list(_powerset({"a", "b", "c"})))


def powerset_members():
    return set(frozenset(s) for s in _powerset({"a", "b"}))


def to_set_single():
    return set(_variable_or_iterable_to_set("a"))


def to_set_none():
    return set(_variable_or_iterable_to_set(None))


# ---- builtins and collections
def b_range_len():
    xs = ["a", "b", "c"]
    out = set()
    for i in range(len(xs)):
        out.add(xs[i])
    return out


def b_enumerate():
    out = set()
    for i, x in enumerate(["a", "b", "c"][1:]):
        out.add(x)
    return out


def b_max_key():
    return max([("a", 1), ("b", 3), ("c", 2)], key=lambda t: t[1])[0]


def b_max_default():
    return max([], key=lambda t: t[1], default=("none", 0))[0]


def b_min_key():
    return min([("a", 2), ("b", 1)], key=lambda t: t[1])[0]


def b_deque0():
    d = deque(maxlen=0)
    d.append("a")
    d.append("b")
    return len(d) == 0


def b_repeat():
    xs = [True] * 3
    return len(xs) == 3 and xs[2]


def b_set_ops():
    a, b = {"a", "b", "c"}, {"b", "d"}
    return (a & b, a | b, a - b)


def b_set_union_star():
    d = {"x": {"a"}, "y": {"b", "c"}}
    return set.union(*d.values())


def b_dict_items_filter():
    d = {"x": "1", "y": "2", "z": "3"}
    keep = {"x", "z"}
    e = {k: v for k, v in d.items() if k in keep}
    return set(e.keys())


def b_all_any():
    xs = ["a", "b"]
    return all(x in {"a", "b", "c"} for x in xs) and any(x == "b" for x in xs) and not any(x == "c" for x in xs)


def b_list_eq_empty():
    xs = [x for x in ["a", "b"] if x == "c"]
    return xs == []


def b_sorted_pair():
    return tuple(sorted(["b", "a"]))


def b_isinstance():
    return isinstance(["a"], (list, tuple)) and not isinstance({"a"}, (list, tuple)) and isinstance("a", str)


def b_short_circuit():
    x = None
    return x is None or x < 3


def b_star_args():
    def f(u, v):
        return (v, u)
    pair = ("a", "b")
    return f(*pair)


def b_try_except():
    try:
        raise ValueError("x")
    except ValueError:
        return "caught"


def b_for_else_free():
    found = "no"
    for x in ["a", "b", "c"]:
        if x == "b":
            found = "yes"
            break
    return found


def b_while_pop():
    todo = {"a", "b"}
    seen = set()
    while todo:
        x = todo.pop()
        seen.add(x)
    return seen
